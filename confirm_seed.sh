#!/bin/bash
# confirm_seed.sh <Cnn> <mK>  — independently confirm a seeded change in a fresh scratch worktree:
# (1) compiles + baseline tests still pass with the change, (2) its demonstration fails with the
# change, (3) the demonstration passes without it.  On success the change is filed under /verif/seeded/.
export GOFLAGS=-mod=mod GOPROXY=off GOSUMDB=off GOTOOLCHAIN=local
ID=$1; M=$2; SRC=${SEEDROOT:-/tmp/seed}/$ID/out/$M; OUTM=${3:-$M}
WT=/tmp/confirm-$ID-$OUTM
[ -f $SRC/patch.diff ] || { echo "no patch $SRC"; exit 2; }
git -C /repo worktree add --detach $WT HEAD -q || exit 2
cleanup() { git -C /repo worktree remove --force $WT; }
trap cleanup EXIT
cd $WT
pkg=$(grep -m1 '^package ' $SRC/demo_test.go | awk '{print $2}')
case $pkg in
  pub) dir=pub;; streams) dir=streams;; *) dir=$(grep -m1 -o 'astool/[a-z/]*\|streams/[a-z/]*\|pub' $SRC/demo_test.go | head -1);;
esac
[ -n "$DEMO_DIR" ] && dir=$DEMO_DIR
tests=$(grep -o '^func Test[A-Za-z0-9_]*' $SRC/demo_test.go | sed 's/func //' | paste -sd'|')
res="id=$ID-$M dir=$dir"
git apply $SRC/patch.diff || { echo "$res APPLY-FAIL"; exit 1; }
go build ./... || { echo "$res BUILD-FAIL"; exit 1; }
/verif/baseline.sh $WT > /tmp/confirm-$ID-$M.base 2>&1; b=$?
cp $SRC/demo_test.go $dir/zz_seed_demo_test.go
go test -vet=off -count=1 -timeout 120s -run "^($tests)\$" ./$dir/ > /tmp/confirm-$ID-$M.with 2>&1; w=$?
git apply -R $SRC/patch.diff
go test -vet=off -count=1 -timeout 120s -run "^($tests)\$" ./$dir/ > /tmp/confirm-$ID-$M.without 2>&1; wo=$?
echo "$res baseline_rc=$b demo_with_patch_rc=$w demo_without_rc=$wo"
if [ $b = 0 ] && [ $w != 0 ] && [ $wo = 0 ]; then
  D=/verif/seeded/$ID-$OUTM; mkdir -p $D
  cp $SRC/patch.diff $D/patch.diff; cp $SRC/demo_test.go $D/demo_test.go; cp $SRC/NOTES.md $D/NOTES.md 2>/dev/null
  python3 - "$ID" "$OUTM" "$dir" "$tests" <<'PY'
import json,sys
id,m,d,tests=sys.argv[1:5]
meta={"breaks_property":id,"mutant":m,"origin":"independent sub-agent given only the property text and a scratch worktree",
 "needs_to_manifest":"see NOTES.md (written by the sub-agent)","demo_dir":d,"demo_tests":tests,
 "confirmed":{"baseline_with_patch":"700 stable tests pass (baseline.sh rc=0)","demo_with_patch":"FAIL","demo_without_patch":"PASS",
   "how":"/verif/confirm_seed.sh %s %s in a fresh scratch worktree of /repo HEAD"%(id,m)},
 "detected_by":"(filled in by seedrun.sh)"}
json.dump(meta,open('/verif/seeded/%s-%s/meta.json'%(id,m),'w'),indent=1)
PY
  echo "CONFIRMED $ID-$OUTM"
else
  echo "NOT-CONFIRMED $ID-$OUTM (see /tmp/confirm-$ID-$M.*)"
fi
