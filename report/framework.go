// Package report is the shared reporting code: results, evidence files, known findings.
package report

import (
	"crypto/sha1"
	"encoding/hex"
	"encoding/json"
	"fmt"
	"os"
	"path/filepath"
	"sort"
	"strconv"
	"strings"
	"time"
)

// Root is /verif (overridable for tests).
var Root = func() string {
	if r := os.Getenv("VERIF_ROOT"); r != "" {
		return r
	}
	return "/verif"
}()

// OutRoot is where evidence and replay files are written (VERIF_OUT; default Root). Parallel runs of
// the checks against scratch copies of the repository (pseedrun.sh) each get their own.
var OutRoot = func() string {
	if r := os.Getenv("VERIF_OUT"); r != "" {
		return r
	}
	return Root
}()


// Violation is one property violation found by a check.
type Violation struct {
	// Key identifies *what fails* (kind | library call site | minimal input feature); it is what
	// known_findings.json is matched against.
	Key    string      `json:"key"`
	What   string      `json:"what"`
	Replay interface{} `json:"replay"`
}

// Finding is an entry of known_findings.json.
type Finding struct {
	Property string `json:"property"`
	Key      string `json:"key"`
	Status   string `json:"status"` // "known" | "fixed"
	Commit   string `json:"commit,omitempty"`
	What     string `json:"what"`
}

// Result accumulates what a check covered.
type Result struct {
	Property    string
	Tier        string
	Level       string // exploration | fault_enumeration | model_checking
	Seed        int
	start       time.Time
	Evaluations int
	Nontrivial  map[string]struct{} // distinct non-trivial case classes
	States      int
	Transitions int
	Traces      int
	Rule        string
	Samples     []interface{}
	Exhaustive  bool
	Extra       map[string]interface{}
	Assumptions []string
	viol        map[string]*Violation
	violCount   map[string]int
	Outcomes    map[string]int
}

// NewResult starts a check run.
func NewResult(property, tier, level string) *Result {
	seed, _ := strconv.Atoi(os.Getenv("VERIF_SEED"))
	return &Result{Property: property, Tier: tier, Level: level, Seed: seed, start: time.Now(),
		Nontrivial: map[string]struct{}{}, Extra: map[string]interface{}{}, Exhaustive: true,
		viol: map[string]*Violation{}, violCount: map[string]int{}, Outcomes: map[string]int{}}
}

// Thorough reports whether the thorough tier was requested.
func (r *Result) Thorough() bool { return r.Tier == "thorough" }

// Case counts one evaluated case; class != "" marks it as non-trivial of that class.
func (r *Result) Case(class string) {
	r.Evaluations++
	if class != "" {
		r.Nontrivial[class] = struct{}{}
	}
}

// Outcome counts a distinct observed outcome label.
func (r *Result) Outcome(label string) { r.Outcomes[label]++ }

// Sample keeps up to 5 sample cases.
func (r *Result) Sample(v interface{}) {
	if len(r.Samples) < 5 {
		r.Samples = append(r.Samples, v)
	}
}

// Violate records a violation (first replay per key is kept).
func (r *Result) Violate(key, what string, replay interface{}) {
	r.violCount[key]++
	if _, ok := r.viol[key]; !ok {
		r.viol[key] = &Violation{Key: key, What: what, Replay: replay}
	}
}

// Violations returns the number of distinct violation keys.
func (r *Result) Violations() int { return len(r.viol) }

func loadFindings() []Finding {
	b, err := os.ReadFile(filepath.Join(Root, "known_findings.json"))
	if err != nil {
		return nil
	}
	var f struct {
		Findings []Finding `json:"findings"`
	}
	if err := json.Unmarshal(b, &f); err != nil {
		fmt.Fprintln(os.Stderr, "known_findings.json:", err)
		os.Exit(2)
	}
	return f.Findings
}

// Finish prints KNOWN-FINDING / VIOLATION lines, writes the evidence file and returns the exit code.
func (r *Result) Finish() int {
	if want := os.Getenv("VERIF_REPLAY_KEY"); want != "" {
		// replay mode: the originating check was re-run on the current tree; report whether the
		// recorded violation recurs.  Neither evidence nor replay files are written.
		if v, ok := r.viol[want]; ok {
			fmt.Printf("REPLAY property=%s key=%s reproduced=true occurrences=%d\n  what=%s\n", r.Property, want, r.violCount[want], v.What)
			return 1
		}
		fmt.Printf("REPLAY property=%s key=%s reproduced=false (the check ran to completion on the current tree without that violation)\n", r.Property, want)
		return 0
	}
	known := map[string]Finding{}
	for _, f := range loadFindings() {
		if f.Property == r.Property && f.Status == "known" {
			known[f.Key] = f
		}
	}
	keys := make([]string, 0, len(r.viol))
	for k := range r.viol {
		keys = append(keys, k)
	}
	sort.Strings(keys)
	matched := []string{}
	unlisted := 0
	for _, k := range keys {
		v := r.viol[k]
		if f, ok := known[k]; ok {
			fmt.Printf("KNOWN-FINDING: property=%s %s [key=%s, %d occurrence(s)]\n", r.Property, f.What, k, r.violCount[k])
			matched = append(matched, k)
			continue
		}
		unlisted++
		h := sha1.Sum([]byte(k))
		dir := filepath.Join(OutRoot, "replays")
		os.MkdirAll(dir, 0o755)
		path := filepath.Join(dir, fmt.Sprintf("%s-%s.json", r.Property, hex.EncodeToString(h[:6])))
		doc := map[string]interface{}{"property": r.Property, "key": k, "what": v.What, "replay": v.Replay,
			"occurrences": r.violCount[k], "tier": r.Tier}
		b, _ := json.MarshalIndent(doc, "", " ")
		os.WriteFile(path, b, 0o644)
		if unlisted <= 40 {
			fmt.Printf("VIOLATION property=%s replay=%s\n", r.Property, path)
			what := v.What
			if len(what) > 700 {
				what = what[:700] + "..."
			}
			fmt.Printf("  key=%s\n  what=%s\n", k, what)
		} else if unlisted == 41 {
			fmt.Printf("  ... further violations are listed in %s/replays/ only\n", OutRoot)
		}
	}
	r.writeEvidence(matched, unlisted)
	fmt.Printf("%s %s: evaluations=%d distinct_nontrivial=%d states=%d transitions=%d exhaustive=%v known=%d violations=%d wall=%.1fs\n",
		r.Property, r.Tier, r.Evaluations, len(r.Nontrivial), r.States, r.Transitions, r.Exhaustive, len(matched), unlisted, time.Since(r.start).Seconds())
	if unlisted > 0 {
		return 1
	}
	return 0
}

func (r *Result) writeEvidence(matched []string, unlisted int) {
	cov := map[string]interface{}{
		"evaluations":            r.Evaluations,
		"distinct_nontrivial":    len(r.Nontrivial),
		"rule":                   r.Rule,
		"samples":                r.Samples,
		"exhaustive":             r.Exhaustive,
		"distinct_outcomes":      len(r.Outcomes),
		"outcomes":               r.Outcomes,
		"known_findings_matched": matched,
	}
	if len(r.Samples) == 0 {
		cov["samples"] = []interface{}{"(none)"}
	}
	if r.Level == "model_checking" {
		cov["states"] = r.States
		cov["transitions"] = r.Transitions
		cov["traces_validated_against_impl"] = r.Traces
	}
	for k, v := range r.Extra {
		cov[k] = v
	}
	if r.Assumptions == nil {
		r.Assumptions = []string{}
	}
	ev := map[string]interface{}{
		"property_id": r.Property,
		"tier":        r.Tier,
		"seed":        r.Seed,
		"level":       r.Level,
		"coverage":    cov,
		"assumptions": r.Assumptions,
		"wall_s":      time.Since(r.start).Seconds(),
		"violations":  unlisted,
	}
	b, _ := json.MarshalIndent(ev, "", " ")
	dir := filepath.Join(OutRoot, "evidence")
	os.MkdirAll(dir, 0o755)
	if err := os.WriteFile(filepath.Join(dir, r.Property+".json"), b, 0o644); err != nil {
		fmt.Fprintln(os.Stderr, "evidence:", err)
	}
}

// Hang reports a request that does not return: the check cannot continue (the goroutine cannot be
// stopped), so the violation is printed, a partial evidence file is written and the process ends.
func Hang(property, tier, key, what string, replay interface{}) {
	if want := os.Getenv("VERIF_REPLAY_KEY"); want != "" {
		fmt.Printf("REPLAY property=%s key=%s reproduced=%v (the re-run ended in: %s)\n", property, want, want == key, key)
		if want == key {
			os.Exit(1)
		}
		os.Exit(0)
	}
	for _, f := range loadFindings() {
		if f.Property == property && f.Status == "known" && f.Key == key {
			fmt.Printf("KNOWN-FINDING: property=%s %s [key=%s]\n", property, f.What, key)
			fmt.Printf("%s %s: ended early by a request that does not return (known finding); exhaustive=false\n", property, tier)
			os.Exit(0)
		}
	}
	h := sha1.Sum([]byte(key))
	dir := filepath.Join(OutRoot, "replays")
	os.MkdirAll(dir, 0o755)
	path := filepath.Join(dir, fmt.Sprintf("%s-%s.json", property, hex.EncodeToString(h[:6])))
	doc := map[string]interface{}{"property": property, "key": key, "what": what, "replay": replay, "occurrences": 1, "tier": tier}
	b, _ := json.MarshalIndent(doc, "", " ")
	os.WriteFile(path, b, 0o644)
	fmt.Printf("VIOLATION property=%s replay=%s\n  key=%s\n  what=%s\n", property, path, key, what)
	seed, _ := strconv.Atoi(os.Getenv("VERIF_SEED"))
	ev := map[string]interface{}{"property_id": property, "tier": tier, "seed": seed, "level": "exploration", "wall_s": 0.0, "violations": 1,
		"assumptions": []string{},
		"coverage": map[string]interface{}{"evaluations": 1, "distinct_nontrivial": 1, "exhaustive": false,
			"rule": "the check was ended by its watchdog: one request did not return", "samples": []interface{}{replay}}}
	eb, _ := json.MarshalIndent(ev, "", " ")
	os.MkdirAll(filepath.Join(OutRoot, "evidence"), 0o755)
	os.WriteFile(filepath.Join(OutRoot, "evidence", property+".json"), eb, 0o644)
	fmt.Printf("%s %s: ended by the watchdog, exhaustive=false violations=1\n", property, tier)
	os.Exit(1)
}

// NormSite strips closure suffixes so that keys survive small refactorings.
func NormSite(s string) string {
	for {
		i := strings.LastIndex(s, ".func")
		if i < 0 {
			break
		}
		rest := s[i+5:]
		ok := rest != ""
		for _, c := range rest {
			if (c < '0' || c > '9') && c != '.' {
				ok = false
			}
		}
		if !ok {
			break
		}
		s = s[:i]
	}
	return s
}
