#!/bin/bash
# quick_all.sh [ids...] — run the quick tier of every check on /repo, one after the other (refreshes evidence/).
cd "$(dirname "$0")"
for c in ${@:-C01 C02 C03 C04 C05 C06 C07 C08 C09 C10 C11 C12 C13 C14 C15 C16 C17 C18 C19 C20}; do
  t0=$(date +%s)
  out=$(./run.sh $c quick 2>&1); rc=$?
  echo "$c rc=$rc $(( $(date +%s) - t0 ))s | $(echo "$out" | grep -E "^$c quick:" | tail -1)"
  echo "$out" | grep -E "^VIOLATION|^  key=" | head -6
done
