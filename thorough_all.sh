#!/bin/bash
# thorough_all.sh [ids...] — run the thorough tier of every check on the unchanged tree, one after the other,
# and print one summary line per check (meant for `vp run`; evidence lands in this directory's evidence/).
cd "$(dirname "$0")"
for c in ${@:-C13 C14 C12 C06 C09 C16 C20 C03 C04 C07 C10 C02 C17 C01 C05 C19 C08 C11 C15 C18}; do
  t0=$(date +%s)
  out=$(./run.sh $c thorough 2>&1); rc=$?
  echo "$c rc=$rc $(( $(date +%s) - t0 ))s | $(echo "$out" | grep -E "^$c thorough:" | tail -1)"
  echo "$out" | grep -E "^VIOLATION|^  key=" | head -6
done
