#!/bin/bash
# pseedrun.sh [-j N] [id...] — like seedrun.sh, but every seeded change is applied to its OWN scratch
# worktree of /repo (under /tmp) and the checks run against that copy (VERIF_REPO, VERIF_OUT), several
# at a time. /repo itself is never touched, so development can go on meanwhile. Results go to
# seeded/<id>/meta.json (detected_by). Detection here means the same as in seedrun.sh: the property's
# quick check (and listed cross-checks) prints a VIOLATION line.
cd "$(dirname "$0")"; export ROOT="$(pwd)"
J=4
if [ "$1" = "-j" ]; then J=$2; shift 2; fi
ids=${@:-$(ls seeded)}
one() {
  d=$1; D=$ROOT/seeded/$d; prop=${d%%-*}; cd $ROOT
  WT=/tmp/ps-$$-$d; OUT=/tmp/ps-$$-$d.out
  git -C /repo worktree remove --force $WT 2>/dev/null; rm -rf $OUT
  git -C /repo worktree add --detach $WT HEAD -q || { echo "$d WORKTREE-FAILED"; return; }
  if ! git -C $WT apply $D/patch.diff 2>/dev/null; then
    echo "$d PATCH-DOES-NOT-APPLY (use seedrun.sh, which rebases)"; git -C /repo worktree remove --force $WT; return
  fi
  checks="$prop"
  case $d in C16-m2|C16-m3) checks="C16 C08 C09";; C20-m2|C20-m4) checks="C20 C03";; C04-m1) checks="C04 C06";; C04-m3) checks="C04 C08";; C11-m4) checks="C11 C08";; C03-m4) checks="C03 C05";; C04-m5) checks="C04 C06";; C11-m5) checks="C11 C20";; C11-m8) checks="C11 C19";; C20-m7) checks="C20 C08";; C08-m7) checks="C08 C09";; C04-m9) checks="C04 C08";; C13-m9|C13-m10) checks="C13 C15";; C12-m9) checks="C12 C15";; C11-m10) checks="C11 C19";; C12-m11|C12-m12) checks="C12 C15";; C13-m11|C13-m12) checks="C13 C15";; C10-m11) checks="C10 C14";; C16-m15) checks="C16 C08";; C12-m15|C12-m16) checks="C12 C15";; C13-m15|C13-m16) checks="C13 C15";; C10-m15) checks="C10 C07";; C01-m15) checks="C01 C12";; C12-m17) checks="C12 C15";; C12-m18) checks="C12 C18";; C13-m17|C13-m18) checks="C13 C15";; C10-m17) checks="C10 C06";; C07-m17) checks="C07 C06";; C08-m17) checks="C08 C09";; C20-m18) checks="C20 C03";; C11-m18) checks="C11 C19";; C12-m20) checks="C12 C18";; C13-m19|C13-m20) checks="C13 C15";; C10-m19) checks="C10 C11";; C10-m20) checks="C10 C06";; C08-m19) checks="C08 C09";; C20-m19) checks="C20 C03";; C03-m20) checks="C03 C20";; C11-m19) checks="C11 C19";; C08-m20) checks="C08 C04";; C05-m19) checks="C05 C10";; C12-m22) checks="C12 C15";; C13-m21|C13-m22) checks="C13 C15";; C08-m22) checks="C08 C11";; C03-m22) checks="C03 C02";; C10-m21) checks="C10 C06";; C07-m21) checks="C07 C06";; C20-m21) checks="C20 C03";; C12-m23) checks="C12 C15";; C12-m24) checks="C12 C18";; C08-m24) checks="C08 C09";; C20-m24) checks="C20 C03";; C10-m24) checks="C10 C14";; esac
  [ -n "$CHECKS" ] && checks="$CHECKS"
  det=""
  for c in $checks; do
    mkdir -p $OUT
    VERIF_REPO=$WT VERIF_OUT=$OUT timeout 2400 ./run.sh $c quick > $OUT/$c.log 2>&1
    if grep -q "^VIOLATION" $OUT/$c.log; then
      key=$(grep -m1 "^  key=" $OUT/$c.log | sed 's/^  key=//')
      det="$det $c[$key]"
    elif grep -q "BUILD-ERROR" $OUT/$c.log; then
      det="$det $c[BUILD-ERROR]"
    fi
  done
  git -C /repo worktree remove --force $WT; rm -rf $OUT
  python3 - "$D" "$det" <<'PY'
import json,sys
d,det=sys.argv[1],sys.argv[2].strip()
m=json.load(open(d+'/meta.json'))
m['detected_by']=det.split(' ') if det else []
m['ran']="pseedrun.sh: patch applied to a scratch worktree of /repo; VERIF_REPO=<worktree> ./run.sh <check> quick"
json.dump(m,open(d+'/meta.json','w'),indent=1)
PY
  echo "$d -> ${det:-NOT DETECTED}"
}
export -f one
echo $ids | tr ' ' '\n' | xargs -P $J -I{} bash -c 'one {}'
