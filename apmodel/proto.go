package apmodel

import (
	"context"
	"fmt"
	"net/http"
	"net/url"
	"reflect"
	"strings"

	"github.com/go-fed/activity/pub"
	"github.com/go-fed/activity/streams/vocab"
)

// ---------------------------------------------------------------------------------------
// Transport

type Tport struct {
	A   *App
	Box string
}

var _ pub.Transport = &Tport{}

func (t *Tport) Dereference(c context.Context, iri *url.URL) ([]byte, error) {
	a := t.A
	idx, err := a.point(c, "T.Dereference", us(iri), true)
	if err != nil {
		return nil, err
	}
	b, ok := a.Remote[us(iri)]
	if !ok {
		return nil, a.fail(idx, c, fmt.Errorf("GET %s: 404", us(iri)))
	}
	a.note(idx, c, string(b))
	return append([]byte(nil), b...), nil
}

func (t *Tport) Deliver(c context.Context, b []byte, to *url.URL) error {
	a := t.A
	idx, err := a.point(c, "T.Deliver", us(to), true)
	if err != nil {
		return err
	}
	rid := -1
	if r := reqOf(c); r != nil {
		rid = r.ID
	}
	a.Deliveries = append(a.Deliveries, Delivery{Req: rid, Box: t.Box, Payload: append([]byte(nil), b...), Held: b, To: []string{us(to)}, LogPos: idx})
	if a.DeliverErr {
		return a.fail(idx, c, fmt.Errorf("deliver failed"))
	}
	return nil
}

func (t *Tport) BatchDeliver(c context.Context, b []byte, recipients []*url.URL) error {
	a := t.A
	to := make([]string, len(recipients))
	for i, r := range recipients {
		to[i] = us(r)
	}
	idx, err := a.point(c, "T.BatchDeliver", strings.Join(to, " "), true)
	if err != nil {
		return err
	}
	rid := -1
	if r := reqOf(c); r != nil {
		rid = r.ID
	}
	a.Deliveries = append(a.Deliveries, Delivery{Req: rid, Box: t.Box, Payload: append([]byte(nil), b...), Held: b, To: to, LogPos: idx, Batch: true})
	if a.DeliverErr {
		return a.fail(idx, c, fmt.Errorf("batch deliver failed"))
	}
	return nil
}

// ---------------------------------------------------------------------------------------
// CommonBehavior

type Common struct{ A *App }

var _ pub.CommonBehavior = Common{}

func (a *App) auth(c context.Context, op string, o Outcome, w http.ResponseWriter) (context.Context, bool, error) {
	_, err := a.point(c, op, "", false)
	if err != nil {
		return c, false, err
	}
	r := reqOf(c)
	switch o {
	case OK:
		if r != nil {
			r.AuthOK = true
		}
		a.obs(c, "auth-ok")
		return c, true, nil
	case Denied:
		if a.AuthWrites {
			w.WriteHeader(http.StatusUnauthorized)
		}
		a.obs(c, "auth-denied")
		return c, false, nil
	}
	a.obs(c, "auth-error")
	// the delegate contract: when an error is returned the boolean must be ignored
	return c, o == ErrorTrue, fmt.Errorf("authentication backend failed")
}

func (m Common) AuthenticateGetInbox(c context.Context, w http.ResponseWriter, r *http.Request) (context.Context, bool, error) {
	return m.A.auth(c, "Auth.GetInbox", m.A.AuthGetInbox, w)
}
func (m Common) AuthenticateGetOutbox(c context.Context, w http.ResponseWriter, r *http.Request) (context.Context, bool, error) {
	return m.A.auth(c, "Auth.GetOutbox", m.A.AuthGetOutbox, w)
}

func (m Common) GetOutbox(c context.Context, r *http.Request) (vocab.ActivityStreamsOrderedCollectionPage, error) {
	a := m.A
	iri := a.RewriteLocal("https://" + r.Host + r.URL.Path)
	if a.AltEndpoints && r.URL.RawQuery != "" {
		iri += "?" + r.URL.RawQuery
	}
	idx, err := a.point(c, "Common.GetOutbox", iri, true)
	if err != nil {
		return nil, err
	}
	if a.ServePage != nil {
		return a.ServePage(iri)
	}
	items := a.Outboxes[iri]
	a.note(idx, c, strings.Join(items, " "))
	return page(iri, items), nil
}

func (m Common) NewTransport(c context.Context, actorBoxIRI *url.URL, gofedAgent string) (pub.Transport, error) {
	a := m.A
	_, err := a.point(c, "Common.NewTransport", us(actorBoxIRI), true)
	if err != nil {
		return nil, err
	}
	if a.RealTransport {
		return a.realTransport(), nil
	}
	return &Tport{A: a, Box: us(actorBoxIRI)}, nil
}

// ---------------------------------------------------------------------------------------
// SocialProtocol

type Social struct{ A *App }

var _ pub.SocialProtocol = Social{}

func (s Social) PostOutboxRequestBodyHook(c context.Context, r *http.Request, data vocab.Type) (context.Context, error) {
	_, err := s.A.point(c, "Social.PostOutboxRequestBodyHook", "", true)
	return c, err
}

func (s Social) AuthenticatePostOutbox(c context.Context, w http.ResponseWriter, r *http.Request) (context.Context, bool, error) {
	return s.A.auth(c, "Auth.PostOutbox", s.A.AuthPostOutbox, w)
}

func (a *App) cb(c context.Context, proto, name string) error {
	if a.syncMu != nil {
		a.syncMu.Lock()
		defer a.syncMu.Unlock()
	}
	_, err := a.point(c, proto+".cb."+name, "", true)
	if r := reqOf(c); r != nil {
		r.CBLog = append(r.CBLog, fmt.Sprintf("%s.%s@%d", proto, name, len(a.Log)-1))
	}
	if err != nil {
		return err
	}
	if a.CBError != nil {
		return a.CBError
	}
	if a.Callbacks == CBWrappedFail {
		return fmt.Errorf("application callback %s failed", name)
	}
	if r := reqOf(c); a.Callbacks == CBWrappedReenter && r != nil && !r.Reentered && name != "Default" {
		r.Reentered = true
		if fa, ok := a.Actor(Both).(pub.FederatingActor); ok {
			note, _ := Decode([]byte(`{"@context":"https://www.w3.org/ns/activitystreams","type":"Note","content":"sent from inside an application callback","to":"https://r1.example/u/carol"}`))
			_, r.ReenterErr = fa.Send(c, U(a.RewriteEndpoints(a.LocalPrefix()+"/u/alice/outbox")), note)
		}
	}
	return nil
}

func (s Social) SocialCallbacks(c context.Context) (pub.SocialWrappedCallbacks, []interface{}, error) {
	a := s.A
	var w pub.SocialWrappedCallbacks
	var other []interface{}
	_, err := a.point(c, "Social.SocialCallbacks", "", true)
	if err != nil {
		return w, nil, err
	}
	switch a.Callbacks {
	case CBWrapped, CBWrappedFail, CBWrappedReenter:
		w.Create = func(c context.Context, v vocab.ActivityStreamsCreate) error { return a.cb(c, "Social", "Create") }
		w.Update = func(c context.Context, v vocab.ActivityStreamsUpdate) error { return a.cb(c, "Social", "Update") }
		w.Delete = func(c context.Context, v vocab.ActivityStreamsDelete) error { return a.cb(c, "Social", "Delete") }
		w.Follow = func(c context.Context, v vocab.ActivityStreamsFollow) error { return a.cb(c, "Social", "Follow") }
		w.Add = func(c context.Context, v vocab.ActivityStreamsAdd) error { return a.cb(c, "Social", "Add") }
		w.Remove = func(c context.Context, v vocab.ActivityStreamsRemove) error { return a.cb(c, "Social", "Remove") }
		w.Like = func(c context.Context, v vocab.ActivityStreamsLike) error { return a.cb(c, "Social", "Like") }
		w.Undo = func(c context.Context, v vocab.ActivityStreamsUndo) error { return a.cb(c, "Social", "Undo") }
		w.Block = func(c context.Context, v vocab.ActivityStreamsBlock) error { return a.cb(c, "Social", "Block") }
	case CBOther:
		other = []interface{}{
			func(c context.Context, v vocab.ActivityStreamsCreate) error { return a.cb(c, "SocialOther", "Create") },
			func(c context.Context, v vocab.ActivityStreamsUpdate) error { return a.cb(c, "SocialOther", "Update") },
			func(c context.Context, v vocab.ActivityStreamsDelete) error { return a.cb(c, "SocialOther", "Delete") },
			func(c context.Context, v vocab.ActivityStreamsFollow) error { return a.cb(c, "SocialOther", "Follow") },
			func(c context.Context, v vocab.ActivityStreamsAdd) error { return a.cb(c, "SocialOther", "Add") },
			func(c context.Context, v vocab.ActivityStreamsRemove) error { return a.cb(c, "SocialOther", "Remove") },
			func(c context.Context, v vocab.ActivityStreamsLike) error { return a.cb(c, "SocialOther", "Like") },
			func(c context.Context, v vocab.ActivityStreamsUndo) error { return a.cb(c, "SocialOther", "Undo") },
			func(c context.Context, v vocab.ActivityStreamsBlock) error { return a.cb(c, "SocialOther", "Block") },
		}
	}
	a.keepHooks(&w, &other)
	return w, other, nil
}

func (s Social) DefaultCallback(c context.Context, activity pub.Activity) error {
	return s.A.cb(c, "Social", "Default")
}

// ---------------------------------------------------------------------------------------
// FederatingProtocol

type Fed struct{ A *App }

var _ pub.FederatingProtocol = Fed{}

func (f Fed) PostInboxRequestBodyHook(c context.Context, r *http.Request, activity pub.Activity) (context.Context, error) {
	_, err := f.A.point(c, "Fed.PostInboxRequestBodyHook", "", true)
	return c, err
}

func (f Fed) AuthenticatePostInbox(c context.Context, w http.ResponseWriter, r *http.Request) (context.Context, bool, error) {
	if rq := reqOf(c); rq != nil {
		rq.NeedBlock = true
	}
	return f.A.auth(c, "Auth.PostInbox", f.A.AuthPostInbox, w)
}

func (f Fed) Blocked(c context.Context, actorIRIs []*url.URL) (bool, error) {
	a := f.A
	ids := make([]string, len(actorIRIs))
	for i, u := range actorIRIs {
		ids[i] = us(u)
	}
	idx, err := a.point(c, "Fed.Blocked", strings.Join(ids, " "), true)
	if err != nil {
		return false, err
	}
	if a.BlockedOutcome == Error {
		return false, a.fail(idx, c, fmt.Errorf("block list unavailable"))
	}
	blocked := a.BlockedOutcome == Denied
	for _, id := range ids {
		if a.BlockedSet[id] {
			blocked = true
		}
	}
	a.note(idx, c, fmt.Sprint(blocked))
	if !blocked {
		if r := reqOf(c); r != nil {
			r.BlockOK = true
		}
	}
	return blocked, nil
}

func (f Fed) FederatingCallbacks(c context.Context) (pub.FederatingWrappedCallbacks, []interface{}, error) {
	a := f.A
	var w pub.FederatingWrappedCallbacks
	var other []interface{}
	_, err := a.point(c, "Fed.FederatingCallbacks", "", true)
	if err != nil {
		return w, nil, err
	}
	w.OnFollow = a.OnFollow
	switch a.Callbacks {
	case CBWrapped, CBWrappedFail, CBWrappedReenter:
		w.Create = func(c context.Context, v vocab.ActivityStreamsCreate) error { return a.cb(c, "Fed", "Create") }
		w.Update = func(c context.Context, v vocab.ActivityStreamsUpdate) error { return a.cb(c, "Fed", "Update") }
		w.Delete = func(c context.Context, v vocab.ActivityStreamsDelete) error { return a.cb(c, "Fed", "Delete") }
		w.Follow = func(c context.Context, v vocab.ActivityStreamsFollow) error { return a.cb(c, "Fed", "Follow") }
		w.Accept = func(c context.Context, v vocab.ActivityStreamsAccept) error { return a.cb(c, "Fed", "Accept") }
		w.Reject = func(c context.Context, v vocab.ActivityStreamsReject) error { return a.cb(c, "Fed", "Reject") }
		w.Add = func(c context.Context, v vocab.ActivityStreamsAdd) error { return a.cb(c, "Fed", "Add") }
		w.Remove = func(c context.Context, v vocab.ActivityStreamsRemove) error { return a.cb(c, "Fed", "Remove") }
		w.Like = func(c context.Context, v vocab.ActivityStreamsLike) error { return a.cb(c, "Fed", "Like") }
		w.Announce = func(c context.Context, v vocab.ActivityStreamsAnnounce) error { return a.cb(c, "Fed", "Announce") }
		w.Undo = func(c context.Context, v vocab.ActivityStreamsUndo) error { return a.cb(c, "Fed", "Undo") }
		w.Block = func(c context.Context, v vocab.ActivityStreamsBlock) error { return a.cb(c, "Fed", "Block") }
	case CBOther:
		other = []interface{}{
			func(c context.Context, v vocab.ActivityStreamsCreate) error { return a.cb(c, "FedOther", "Create") },
			func(c context.Context, v vocab.ActivityStreamsUpdate) error { return a.cb(c, "FedOther", "Update") },
			func(c context.Context, v vocab.ActivityStreamsDelete) error { return a.cb(c, "FedOther", "Delete") },
			func(c context.Context, v vocab.ActivityStreamsFollow) error { return a.cb(c, "FedOther", "Follow") },
			func(c context.Context, v vocab.ActivityStreamsAccept) error { return a.cb(c, "FedOther", "Accept") },
			func(c context.Context, v vocab.ActivityStreamsReject) error { return a.cb(c, "FedOther", "Reject") },
			func(c context.Context, v vocab.ActivityStreamsAdd) error { return a.cb(c, "FedOther", "Add") },
			func(c context.Context, v vocab.ActivityStreamsRemove) error { return a.cb(c, "FedOther", "Remove") },
			func(c context.Context, v vocab.ActivityStreamsLike) error { return a.cb(c, "FedOther", "Like") },
			func(c context.Context, v vocab.ActivityStreamsAnnounce) error { return a.cb(c, "FedOther", "Announce") },
			func(c context.Context, v vocab.ActivityStreamsUndo) error { return a.cb(c, "FedOther", "Undo") },
			func(c context.Context, v vocab.ActivityStreamsBlock) error { return a.cb(c, "FedOther", "Block") },
		}
	}
	a.keepHooks(&w, &other)
	return w, other, nil
}

func (f Fed) DefaultCallback(c context.Context, activity pub.Activity) error {
	return f.A.cb(c, "Fed", "Default")
}

func (f Fed) MaxInboxForwardingRecursionDepth(c context.Context) int { return f.A.MaxFwdDepth }
func (f Fed) MaxDeliveryRecursionDepth(c context.Context) int        { return f.A.MaxDeliverDepth }

func (f Fed) FilterForwarding(c context.Context, potentialRecipients []*url.URL, act pub.Activity) ([]*url.URL, error) {
	a := f.A
	ids := make([]string, len(potentialRecipients))
	for i, u := range potentialRecipients {
		ids[i] = us(u)
	}
	_, err := a.point(c, "Fed.FilterForwarding", strings.Join(ids, " "), true)
	if err != nil {
		return nil, err
	}
	out := potentialRecipients
	switch a.Filter {
	case FilterFirst:
		out = nil
		if len(potentialRecipients) > 0 {
			out = potentialRecipients[:1]
		}
	case FilterNone:
		out = nil
	case FilterLastInPlace:
		// the allocation-free Go filter idiom: the result shares (and overwrites) the argument's backing array
		out = potentialRecipients[:0]
		if n := len(potentialRecipients); n > 0 {
			out = append(out, potentialRecipients[n-1])
		}
	case FilterReverseInPlace:
		for i, j := 0, len(potentialRecipients)-1; i < j; i, j = i+1, j-1 {
			potentialRecipients[i], potentialRecipients[j] = potentialRecipients[j], potentialRecipients[i]
		}
	}
	a.FilterIn = append(a.FilterIn, ids)
	outIDs := make([]string, len(out))
	for i, u := range out {
		outIDs[i] = us(u)
	}
	a.FilterOut = append(a.FilterOut, outIDs)
	return out, nil
}

func (f Fed) GetInbox(c context.Context, r *http.Request) (vocab.ActivityStreamsOrderedCollectionPage, error) {
	a := f.A
	iri := a.RewriteLocal("https://" + r.Host + r.URL.Path)
	if a.AltEndpoints && r.URL.RawQuery != "" {
		iri += "?" + r.URL.RawQuery // query-routed endpoints: the query is part of the inbox's IRI
	}
	idx, err := a.point(c, "Fed.GetInbox", iri, true)
	if err != nil {
		return nil, err
	}
	if a.ServePage != nil {
		return a.ServePage(iri)
	}
	items := a.Inboxes[iri]
	a.note(idx, c, strings.Join(items, " "))
	return page(iri, items), nil
}

// keepHooks implements App.CBKeep: of the wrapped hooks (function-valued fields of w) and of the
// 'other' functions only the one for the named activity type stays; everything else is nil / dropped,
// as in an application that cares about a single activity type.
func (a *App) keepHooks(w interface{}, other *[]interface{}) {
	if a.CBKeep == "" {
		return
	}
	v := reflect.ValueOf(w).Elem()
	for i := 0; i < v.NumField(); i++ {
		if v.Field(i).Kind() == reflect.Func && v.Field(i).CanSet() && v.Type().Field(i).Name != a.CBKeep {
			v.Field(i).Set(reflect.Zero(v.Field(i).Type()))
		}
	}
	var kept []interface{}
	for _, f := range *other {
		if strings.TrimPrefix(reflect.TypeOf(f).In(1).Name(), "ActivityStreams") == a.CBKeep {
			kept = append(kept, f)
		}
	}
	*other = kept
}
