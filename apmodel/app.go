// Package apmodel is a complete in-memory ActivityPub application: it implements every
// interface go-fed/activity/pub consumes (Database, Transport, CommonBehavior, SocialProtocol,
// FederatingProtocol, Clock) and turns every call across that seam into a choice point of the
// explorer (scheduling, fault injection) and into an entry of the monitors' call log.
package apmodel

import (
	"context"
	"encoding/json"
	"fmt"
	"net/http"
	"net/url"
	"runtime"
	"sort"
	"strings"
	"sync"
	"time"

	"github.com/go-fed/activity/pub"
	"github.com/go-fed/activity/streams"
	"github.com/go-fed/activity/streams/vocab"

	"verif/mc"
)

// LocalHost is the host this server owns.
const LocalHost = "l.example"

// Outcome of an application decision.
type Outcome int

const (
	OK Outcome = iota
	Denied
	Error
	ErrorTrue // (authentication only) an error is returned together with authenticated == true
)

// CallbackMode selects how application callbacks are configured.
type CallbackMode int

const (
	CBNone        CallbackMode = iota // no application callback
	CBWrapped                         // wrapped callback that logs
	CBWrappedFail                     // wrapped callback that returns an error
	CBOther                           // an 'other' callback with the same signature (overrides default)
	// CBWrappedReenter: a wrapped callback that, like real applications do (notify followers, send a
	// reply), calls back into the library in the same context: one Send of a Note from the inbox /
	// outbox owner. The library must not hold any lock while it runs application callbacks.
	CBWrappedReenter
)

// FilterMode selects the FilterForwarding answer.
type FilterMode int

const (
	FilterAll FilterMode = iota
	FilterFirst
	FilterNone
	FilterLastInPlace    // keeps the last collection only, filtering the argument slice in place
	FilterReverseInPlace // keeps everything, reversing the argument slice in place
)

// Call is one entry of the seam call log.
type Call struct {
	Req  int
	Op   string // e.g. "DB.Lock"
	Arg  string
	Err  bool   // the call returned an (injected or genuine) error
	Note string // result digest
}

func (c Call) String() string {
	e := ""
	if c.Err {
		e = " !ERR"
	}
	return fmt.Sprintf("r%d %s(%s)%s", c.Req, c.Op, c.Arg, e)
}

// Delivery is one BatchDeliver / Deliver call.
type Delivery struct {
	Req     int
	Box     string // box IRI the transport was created for
	Payload []byte // copy taken when the transport was called
	Held    []byte // the very slice the library handed over (a queueing transport keeps it)
	To      []string
	LogPos  int
	Batch   bool
}

// HeldPayloadsChanged lists deliveries whose handed-over slice no longer holds the bytes it held when
// the transport was called: the library reused a buffer it had given away.
func (a *App) HeldPayloadsChanged() []string {
	var out []string
	for i, d := range a.Deliveries {
		if d.Held != nil && string(d.Held) != string(d.Payload) {
			out = append(out, fmt.Sprintf("delivery %d (to %v): the handed-over payload now reads %.80q, it was %.80q", i, d.To, d.Held, d.Payload))
		}
	}
	return out
}

// Viol is one lock-discipline violation seen by the monitor.
type Viol struct {
	Kind   string // leak | relock | unlock-not-held | unlocked-access
	ID     string // lock / resource id
	Site   string // library function performing the faulty call (for leak: the one that locked)
	Holder string // relock: the function that took the lock first
	Op     string
}

func (v Viol) String() string {
	return fmt.Sprintf("%s id=%s site=%s holder=%s op=%s", v.Kind, v.ID, v.Site, v.Holder, v.Op)
}

// Req is the per-request monitor state, carried in the context.
type Req struct {
	ID         int
	T          *mc.T
	Held       map[string]int
	Site       map[string]string // library function that took each held lock
	Violations []Viol
	AuthOK     bool // authentication returned (ok, nil)
	BlockOK    bool // Blocked returned (false, nil)
	NeedBlock  bool // inbox POST: side effects also need the block check
	PreAuth    []string
	CBLog      []string
	IDs        int    // ids generated for this request
	WaitSite   string // library function of the last blocking Lock attempt
	WaitID     string // id it tried to lock
	Reentered  bool   // CBWrappedReenter: the re-entrant Send was made (once per request)
	ReenterErr error
}

type reqKey struct{}

// WithReq attaches a request monitor to a context.
func WithReq(ctx context.Context, r *Req) context.Context {
	return context.WithValue(ctx, reqKey{}, r)
}

func reqOf(ctx context.Context) *Req {
	if ctx == nil {
		return nil
	}
	r, _ := ctx.Value(reqKey{}).(*Req)
	return r
}

// App is the application model.
type App struct {
	// LocalScheme is the scheme of this server's own IRIs ("" = https); see UseScheme.
	LocalScheme string
	// IDScheme, if set, is the scheme of the ids NewID mints (it may differ from the scheme the
	// endpoints are served under, e.g. plain http behind a TLS-terminating proxy minting https ids).
	IDScheme    string
	Store       map[string][]byte   // id -> canonical JSON
	Inboxes     map[string][]string // inbox IRI -> activity ids, newest first
	Outboxes    map[string][]string
	StoredInbox map[string]bool   // actors for which InboxForActor answers actor+"/inbox"
	SharedInbox map[string]string // actors for which InboxForActor answers this inbox (several actors may share one)
	// Endpoints: inbox / outbox IRIs that are not the actor's id plus "/inbox" or "/outbox" (routed by a
	// query parameter, percent-escaped, ...): endpoint IRI -> {actor id, "inbox" | "outbox"}
	Endpoints map[string][2]string
	// AltEndpoints: the local actors' inboxes and outboxes live at query-routed IRIs
	// (https://l.example/box?inbox-of=alice) instead of <actor>/inbox (UseAltEndpoints)
	AltEndpoints bool
	altPairs     [][2]string // (plain IRI, endpoint IRI)
	Remote      map[string][]byte // documents served by Transport.Dereference
	NextID      int
	ReqBase     int // number of requests served before this App value was cloned (keeps ids unique)
	Now         time.Time

	// behaviour
	AuthGetInbox, AuthGetOutbox, AuthPostInbox, AuthPostOutbox Outcome
	AuthWrites                                                 bool // a denying Authenticate* writes 401 itself
	BlockedSet                                                 map[string]bool
	BlockedOutcome                                             Outcome // Error = Blocked returns error; Denied = everything blocked
	OnFollow                                                   pub.OnFollowBehavior
	Callbacks                                                  CallbackMode
	MaxFwdDepth, MaxDeliverDepth                               int
	Filter                                                     FilterMode
	MissingAsNil                                               bool // Database.Get returns (nil, nil) for a missing id
	OwnedExtra                                                 map[string]bool
	NotOwned                                                   map[string]bool
	DeliverErr                                                 bool
	// RealTransport: NewTransport returns the library's bundled HttpSigTransport over a fake HTTP
	// client (realtransport.go); InboxOutcome says how a POST to an inbox URL ends (0 = 202,
	// > 0 = that status, < 0 = client error).
	RealTransport bool
	InboxOutcome  map[string]int
	RTClient      *RTClient
	// CBError, if set, is returned (by identity) from every application callback, e.g. the documented
	// sentinels pub.ErrObjectRequired / pub.ErrTargetRequired an application's DefaultCallback may use.
	CBError error
	// CBKeep, if set, names the single activity type whose application hook (wrapped or 'other')
	// is configured; all other hooks are nil.
	CBKeep string
	// ServePage, if set, supplies the page served by GetInbox / GetOutbox.
	ServePage func(iri string) (vocab.ActivityStreamsOrderedCollectionPage, error)

	// Sync makes Actor() return one shared actor whose application interfaces are safe for
	// free-running goroutines (real per-id mutexes); used by the -race passes only.
	Sync        bool
	syncActor   map[ActorKind]pub.Actor
	actors      map[ActorKind]pub.Actor
	handler     pub.HandlerFunc
	handlerSync bool
	syncMu      *sync.Mutex // serialises the application callbacks handed out as closures
	syncSt      *syncState

	// exploration plumbing
	X        *mc.Exec
	S        *mc.Sched
	MaxCalls int  // horizon: more seam calls than this in one App means "does not return" (0 = 20000)
	Faults   bool // every fallible seam call is a fault choice point
	Blocking bool // locks are blocking scheduler resources (else counting)
	faultN   int

	// monitors
	FilterIn   [][]string // potential recipients passed to FilterForwarding, per call
	FilterOut  [][]string // what the filter returned
	Log        []Call
	Deliveries []Delivery
	Reqs       []*Req
	Locks      map[string]int // blocking==false: global lock counts (diagnostic)
}

// New builds an empty application.
func New() *App {
	return &App{
		Store: map[string][]byte{}, Inboxes: map[string][]string{}, Outboxes: map[string][]string{},
		StoredInbox: map[string]bool{}, Remote: map[string][]byte{}, BlockedSet: map[string]bool{},
		OwnedExtra: map[string]bool{}, NotOwned: map[string]bool{}, Locks: map[string]int{},
		Now:         time.Date(2020, 2, 29, 23, 59, 58, 0, time.UTC),
		MaxFwdDepth: 3, MaxDeliverDepth: 3,
	}
}

// Clone deep-copies the persistent state and configuration (not monitors / plumbing).
func (a *App) Clone() *App {
	b := *a
	b.LocalScheme = a.LocalScheme
	b.CBKeep = a.CBKeep
	b.Store = make(map[string][]byte, len(a.Store))
	for k, v := range a.Store {
		b.Store[k] = v // values are never mutated in place
	}
	b.Inboxes = cloneLists(a.Inboxes)
	b.Outboxes = cloneLists(a.Outboxes)
	b.StoredInbox = cloneSet(a.StoredInbox)
	if a.Endpoints != nil {
		b.Endpoints = map[string][2]string{}
		for k, v := range a.Endpoints {
			b.Endpoints[k] = v
		}
	}
	if a.SharedInbox != nil {
		b.SharedInbox = map[string]string{}
		for k, v := range a.SharedInbox {
			b.SharedInbox[k] = v
		}
	}
	b.Remote = make(map[string][]byte, len(a.Remote))
	for k, v := range a.Remote {
		b.Remote[k] = v
	}
	b.BlockedSet = cloneSet(a.BlockedSet)
	b.OwnedExtra = cloneSet(a.OwnedExtra)
	b.NotOwned = cloneSet(a.NotOwned)
	b.Locks = map[string]int{}
	b.Log = nil
	b.FilterIn, b.FilterOut = nil, nil
	b.Deliveries = nil
	b.Reqs = nil
	b.X, b.S = nil, nil
	b.syncActor, b.syncMu, b.syncSt = nil, nil, nil
	b.RTClient = nil
	b.handler = nil
	b.actors = nil // a clone is a different application: its actors are built over the clone
	b.faultN = 0
	return &b
}

func cloneLists(m map[string][]string) map[string][]string {
	o := make(map[string][]string, len(m))
	for k, v := range m {
		o[k] = append([]string(nil), v...)
	}
	return o
}

func cloneSet(m map[string]bool) map[string]bool {
	o := make(map[string]bool, len(m))
	for k, v := range m {
		o[k] = v
	}
	return o
}

// NewReq registers a request monitor.
func (a *App) NewReq(t *mc.T) *Req {
	r := &Req{ID: a.ReqBase + len(a.Reqs), T: t, Held: map[string]int{}, Site: map[string]string{}}
	a.Reqs = append(a.Reqs, r)
	return r
}

// Finish closes a request: any lock still held is a leak.
func (a *App) Finish(r *Req) {
	ids := make([]string, 0)
	for id, n := range r.Held {
		if n > 0 {
			ids = append(ids, id)
		}
	}
	sort.Strings(ids)
	for _, id := range ids {
		r.Violations = append(r.Violations, Viol{Kind: "leak", ID: id, Site: r.Site[id]})
	}
}

// ---------------------------------------------------------------------------------------
// seam plumbing

// HorizonExceeded is the panic raised when a request makes more seam calls than the horizon.
type HorizonExceeded struct{ Calls int }

// InjectedError marks errors made by the fault injector.
type InjectedError struct {
	N  int
	Op string
}

func (e *InjectedError) Error() string { return fmt.Sprintf("injected-fault#%d@%s", e.N, e.Op) }

// point is called at the start of every seam method.
func (a *App) point(ctx context.Context, op, arg string, fallible bool) (int, error) {
	r := reqOf(ctx)
	rid := -1
	if r != nil {
		rid = r.ID
	}
	if a.S != nil && r != nil && r.T != nil {
		a.S.Point(r.T, mc.Op{Name: op, Res: arg})
	}
	a.Log = append(a.Log, Call{Req: rid, Op: op, Arg: arg})
	idx := len(a.Log) - 1
	if max := a.MaxCalls; (max == 0 && idx > 20000) || (max > 0 && idx > max) {
		panic(HorizonExceeded{Calls: idx})
	}
	a.gate(r, op)
	if fallible && a.Faults && a.X != nil && (a.S == nil || !a.S.Aborting) {
		if a.X.Choose(mc.KFault, 2, nil, 0, op) == 1 {
			a.faultN++
			a.Log[idx].Err = true
			a.obs(ctx, "ERR")
			return idx, &InjectedError{a.faultN, op}
		}
	}
	return idx, nil
}

// gate implements C07's monitor: calls made before authentication / block check.
func (a *App) gate(r *Req, op string) {
	if r == nil {
		return
	}
	if strings.HasPrefix(op, "Auth.") {
		return
	}
	if !r.AuthOK {
		r.PreAuth = append(r.PreAuth, "before-authentication:"+op)
		return
	}
	if r.NeedBlock && !r.BlockOK {
		if op == "Fed.PostInboxRequestBodyHook" || op == "Fed.Blocked" {
			return
		}
		r.PreAuth = append(r.PreAuth, "before-block-check:"+op)
	}
}

func (a *App) obs(ctx context.Context, s string) {
	if r := reqOf(ctx); r != nil && r.T != nil {
		r.T.Observe(s)
	}
}

func (a *App) note(idx int, ctx context.Context, s string) {
	a.Log[idx].Note = s
	a.obs(ctx, s)
}

func (a *App) fail(idx int, ctx context.Context, err error) error {
	a.Log[idx].Err = true
	a.obs(ctx, "ERR:"+err.Error())
	return err
}

// dbAccess checks "every Database read or write other than id generation happens while the
// request holds a lock".
func (a *App) dbAccess(ctx context.Context, op, arg string) {
	r := reqOf(ctx)
	if r == nil {
		return
	}
	for _, n := range r.Held {
		if n > 0 {
			return
		}
	}
	r.Violations = append(r.Violations, Viol{Kind: "unlocked-access", ID: arg, Site: LibFrame(), Op: op})
}

// ---------------------------------------------------------------------------------------
// URL shape

func U(s string) *url.URL {
	u, err := url.Parse(s)
	if err != nil {
		panic(err)
	}
	return u
}

// Local builds an IRI on the owned host.
func Local(path string) string { return "https://" + LocalHost + path }

// Owns reports ownership by host (overridable per id).
func (a *App) OwnsID(id string) bool {
	if a.NotOwned[id] {
		return false
	}
	if a.OwnedExtra[id] {
		return true
	}
	u, err := url.Parse(id)
	return err == nil && u.Host == LocalHost
}

func trimSuffixes(s string, suf ...string) (string, bool) {
	for _, x := range suf {
		if strings.HasSuffix(s, x) {
			return strings.TrimSuffix(s, x), true
		}
	}
	return s, false
}

// ---------------------------------------------------------------------------------------
// canonical JSON

// CanonJSON serialises a vocab.Type to canonical bytes (sorted keys, @context arrays sorted).
func CanonJSON(t vocab.Type) ([]byte, error) {
	m, err := streams.Serialize(t)
	if err != nil {
		return nil, err
	}
	return CanonMap(m), nil
}

// CanonMap canonicalises a decoded JSON object.
func CanonMap(m map[string]interface{}) []byte {
	canonCtx(m)
	b, err := json.Marshal(m)
	if err != nil {
		panic(err)
	}
	return b
}

func canonCtx(v interface{}) {
	switch x := v.(type) {
	case map[string]interface{}:
		if c, ok := x["@context"]; ok {
			switch arr := c.(type) {
			case []interface{}:
				strs := make([]string, 0, len(arr))
				all := true
				for _, e := range arr {
					if s, ok := e.(string); ok {
						strs = append(strs, s)
					} else {
						all = false
					}
				}
				if all {
					sort.Strings(strs)
					na := make([]interface{}, len(strs))
					for i, s := range strs {
						na[i] = s
					}
					x["@context"] = na
				}
			case []string:
				sort.Strings(arr)
			}
		}
		for _, e := range x {
			canonCtx(e)
		}
	case []interface{}:
		for _, e := range x {
			canonCtx(e)
		}
	}
}

// Decode turns JSON bytes into a vocab.Type.
func Decode(b []byte) (vocab.Type, error) {
	var m map[string]interface{}
	if err := json.Unmarshal(b, &m); err != nil {
		return nil, err
	}
	return streams.ToType(context.Background(), m)
}

// MustJSON marshals v.
func MustJSON(v interface{}) []byte {
	b, err := json.Marshal(v)
	if err != nil {
		panic(err)
	}
	return b
}

// PutDoc stores a JSON document (given as a Go map) under its "id".
func (a *App) PutDoc(m map[string]interface{}) {
	id, _ := m["id"].(string)
	var mm map[string]interface{}
	json.Unmarshal(MustJSON(m), &mm)
	a.Store[id] = CanonMap(mm)
}

// PutRemote registers a document for Transport.Dereference.
func (a *App) PutRemote(iri string, m map[string]interface{}) { a.Remote[iri] = MustJSON(m) }

// Canonical renders the whole persistent state deterministically.
func (a *App) Canonical() string {
	var sb strings.Builder
	keys := make([]string, 0, len(a.Store))
	for k := range a.Store {
		keys = append(keys, k)
	}
	sort.Strings(keys)
	for _, k := range keys {
		sb.WriteString("S ")
		sb.WriteString(k)
		sb.WriteString(" = ")
		sb.Write(a.Store[k])
		sb.WriteString("\n")
	}
	for _, pair := range []struct {
		n string
		m map[string][]string
	}{{"I", a.Inboxes}, {"O", a.Outboxes}} {
		ks := make([]string, 0, len(pair.m))
		for k := range pair.m {
			ks = append(ks, k)
		}
		sort.Strings(ks)
		for _, k := range ks {
			fmt.Fprintf(&sb, "%s %s = %s\n", pair.n, k, strings.Join(pair.m[k], " "))
		}
	}
	return sb.String()
}

// StateHash hashes the persistent state (for state keys).
func (a *App) StateHash() uint64 {
	h := mc.NewH()
	a.hashEntries(h)
	h.U64(uint64(a.NextID))
	for _, r := range a.Reqs {
		h.U64(uint64(r.IDs))
	}
	h.U64(uint64(len(a.Deliveries)))
	for _, d := range a.Deliveries {
		h.Bytes(d.Payload)
		h.Str(strings.Join(d.To, ","))
	}
	return h.Sum()
}

// ---------------------------------------------------------------------------------------
// Actor construction

type ActorKind int

const (
	SocialOnly ActorKind = iota
	FederatingOnly
	Both
	// pub.NewCustomActor over the application's own DelegateActor (delegate.go), with neither / one /
	// both protocols switched on
	CustomNeither
	CustomSocial
	CustomFederating
	CustomBoth
)

func (k ActorKind) String() string {
	return [...]string{"social", "federating", "both", "custom-neither", "custom-social", "custom-federating", "custom-both"}[k]
}

// Social / Federated report which protocols the kind has switched on.
func (k ActorKind) Social() bool    { return k == SocialOnly || k == Both || k == CustomSocial || k == CustomBoth }
func (k ActorKind) Federated() bool { return k == FederatingOnly || k == Both || k == CustomFederating || k == CustomBoth }

// Actor builds a pub.Actor of the requested kind over this application.
func (a *App) Actor(k ActorKind) pub.Actor {
	if a.Sync {
		if a.syncActor == nil {
			a.syncActor = map[ActorKind]pub.Actor{}
		}
		if _, ok := a.syncActor[k]; !ok {
			a.syncActor[k] = a.SyncActor(k)
		}
		return a.syncActor[k]
	}
	// one Actor per kind and application, reused for every request, as a real application does
	// ("This Actor can be created once in an application and reused"): state a library change
	// might keep inside the actor then survives between the requests of a history
	if a.actors == nil {
		a.actors = map[ActorKind]pub.Actor{}
	}
	if act, ok := a.actors[k]; ok {
		return act
	}
	var act pub.Actor
	switch k {
	case SocialOnly:
		act = pub.NewSocialActor(Common{a}, Social{a}, DB{a}, Clk{a})
	case FederatingOnly:
		act = pub.NewFederatingActor(Common{a}, Fed{a}, DB{a}, Clk{a})
	case CustomNeither, CustomSocial, CustomFederating, CustomBoth:
		act = pub.NewCustomActor(Deleg{a}, k.Social(), k.Federated(), Clk{a})
	default:
		act = pub.NewActor(Common{a}, Social{a}, Fed{a}, DB{a}, Clk{a})
	}
	a.actors[k] = act
	return act
}

// Handler builds the ActivityStreams GET handler.
// Handler returns the application's ActivityStreams handler. Like a real application the model
// builds it ONCE and serves every request of a history through the same HandlerFunc value.
func (a *App) Handler() pub.HandlerFunc {
	if a.handler != nil && a.Sync == a.handlerSync {
		return a.handler
	}
	if a.LocalScheme != "" && a.LocalScheme != "https" {
		a.handler = pub.NewActivityStreamsHandlerScheme(DB{a}, Clk{a}, a.LocalScheme)
	} else {
		a.handler = pub.NewActivityStreamsHandler(DB{a}, Clk{a})
	}
	a.handlerSync = a.Sync
	return a.handler
}

// LocalPrefix is the prefix of this server's own IRIs.
func (a *App) LocalPrefix() string {
	if a.LocalScheme != "" {
		return a.LocalScheme + "://" + LocalHost
	}
	return "https://" + LocalHost
}

// RewriteLocal maps an https local IRI (or any text containing some) to the server's scheme.
func (a *App) RewriteLocal(s string) string {
	if a.LocalScheme == "" || a.LocalScheme == "https" {
		return s
	}
	return strings.ReplaceAll(s, "https://"+LocalHost, a.LocalPrefix())
}

// UseAltEndpoints moves the inbox and outbox of every local actor (every actor that has an inbox or
// outbox table) to a query-routed IRI and rewrites the stored and remote documents and the tables.
func (a *App) UseAltEndpoints() {
	a.AltEndpoints = true
	if a.Endpoints == nil {
		a.Endpoints = map[string][2]string{}
	}
	seen := map[string]bool{}
	add := func(box, kind string) {
		actor := strings.TrimSuffix(box, "/"+kind)
		if actor == box || seen[box] {
			return
		}
		seen[box] = true
		ep := fmt.Sprintf("%s/box?%s-of=%s", a.LocalPrefix(), kind, actor[strings.LastIndex(actor, "/")+1:])
		a.altPairs = append(a.altPairs, [2]string{box, ep})
		a.Endpoints[ep] = [2]string{actor, kind}
	}
	var boxes []string
	for k := range a.Inboxes {
		boxes = append(boxes, k)
	}
	for k := range a.Outboxes {
		boxes = append(boxes, k)
	}
	sort.Strings(boxes)
	for _, k := range boxes {
		add(k, "inbox")
		add(k, "outbox")
	}
	rwB := func(m map[string][]byte) map[string][]byte {
		o := make(map[string][]byte, len(m))
		for k, v := range m {
			o[a.RewriteEndpoints(k)] = []byte(a.RewriteEndpoints(string(v)))
		}
		return o
	}
	rwL := func(m map[string][]string) map[string][]string {
		o := make(map[string][]string, len(m))
		for k, v := range m {
			o[a.RewriteEndpoints(k)] = v
		}
		return o
	}
	a.Store, a.Remote = rwB(a.Store), rwB(a.Remote)
	a.Inboxes, a.Outboxes = rwL(a.Inboxes), rwL(a.Outboxes)
}

// RewriteEndpoints maps the plain inbox / outbox IRIs of the local actors (or any text containing
// some) to their query-routed form; PlainEndpoints is the inverse.
func (a *App) RewriteEndpoints(s string) string {
	for _, p := range a.altPairs {
		s = strings.ReplaceAll(s, p[0], p[1])
	}
	return s
}

func (a *App) PlainEndpoints(s string) string {
	for _, p := range a.altPairs {
		s = strings.ReplaceAll(s, p[1], p[0])
	}
	return s
}

// CanonicalLines is Canonical as a sorted list of lines, each passed through f first (for comparing
// worlds that differ by a renaming).
func (a *App) CanonicalLines(f func(string) string) string {
	var lines []string
	for k, v := range a.Store {
		lines = append(lines, f("S "+k+" = "+string(v)))
	}
	for k, v := range a.Inboxes {
		lines = append(lines, f(fmt.Sprintf("I %s = %s", k, strings.Join(v, " "))))
	}
	for k, v := range a.Outboxes {
		lines = append(lines, f(fmt.Sprintf("O %s = %s", k, strings.Join(v, " "))))
	}
	sort.Strings(lines)
	return strings.Join(lines, "\n")
}

// UseScheme turns the world into one whose own IRIs use the given scheme: every local IRI in the
// stored and remote documents, the collection tables and the configuration sets is rewritten. The
// requests must then come in through the ...Scheme entry points.
func (a *App) UseScheme(scheme string) {
	a.LocalScheme = scheme
	rwB := func(m map[string][]byte) map[string][]byte {
		o := make(map[string][]byte, len(m))
		for k, v := range m {
			o[a.RewriteLocal(k)] = []byte(a.RewriteLocal(string(v)))
		}
		return o
	}
	rwL := func(m map[string][]string) map[string][]string {
		o := make(map[string][]string, len(m))
		for k, v := range m {
			var l []string
			for _, x := range v {
				l = append(l, a.RewriteLocal(x))
			}
			o[a.RewriteLocal(k)] = l
		}
		return o
	}
	rwS := func(m map[string]bool) map[string]bool {
		o := make(map[string]bool, len(m))
		for k, v := range m {
			o[a.RewriteLocal(k)] = v
		}
		return o
	}
	a.Store, a.Remote = rwB(a.Store), rwB(a.Remote)
	a.Inboxes, a.Outboxes = rwL(a.Inboxes), rwL(a.Outboxes)
	a.StoredInbox, a.BlockedSet, a.OwnedExtra, a.NotOwned = rwS(a.StoredInbox), rwS(a.BlockedSet), rwS(a.OwnedExtra), rwS(a.NotOwned)
}

// Clk is the model clock.
type Clk struct{ A *App }

func (c Clk) Now() time.Time {
	a := c.A
	// under the cooperative scheduler reading the clock is a scheduling point: the library reads it
	// in the middle of producing a response
	if a.S != nil {
		if t := a.S.Current(); t != nil {
			a.S.Point(t, mc.Op{Name: "Clock.Now"})
		}
	}
	return a.Now
}

// ---------------------------------------------------------------------------------------
// counting response writer

// Writer distinguishes "nothing written" from an implicit 200.
type Writer struct {
	H            http.Header
	HeaderCalls  int
	Statuses     []int
	Writes       [][]byte
	WriteErr     bool
	ShortWrite   bool
	HeaderAtWH   http.Header // header snapshot at first WriteHeader
	WriteBeforeH bool
}

func NewWriter() *Writer { return &Writer{H: http.Header{}} }

func (w *Writer) Header() http.Header { w.HeaderCalls++; return w.H }
func (w *Writer) WriteHeader(code int) {
	if len(w.Statuses) == 0 {
		w.HeaderAtWH = w.H.Clone()
	}
	w.Statuses = append(w.Statuses, code)
}
func (w *Writer) Write(b []byte) (int, error) {
	if len(w.Statuses) == 0 {
		w.WriteBeforeH = true
	}
	w.Writes = append(w.Writes, append([]byte(nil), b...))
	if w.WriteErr {
		return 0, fmt.Errorf("write failed")
	}
	if w.ShortWrite && len(b) > 0 {
		return len(b) - 1, nil
	}
	return len(b), nil
}

// Wrote reports whether the library wrote anything at all.
func (w *Writer) Wrote() bool { return len(w.Statuses) > 0 || len(w.Writes) > 0 }

// Body concatenates the written bytes.
func (w *Writer) Body() []byte {
	var b []byte
	for _, x := range w.Writes {
		b = append(b, x...)
	}
	return b
}

// Request builds an *http.Request the way net/http would hand it to a handler.
func Request(method, target, ctype, accept string, body []byte) *http.Request {
	r, err := http.NewRequest(method, target, strings.NewReader(string(body)))
	if err != nil {
		panic(err)
	}
	if ctype != "" && ctype != "-" { // "-" = explicitly no header
		r.Header.Set("Content-Type", ctype)
	}
	if accept != "" && accept != "-" {
		r.Header.Set("Accept", accept)
	}
	return r
}

const APType = `application/ld+json; profile="https://www.w3.org/ns/activitystreams"`

// LibFrame returns the innermost go-fed/activity/pub function on the current stack.
func LibFrame() string {
	pcs := make([]uintptr, 40)
	n := runtime.Callers(2, pcs)
	fr := runtime.CallersFrames(pcs[:n])
	for {
		f, more := fr.Next()
		if strings.HasPrefix(f.Function, "github.com/go-fed/activity/pub.") {
			return strings.TrimPrefix(f.Function, "github.com/go-fed/activity/")
		}
		if !more {
			break
		}
	}
	return "?"
}

// MultisetCanonical renders the persistent state with every collection (inbox, outbox, and any
// 'items' / 'orderedItems' array inside a stored value) sorted: equality of two such renderings
// means every collection holds the same multiset of ids, whatever the order.
func (a *App) MultisetCanonical() string {
	var sb strings.Builder
	keys := make([]string, 0, len(a.Store))
	for k := range a.Store {
		keys = append(keys, k)
	}
	sort.Strings(keys)
	for _, k := range keys {
		var m map[string]interface{}
		json.Unmarshal(a.Store[k], &m)
		sortCollections(m)
		sb.WriteString("S " + k + " = ")
		sb.Write(MustJSON(m))
		sb.WriteString("\n")
	}
	for _, pair := range []struct {
		n string
		m map[string][]string
	}{{"I", a.Inboxes}, {"O", a.Outboxes}} {
		ks := make([]string, 0, len(pair.m))
		for k := range pair.m {
			ks = append(ks, k)
		}
		sort.Strings(ks)
		for _, k := range ks {
			l := append([]string(nil), pair.m[k]...)
			sort.Strings(l)
			fmt.Fprintf(&sb, "%s %s = %s\n", pair.n, k, strings.Join(l, " "))
		}
	}
	return sb.String()
}

func sortCollections(v interface{}) {
	switch x := v.(type) {
	case map[string]interface{}:
		for k, e := range x {
			if arr, ok := e.([]interface{}); ok && (k == "items" || k == "orderedItems") {
				strs := make([]string, len(arr))
				for i, el := range arr {
					strs[i] = string(MustJSON(el))
				}
				sort.Strings(strs)
				na := make([]interface{}, len(strs))
				for i, s := range strs {
					na[i] = json.RawMessage(s)
				}
				x[k] = na
				continue
			}
			sortCollections(e)
		}
	case []interface{}:
		for _, e := range x {
			sortCollections(e)
		}
	}
}

// hashEntries folds store, inboxes and outboxes into h in an order-independent way (sum of
// per-entry hashes), which is much cheaper than rendering Canonical() at every scheduling point.
func (a *App) hashEntries(h *mc.H) {
	var sum uint64
	for k, v := range a.Store {
		sum += mc.NewH().Str("S").Str(k).Bytes(v).Sum()
	}
	for k, v := range a.Inboxes {
		e := mc.NewH().Str("I").Str(k)
		for _, x := range v {
			e.Str(x)
		}
		sum += e.Sum()
	}
	for k, v := range a.Outboxes {
		e := mc.NewH().Str("O").Str(k)
		for _, x := range v {
			e.Str(x)
		}
		sum += e.Sum()
	}
	h.U64(sum)
}
