package apmodel

import (
	"bytes"
	"crypto"
	"fmt"
	"io/ioutil"
	"net/http"
	"sync"

	"github.com/go-fed/activity/pub"
)

// With App.RealTransport set, CommonBehavior.NewTransport hands the library its OWN bundled
// HttpSigTransport, closed by a fake HTTP client that serves App.Remote and answers deliveries as
// App.InboxOutcome says. The handlers are then exercised together with the library-internal
// goroutines of BatchDeliver (free-running: the client is safe for concurrent use and makes no
// scheduling points).

// RTClient is the fake pub.HttpClient.
type RTClient struct {
	A     *App
	mu    sync.Mutex
	Gets  []string
	Posts []string
}

func (h *RTClient) Do(req *http.Request) (*http.Response, error) {
	u := req.URL.String()
	resp := func(code int, body []byte) (*http.Response, error) {
		return &http.Response{StatusCode: code, Status: fmt.Sprint(code), Body: ioutil.NopCloser(bytes.NewReader(body)), Header: http.Header{}}, nil
	}
	if req.Method == "GET" {
		h.mu.Lock()
		h.Gets = append(h.Gets, u)
		h.mu.Unlock()
		b, ok := h.A.Remote[u]
		if !ok {
			return resp(404, []byte("not found"))
		}
		return resp(200, append([]byte(nil), b...))
	}
	h.mu.Lock()
	h.Posts = append(h.Posts, u)
	h.mu.Unlock()
	switch o := h.A.InboxOutcome[u]; {
	case o < 0:
		return nil, fmt.Errorf("dial %s: connection refused", u)
	case o == 0:
		return resp(202, nil)
	default:
		return resp(o, []byte("refused"))
	}
}

// nullSigner implements httpsig.Signer without signing anything.
type nullSigner struct{}

func (nullSigner) SignRequest(pKey crypto.PrivateKey, pubKeyId string, r *http.Request, body []byte) error {
	r.Header.Set("Signature", "keyId=\""+pubKeyId+"\",signature=\"none\"")
	return nil
}

func (nullSigner) SignResponse(pKey crypto.PrivateKey, pubKeyId string, r http.ResponseWriter, body []byte) error {
	return nil
}

func (a *App) realTransport() pub.Transport {
	if a.RTClient == nil {
		a.RTClient = &RTClient{A: a}
	}
	return pub.NewHttpSigTransport(a.RTClient, "verif-app", Clk{a}, nullSigner{}, nullSigner{}, "https://l.example/u/alice#main-key", "not-a-key")
}
