package apmodel

import (
	"context"
	"fmt"
	"net/url"
	"strings"

	"github.com/go-fed/activity/pub"
	"github.com/go-fed/activity/streams"
	"github.com/go-fed/activity/streams/vocab"

	"verif/mc"
)

// DB implements pub.Database over the App.
type DB struct{ A *App }

var _ pub.Database = DB{}

func us(u *url.URL) string {
	if u == nil {
		return "<nil>"
	}
	return u.String()
}

func (d DB) Lock(c context.Context, id *url.URL) error {
	a := d.A
	r := reqOf(c)
	ids := us(id)
	if a.Blocking && a.S != nil && r != nil && r.T != nil {
		// blocking resource: the point is enabled only when the lock is free
		if a.S.Aborting {
			return nil
		}
		r.WaitSite = LibFrame()
		r.WaitID = ids
		a.S.Point(r.T, mc.Op{Name: "DB.Lock", Res: ids, Acquire: true})
		a.Log = append(a.Log, Call{Req: r.ID, Op: "DB.Lock", Arg: ids})
		a.gate(r, "DB.Lock")
		r.Held[ids]++
		r.Site[ids] = LibFrame()
		return nil
	}
	idx, err := a.point(c, "DB.Lock", ids, true)
	if err != nil {
		return err
	}
	_ = idx
	if r != nil {
		if r.Held[ids] > 0 {
			r.Violations = append(r.Violations, Viol{Kind: "relock", ID: ids, Site: LibFrame(), Holder: r.Site[ids]})
		}
		r.Held[ids]++
		r.Site[ids] = LibFrame()
	}
	a.Locks[ids]++
	return nil
}

func (d DB) Unlock(c context.Context, id *url.URL) error {
	a := d.A
	r := reqOf(c)
	ids := us(id)
	if a.Blocking && a.S != nil && r != nil && r.T != nil {
		if a.S.Aborting {
			return nil
		}
		a.S.Point(r.T, mc.Op{Name: "DB.Unlock", Res: ids})
		a.Log = append(a.Log, Call{Req: r.ID, Op: "DB.Unlock", Arg: ids})
		if r.Held[ids] > 0 {
			r.Held[ids]--
			a.S.Release(ids)
		} else {
			r.Violations = append(r.Violations, Viol{Kind: "unlock-not-held", ID: ids, Site: LibFrame()})
		}
		return nil
	}
	_, err := a.point(c, "DB.Unlock", ids, true)
	// an erroring Unlock still frees the lock (the library cannot do anything about it)
	if r != nil {
		if r.Held[ids] > 0 {
			r.Held[ids]--
		} else {
			r.Violations = append(r.Violations, Viol{Kind: "unlock-not-held", ID: ids, Site: LibFrame()})
		}
	}
	if a.Locks[ids] > 0 {
		a.Locks[ids]--
	}
	return err
}

func (d DB) InboxContains(c context.Context, inbox, id *url.URL) (bool, error) {
	a := d.A
	idx, err := a.point(c, "DB.InboxContains", us(inbox)+" "+us(id), true)
	if err != nil {
		return false, err
	}
	a.dbAccess(c, "InboxContains", us(inbox))
	for _, x := range a.Inboxes[us(inbox)] {
		if x == us(id) {
			a.note(idx, c, "true")
			return true, nil
		}
	}
	a.note(idx, c, "false")
	return false, nil
}

func page(id string, items []string) vocab.ActivityStreamsOrderedCollectionPage {
	p := streams.NewActivityStreamsOrderedCollectionPage()
	idp := streams.NewJSONLDIdProperty()
	idp.Set(U(id))
	p.SetJSONLDId(idp)
	if len(items) > 0 {
		oi := streams.NewActivityStreamsOrderedItemsProperty()
		for _, it := range items {
			oi.AppendIRI(U(it))
		}
		p.SetActivityStreamsOrderedItems(oi)
	}
	return p
}

func pageItems(p vocab.ActivityStreamsOrderedCollectionPage) ([]string, error) {
	var out []string
	oi := p.GetActivityStreamsOrderedItems()
	if oi == nil {
		return nil, nil
	}
	for it := oi.Begin(); it != oi.End(); it = it.Next() {
		id, err := pub.ToId(it)
		if err != nil {
			return nil, err
		}
		out = append(out, id.String())
	}
	return out, nil
}

func (d DB) GetInbox(c context.Context, inboxIRI *url.URL) (vocab.ActivityStreamsOrderedCollectionPage, error) {
	a := d.A
	idx, err := a.point(c, "DB.GetInbox", us(inboxIRI), true)
	if err != nil {
		return nil, err
	}
	a.dbAccess(c, "GetInbox", us(inboxIRI))
	items := a.Inboxes[us(inboxIRI)]
	a.note(idx, c, strings.Join(items, " "))
	return page(us(inboxIRI), items), nil
}

func (d DB) SetInbox(c context.Context, inbox vocab.ActivityStreamsOrderedCollectionPage) error {
	a := d.A
	id, _ := pub.GetId(inbox)
	idx, err := a.point(c, "DB.SetInbox", us(id), true)
	if err != nil {
		return err
	}
	a.dbAccess(c, "SetInbox", us(id))
	items, err := pageItems(inbox)
	if err != nil {
		return a.fail(idx, c, err)
	}
	a.Inboxes[us(id)] = items
	a.note(idx, c, strings.Join(items, " "))
	return nil
}

func (d DB) Owns(c context.Context, id *url.URL) (bool, error) {
	a := d.A
	idx, err := a.point(c, "DB.Owns", us(id), true)
	if err != nil {
		return false, err
	}
	a.dbAccess(c, "Owns", us(id))
	o := a.OwnsID(us(id))
	a.note(idx, c, fmt.Sprint(o))
	return o, nil
}

func (d DB) ActorForOutbox(c context.Context, outboxIRI *url.URL) (*url.URL, error) {
	a := d.A
	idx, err := a.point(c, "DB.ActorForOutbox", us(outboxIRI), true)
	if err != nil {
		return nil, err
	}
	a.dbAccess(c, "ActorForOutbox", us(outboxIRI))
	if e, ok := a.Endpoints[us(outboxIRI)]; ok && e[1] == "outbox" {
		return U(e[0]), nil
	}
	s, ok := trimSuffixes(us(outboxIRI), "/outbox")
	if !ok {
		return nil, a.fail(idx, c, fmt.Errorf("not an outbox: %s", us(outboxIRI)))
	}
	return U(s), nil
}

func (d DB) ActorForInbox(c context.Context, inboxIRI *url.URL) (*url.URL, error) {
	a := d.A
	idx, err := a.point(c, "DB.ActorForInbox", us(inboxIRI), true)
	if err != nil {
		return nil, err
	}
	a.dbAccess(c, "ActorForInbox", us(inboxIRI))
	if e, ok := a.Endpoints[us(inboxIRI)]; ok && e[1] == "inbox" {
		return U(e[0]), nil
	}
	s, ok := trimSuffixes(us(inboxIRI), "/inbox")
	if !ok {
		return nil, a.fail(idx, c, fmt.Errorf("not an inbox: %s", us(inboxIRI)))
	}
	return U(s), nil
}

func (d DB) OutboxForInbox(c context.Context, inboxIRI *url.URL) (*url.URL, error) {
	a := d.A
	idx, err := a.point(c, "DB.OutboxForInbox", us(inboxIRI), true)
	if err != nil {
		return nil, err
	}
	a.dbAccess(c, "OutboxForInbox", us(inboxIRI))
	if e, ok := a.Endpoints[us(inboxIRI)]; ok && e[1] == "inbox" {
		for ep, x := range a.Endpoints {
			if x[0] == e[0] && x[1] == "outbox" {
				return U(ep), nil
			}
		}
		return U(e[0] + "/outbox"), nil
	}
	s, ok := trimSuffixes(us(inboxIRI), "/inbox")
	if !ok {
		return nil, a.fail(idx, c, fmt.Errorf("not an inbox: %s", us(inboxIRI)))
	}
	return U(s + "/outbox"), nil
}

func (d DB) InboxForActor(c context.Context, actorIRI *url.URL) (*url.URL, error) {
	a := d.A
	idx, err := a.point(c, "DB.InboxForActor", us(actorIRI), true)
	if err != nil {
		return nil, err
	}
	a.dbAccess(c, "InboxForActor", us(actorIRI))
	if in, ok := a.SharedInbox[us(actorIRI)]; ok {
		a.note(idx, c, "stored-shared")
		return U(in), nil
	}
	if a.StoredInbox[us(actorIRI)] {
		a.note(idx, c, "stored")
		return U(a.RewriteEndpoints(us(actorIRI) + "/inbox")), nil
	}
	a.note(idx, c, "none")
	return nil, nil
}

func (d DB) Exists(c context.Context, id *url.URL) (bool, error) {
	a := d.A
	idx, err := a.point(c, "DB.Exists", us(id), true)
	if err != nil {
		return false, err
	}
	a.dbAccess(c, "Exists", us(id))
	_, ok := a.Store[us(id)]
	a.note(idx, c, fmt.Sprint(ok))
	return ok, nil
}

func (d DB) Get(c context.Context, id *url.URL) (vocab.Type, error) {
	a := d.A
	idx, err := a.point(c, "DB.Get", us(id), true)
	if err != nil {
		return nil, err
	}
	a.dbAccess(c, "Get", us(id))
	b, ok := a.Store[us(id)]
	if !ok {
		if a.MissingAsNil {
			a.note(idx, c, "nil")
			return nil, nil
		}
		return nil, a.fail(idx, c, fmt.Errorf("no such value: %s", us(id)))
	}
	t, err := Decode(b)
	if err != nil {
		return nil, a.fail(idx, c, err)
	}
	a.note(idx, c, string(b))
	return t, nil
}

func (d DB) put(c context.Context, op string, t vocab.Type, mustExist, mustNotExist bool) error {
	a := d.A
	var ids string
	if t != nil {
		if id, err := pub.GetId(t); err == nil {
			ids = us(id)
		}
	}
	idx, err := a.point(c, op, ids, true)
	if err != nil {
		return err
	}
	a.dbAccess(c, op, ids)
	if t == nil {
		return a.fail(idx, c, fmt.Errorf("%s of nil value", op))
	}
	if ids == "" || ids == "<nil>" {
		return a.fail(idx, c, fmt.Errorf("%s of a value without id", op))
	}
	b, err := CanonJSON(t)
	if err != nil {
		return a.fail(idx, c, err)
	}
	a.Store[ids] = b
	a.note(idx, c, string(b))
	return nil
}

func (d DB) Create(c context.Context, t vocab.Type) error {
	return d.put(c, "DB.Create", t, false, true)
}
func (d DB) Update(c context.Context, t vocab.Type) error {
	return d.put(c, "DB.Update", t, true, false)
}

func (d DB) Delete(c context.Context, id *url.URL) error {
	a := d.A
	_, err := a.point(c, "DB.Delete", us(id), true)
	if err != nil {
		return err
	}
	a.dbAccess(c, "Delete", us(id))
	delete(a.Store, us(id))
	return nil
}

func (d DB) GetOutbox(c context.Context, outboxIRI *url.URL) (vocab.ActivityStreamsOrderedCollectionPage, error) {
	a := d.A
	idx, err := a.point(c, "DB.GetOutbox", us(outboxIRI), true)
	if err != nil {
		return nil, err
	}
	a.dbAccess(c, "GetOutbox", us(outboxIRI))
	items := a.Outboxes[us(outboxIRI)]
	a.note(idx, c, strings.Join(items, " "))
	return page(us(outboxIRI), items), nil
}

func (d DB) SetOutbox(c context.Context, outbox vocab.ActivityStreamsOrderedCollectionPage) error {
	a := d.A
	id, _ := pub.GetId(outbox)
	idx, err := a.point(c, "DB.SetOutbox", us(id), true)
	if err != nil {
		return err
	}
	a.dbAccess(c, "SetOutbox", us(id))
	items, err := pageItems(outbox)
	if err != nil {
		return a.fail(idx, c, err)
	}
	a.Outboxes[us(id)] = items
	a.note(idx, c, strings.Join(items, " "))
	return nil
}

func (d DB) NewID(c context.Context, t vocab.Type) (*url.URL, error) {
	a := d.A
	idx, err := a.point(c, "DB.NewID", "", true)
	if err != nil {
		return nil, err
	}
	a.NextID++
	prefix := a.LocalPrefix()
	if a.IDScheme != "" {
		prefix = a.IDScheme + "://" + LocalHost
	}
	id := fmt.Sprintf("%s/id/%d", prefix, a.NextID)
	if r := reqOf(c); r != nil {
		// ids are named after the request, so that they do not depend on the interleaving
		r.IDs++
		id = fmt.Sprintf("%s/id/r%d-%d", prefix, r.ID, r.IDs)
	}
	a.note(idx, c, id)
	return U(id), nil
}

func (d DB) collection(c context.Context, op string, actorIRI *url.URL, suffix string) (vocab.ActivityStreamsCollection, error) {
	a := d.A
	idx, err := a.point(c, op, us(actorIRI), true)
	if err != nil {
		return nil, err
	}
	a.dbAccess(c, op, us(actorIRI))
	id := us(actorIRI) + suffix
	if b, ok := a.Store[id]; ok {
		t, err := Decode(b)
		if err != nil {
			return nil, a.fail(idx, c, err)
		}
		col, ok := t.(vocab.ActivityStreamsCollection)
		if !ok {
			return nil, a.fail(idx, c, fmt.Errorf("%s is not a Collection", id))
		}
		a.note(idx, c, string(b))
		return col, nil
	}
	col := streams.NewActivityStreamsCollection()
	idp := streams.NewJSONLDIdProperty()
	idp.Set(U(id))
	col.SetJSONLDId(idp)
	a.note(idx, c, "new")
	return col, nil
}

func (d DB) Followers(c context.Context, actorIRI *url.URL) (vocab.ActivityStreamsCollection, error) {
	return d.collection(c, "DB.Followers", actorIRI, "/followers")
}
func (d DB) Following(c context.Context, actorIRI *url.URL) (vocab.ActivityStreamsCollection, error) {
	return d.collection(c, "DB.Following", actorIRI, "/following")
}
func (d DB) Liked(c context.Context, actorIRI *url.URL) (vocab.ActivityStreamsCollection, error) {
	return d.collection(c, "DB.Liked", actorIRI, "/liked")
}
