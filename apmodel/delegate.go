package apmodel

import (
	"context"
	"fmt"
	"net/http"
	"net/url"

	"github.com/go-fed/activity/pub"
	"github.com/go-fed/activity/streams"
	"github.com/go-fed/activity/streams/vocab"
)

// Deleg is an application-written DelegateActor for pub.NewCustomActor: every method is a seam call
// ("Delegate.<Method>"; the authentication methods use the same "Auth.*" names and outcomes as the
// other actor kinds) and does the simplest compliant thing. With a protocol switched off the base
// actor must answer 405 without calling any of it.
type Deleg struct{ A *App }

var _ pub.DelegateActor = Deleg{}

func (d Deleg) PostInboxRequestBodyHook(c context.Context, r *http.Request, activity pub.Activity) (context.Context, error) {
	_, err := d.A.point(c, "Fed.PostInboxRequestBodyHook", "", true)
	return c, err
}
func (d Deleg) PostOutboxRequestBodyHook(c context.Context, r *http.Request, data vocab.Type) (context.Context, error) {
	_, err := d.A.point(c, "Social.PostOutboxRequestBodyHook", "", true)
	return c, err
}
func (d Deleg) AuthenticatePostInbox(c context.Context, w http.ResponseWriter, r *http.Request) (context.Context, bool, error) {
	if rq := reqOf(c); rq != nil {
		rq.NeedBlock = true
	}
	return d.A.auth(c, "Auth.PostInbox", d.A.AuthPostInbox, w)
}
func (d Deleg) AuthenticateGetInbox(c context.Context, w http.ResponseWriter, r *http.Request) (context.Context, bool, error) {
	return d.A.auth(c, "Auth.GetInbox", d.A.AuthGetInbox, w)
}
func (d Deleg) AuthenticatePostOutbox(c context.Context, w http.ResponseWriter, r *http.Request) (context.Context, bool, error) {
	return d.A.auth(c, "Auth.PostOutbox", d.A.AuthPostOutbox, w)
}
func (d Deleg) AuthenticateGetOutbox(c context.Context, w http.ResponseWriter, r *http.Request) (context.Context, bool, error) {
	return d.A.auth(c, "Auth.GetOutbox", d.A.AuthGetOutbox, w)
}
func (d Deleg) AuthorizePostInbox(c context.Context, w http.ResponseWriter, activity pub.Activity) (bool, error) {
	var ids []*url.URL
	if ap := activity.GetActivityStreamsActor(); ap != nil {
		for it := ap.Begin(); it != ap.End(); it = it.Next() {
			if id, err := pub.ToId(it); err == nil {
				ids = append(ids, id)
			}
		}
	}
	blocked, err := Fed{d.A}.Blocked(c, ids)
	if err != nil {
		return false, err
	}
	if blocked {
		w.WriteHeader(http.StatusForbidden)
		return false, nil
	}
	return true, nil
}
func (d Deleg) PostInbox(c context.Context, inboxIRI *url.URL, activity pub.Activity) error {
	_, err := d.A.point(c, "Delegate.PostInbox", us(inboxIRI), true)
	return err
}
func (d Deleg) InboxForwarding(c context.Context, inboxIRI *url.URL, activity pub.Activity) error {
	_, err := d.A.point(c, "Delegate.InboxForwarding", us(inboxIRI), true)
	return err
}
func (d Deleg) PostOutbox(c context.Context, a pub.Activity, outboxIRI *url.URL, rawJSON map[string]interface{}) (bool, error) {
	_, err := d.A.point(c, "Delegate.PostOutbox", us(outboxIRI), true)
	if err != nil {
		return false, err
	}
	// the delegate's job: store the activity and put its id at the front of the outbox
	if idp := a.GetJSONLDId(); idp != nil && idp.IsIRI() {
		id := us(idp.GetIRI())
		if m, e := streams.Serialize(a); e == nil {
			d.A.Store[id] = MustJSON(m)
		}
		d.A.Outboxes[us(outboxIRI)] = append([]string{id}, d.A.Outboxes[us(outboxIRI)]...)
	}
	return false, nil
}
func (d Deleg) AddNewIDs(c context.Context, a pub.Activity) error {
	_, err := d.A.point(c, "Delegate.AddNewIDs", "", true)
	if err != nil {
		return err
	}
	d.A.NextID++
	id := streams.NewJSONLDIdProperty()
	id.Set(U(fmt.Sprintf("%s/id/custom-%d", d.A.LocalPrefix(), d.A.NextID)))
	a.SetJSONLDId(id)
	return nil
}
func (d Deleg) Deliver(c context.Context, outbox *url.URL, activity pub.Activity) error {
	_, err := d.A.point(c, "Delegate.Deliver", us(outbox), true)
	return err
}
func (d Deleg) WrapInCreate(c context.Context, value vocab.Type, outboxIRI *url.URL) (vocab.ActivityStreamsCreate, error) {
	_, err := d.A.point(c, "Delegate.WrapInCreate", us(outboxIRI), true)
	if err != nil {
		return nil, err
	}
	cr := streams.NewActivityStreamsCreate()
	op := streams.NewActivityStreamsObjectProperty()
	op.AppendType(value)
	cr.SetActivityStreamsObject(op)
	return cr, nil
}
func (d Deleg) GetOutbox(c context.Context, r *http.Request) (vocab.ActivityStreamsOrderedCollectionPage, error) {
	return Common{d.A}.GetOutbox(c, r)
}
func (d Deleg) GetInbox(c context.Context, r *http.Request) (vocab.ActivityStreamsOrderedCollectionPage, error) {
	return Fed{d.A}.GetInbox(c, r)
}
