// Package onto is the ontology oracle: it reads the vocabulary JSON-LD files with encoding/json
// only (it shares nothing with astool) and computes what the generated code is expected to offer.
package onto

import (
	"encoding/json"
	"fmt"
	"net/url"
	"os"
	"sort"
	"strings"
)

// Type is one owl:Class.
type Type struct {
	Vocab    string // Go vocabulary name, e.g. "ActivityStreams"
	Name     string
	Parents  []string // keys
	Disjoint []string // keys (declared, one direction)
	Typeless bool
}

func (t *Type) Key() string { return t.Vocab + "/" + t.Name }

// Prop is one rdf:Property.
type Prop struct {
	Vocab      string
	Name       string   // JSON member name
	Domain     []string // type keys
	RangeTypes []string // type keys
	RangeLits  []string // literal kinds as written, e.g. "xsd:string"
	Functional bool
	NatLang    bool
	Without    []string // type keys the property is withheld from
}

func (p *Prop) Key() string { return p.Vocab + "/" + p.Name }

// Vocab is one vocabulary file.
type Vocab struct {
	Name   string
	URI    string
	File   string
	prefix map[string]string
}

// Onto is the union of the loaded vocabularies.
type Onto struct {
	Vocabs []*Vocab
	Types  map[string]*Type
	Props  map[string]*Prop
	// derived
	anc  map[string]map[string]bool
	desc map[string]map[string]bool
	// Examples embedded in the vocabulary files.
	Examples []map[string]interface{}
}

func normURI(s string) string {
	u, err := url.Parse(s)
	if err != nil {
		return strings.TrimSuffix(s, "#")
	}
	return u.String() // an empty fragment is dropped by url.Parse/String
}

// ShippedFiles are the four vocabularies of the repository, in the order gen.go passes them.
func ShippedFiles(repo string) []string {
	return []string{repo + "/astool/activitystreams.jsonld", repo + "/astool/security-v1.jsonld",
		repo + "/astool/toot.jsonld", repo + "/astool/forgefed.jsonld"}
}

// Load reads vocabulary files.
func Load(files ...string) (*Onto, error) {
	o := &Onto{Types: map[string]*Type{}, Props: map[string]*Prop{}}
	type raw struct {
		v *Vocab
		m []map[string]interface{}
	}
	var raws []raw
	for _, f := range files {
		b, err := os.ReadFile(f)
		if err != nil {
			return nil, err
		}
		var d map[string]interface{}
		if err := json.Unmarshal(b, &d); err != nil {
			return nil, fmt.Errorf("%s: %v", f, err)
		}
		v := &Vocab{File: f, prefix: map[string]string{}}
		v.Name, _ = d["name"].(string)
		id, _ := d["id"].(string)
		v.URI = normURI(id)
		if ctx, ok := d["@context"].([]interface{}); ok {
			for _, c := range ctx {
				if cm, ok := c.(map[string]interface{}); ok {
					for k, val := range cm {
						if s, ok := val.(string); ok {
							v.prefix[k] = normURI(s)
						}
					}
				}
			}
		}
		o.Vocabs = append(o.Vocabs, v)
		var members []map[string]interface{}
		collect := func(x interface{}) {
			if arr, ok := x.([]interface{}); ok {
				for _, e := range arr {
					if m, ok := e.(map[string]interface{}); ok {
						members = append(members, m)
					}
				}
			}
		}
		collect(d["members"])
		if secs, ok := d["sections"].(map[string]interface{}); ok {
			names := make([]string, 0, len(secs))
			for k := range secs {
				names = append(names, k)
			}
			sort.Strings(names)
			for _, k := range names {
				if sm, ok := secs[k].(map[string]interface{}); ok {
					collect(sm["members"])
				}
			}
		}
		raws = append(raws, raw{v, members})
	}
	byURI := map[string]*Vocab{}
	for _, v := range o.Vocabs {
		byURI[v.URI] = v
	}
	// resolve a class reference {name: "as:Object"} or {name:"Object"}
	ref := func(v *Vocab, x interface{}) (string, bool) {
		m, ok := x.(map[string]interface{})
		if !ok {
			return "", false
		}
		n, _ := m["name"].(string)
		if n == "" {
			return "", false
		}
		if i := strings.Index(n, ":"); i >= 0 {
			if uri, ok := v.prefix[n[:i]]; ok {
				if tv, ok := byURI[uri]; ok {
					return tv.Name + "/" + n[i+1:], true
				}
			}
			return "", false
		}
		return v.Name + "/" + n, true
	}
	list := func(x interface{}) []interface{} {
		switch t := x.(type) {
		case nil:
			return nil
		case []interface{}:
			return t
		default:
			return []interface{}{t}
		}
	}
	union := func(x interface{}) []interface{} {
		if m, ok := x.(map[string]interface{}); ok {
			if u, ok := m["unionOf"]; ok {
				return list(u)
			}
		}
		return list(x)
	}
	// prefixes are local to a file: a term is compared after mapping its prefix, through the
	// namespace the file binds it to, onto the conventional prefix of that namespace
	std := map[string]string{}
	for p, ns := range map[string]string{"owl": "http://www.w3.org/2002/07/owl#", "rdf": "http://www.w3.org/1999/02/22-rdf-syntax-ns#", "rdfs": "http://www.w3.org/2000/01/rdf-schema#",
		"xsd": "http://www.w3.org/2001/XMLSchema#", "rfc": "https://tools.ietf.org/html/", "schema": "http://schema.org/"} {
		std[normURI(ns)] = p
	}
	canon := func(v *Vocab, s string) string {
		if i := strings.Index(s, ":"); i > 0 {
			if ns, ok := v.prefix[s[:i]]; ok {
				if p, ok := std[ns]; ok {
					return p + s[i:]
				}
			}
		}
		return s
	}
	var cur *Vocab
	hasType := func(m map[string]interface{}, want string) bool {
		for _, t := range list(m["type"]) {
			if s, _ := t.(string); canon(cur, s) == want {
				return true
			}
		}
		return false
	}
	for _, r := range raws {
		cur = r.v
		for _, m := range r.m {
			name, _ := m["name"].(string)
			if hasType(m, "owl:Class") {
				t := &Type{Vocab: r.v.Name, Name: name}
				for _, p := range list(m["subClassOf"]) {
					if k, ok := ref(r.v, p); ok {
						t.Parents = append(t.Parents, k)
					}
				}
				for _, p := range list(m["disjointWith"]) {
					if k, ok := ref(r.v, p); ok {
						t.Disjoint = append(t.Disjoint, k)
					}
				}
				if b, _ := m["@wtf_typeless"].(bool); b {
					t.Typeless = true
				}
				o.Types[t.Key()] = t
				collectExamples(o, m)
				continue
			}
			if hasType(m, "rdf:Property") {
				p := &Prop{Vocab: r.v.Name, Name: name, Functional: hasType(m, "owl:FunctionalProperty")}
				for _, d := range union(m["domain"]) {
					if k, ok := ref(r.v, d); ok {
						p.Domain = append(p.Domain, k)
					}
				}
				for _, d := range union(m["range"]) {
					if s, ok := d.(string); ok {
						s = canon(r.v, s)
						p.RangeLits = append(p.RangeLits, s)
						if s == "rdf:langString" {
							p.NatLang = true
						}
					} else if k, ok := ref(r.v, d); ok {
						p.RangeTypes = append(p.RangeTypes, k)
					}
				}
				for _, d := range list(m["@wtf_without_property"]) {
					if k, ok := ref(r.v, d); ok {
						p.Without = append(p.Without, k)
					}
				}
				o.Props[p.Key()] = p
				collectExamples(o, m)
			}
		}
	}
	o.close()
	return o, nil
}

func collectExamples(o *Onto, m map[string]interface{}) {
	ex, ok := m["example"].([]interface{})
	if !ok {
		return
	}
	for _, e := range ex {
		if em, ok := e.(map[string]interface{}); ok {
			if inner, ok := em["example"].(map[string]interface{}); ok {
				o.Examples = append(o.Examples, inner)
			}
		}
	}
}

func (o *Onto) close() {
	o.anc = map[string]map[string]bool{}
	o.desc = map[string]map[string]bool{}
	var up func(k string, seen map[string]bool)
	up = func(k string, seen map[string]bool) {
		t := o.Types[k]
		if t == nil {
			return
		}
		for _, p := range t.Parents {
			if !seen[p] {
				seen[p] = true
				up(p, seen)
			}
		}
	}
	for k := range o.Types {
		s := map[string]bool{}
		up(k, s)
		o.anc[k] = s
		o.desc[k] = map[string]bool{}
	}
	for k, s := range o.anc {
		for a := range s {
			if o.desc[a] != nil {
				o.desc[a][k] = true
			}
		}
	}
}

// TypeKeys returns all type keys, sorted.
func (o *Onto) TypeKeys() []string {
	ks := make([]string, 0, len(o.Types))
	for k := range o.Types {
		ks = append(ks, k)
	}
	sort.Strings(ks)
	return ks
}

// PropKeys returns all property keys, sorted.
func (o *Onto) PropKeys() []string {
	ks := make([]string, 0, len(o.Props))
	for k := range o.Props {
		ks = append(ks, k)
	}
	sort.Strings(ks)
	return ks
}

// Extends reports whether b is a proper ancestor of a.
func (o *Onto) Extends(a, b string) bool { return o.anc[a][b] }

// AncestorsOrSelf lists a and its ancestors.
func (o *Onto) AncestorsOrSelf(a string) []string {
	out := []string{a}
	for k := range o.anc[a] {
		out = append(out, k)
	}
	sort.Strings(out)
	return out
}

// DescendantsOrSelf lists a and its descendants.
func (o *Onto) DescendantsOrSelf(a string) []string {
	out := []string{a}
	for k := range o.desc[a] {
		out = append(out, k)
	}
	sort.Strings(out)
	return out
}

// Disjoint reports whether some ancestor-or-self of a is declared disjoint (either direction)
// with some ancestor-or-self of b.
func (o *Onto) Disjoint(a, b string) bool {
	for _, x := range o.AncestorsOrSelf(a) {
		for _, y := range o.AncestorsOrSelf(b) {
			if o.declared(x, y) || o.declared(y, x) {
				return true
			}
		}
	}
	return false
}

func (o *Onto) declared(x, y string) bool {
	t := o.Types[x]
	if t == nil {
		return false
	}
	for _, d := range t.Disjoint {
		if d == y {
			return true
		}
	}
	return false
}

// HasProp reports whether the ontology gives type t the property p.
func (o *Onto) HasProp(t, p string) bool {
	pr := o.Props[p]
	self := map[string]bool{}
	for _, a := range o.AncestorsOrSelf(t) {
		self[a] = true
	}
	in := false
	for _, d := range pr.Domain {
		if self[d] {
			in = true
		}
	}
	if !in {
		return false
	}
	for _, w := range pr.Without {
		if self[w] {
			return false
		}
	}
	return true
}

// PropsOf lists the property keys of a type, sorted.
func (o *Onto) PropsOf(t string) []string {
	var out []string
	for _, p := range o.PropKeys() {
		if o.HasProp(t, p) {
			out = append(out, p)
		}
	}
	return out
}

// KindTypes lists the type kinds a property admits (range types with all their descendants).
func (o *Onto) KindTypes(p string) []string {
	set := map[string]bool{}
	for _, r := range o.Props[p].RangeTypes {
		for _, d := range o.DescendantsOrSelf(r) {
			if o.Types[d] != nil {
				set[d] = true
			}
		}
	}
	out := make([]string, 0, len(set))
	for k := range set {
		out = append(out, k)
	}
	sort.Strings(out)
	return out
}

// LitGoName maps a literal kind as written in the vocabulary to the Go identifier fragment.
func LitGoName(lit string) string {
	i := strings.Index(lit, ":")
	if i < 0 {
		return lit
	}
	pfx, n := lit[:i], lit[i+1:]
	up := strings.ToUpper(n[:1]) + n[1:]
	switch pfx {
	case "xsd":
		return "XMLSchema" + up
	case "rdf":
		return "RDF" + up
	case "rfc":
		return "RFC" + up
	}
	return strings.ToUpper(pfx) + up
}

// GoProp returns the Go identifier fragment of a property, e.g. "ActivityStreamsObject".
func (p *Prop) GoProp() string { return p.Vocab + strings.ToUpper(p.Name[:1]) + p.Name[1:] }

// GoType returns the Go identifier fragment of a type, e.g. "ActivityStreamsNote".
func (t *Type) GoType() string { return t.Vocab + t.Name }

// VocabOf returns the vocabulary by Go name.
func (o *Onto) VocabOf(name string) *Vocab {
	for _, v := range o.Vocabs {
		if v.Name == name {
			return v
		}
	}
	return nil
}
