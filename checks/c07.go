package checks

import (
	"fmt"
	"strings"
	"sync"

	ap "verif/apmodel"
	"verif/mc"
)

// header classification: must-accept (1), must-reject (0), either (2)
type hdr struct {
	v    string
	want int
}

var headerVariants = []hdr{
	{"application/activity+json", 1},
	{`application/ld+json; profile="https://www.w3.org/ns/activitystreams"`, 1},
	{`application/ld+json;profile="https://www.w3.org/ns/activitystreams"`, 1},
	{`application/ld+json ;profile="https://www.w3.org/ns/activitystreams"`, 1},
	{`application/ld+json ; profile="https://www.w3.org/ns/activitystreams"`, 1},
	{`application/ld+json; profile=https://www.w3.org/ns/activitystreams`, 1},
	{`application/ld+json;profile=https://www.w3.org/ns/activitystreams`, 1},
	{`application/activity+json; charset=utf-8`, 1},
	{`application/ld+json; profile="https://www.w3.org/ns/activitystreams"; charset=utf-8`, 1},
	{"application/json", 0},
	{"application/ld+json", 0},
	{`application/ld+json; profile="https://example.com/other"`, 0},
	{"text/html", 0},
	{"", 0},
	{"APPLICATION/ACTIVITY+JSON", 2}, // media types are case-insensitive in HTTP; either answer is fine
	{"text/html, application/activity+json", 2},
	// many media ranges, the ActivityStreams one late (an Accept header of a browser-like client)
	// (a header that names the ActivityStreams type among others, at full preference, asks for it: the
	// documented matching is "contains one of the accepted media types")
	{`text/html, application/xhtml+xml, application/xml;q=0.9, image/webp, application/activity+json`, 1},
	{`text/html, application/xhtml+xml, application/xml;q=0.9, image/webp, */*;q=0.8, application/json, application/ld+json; profile="https://www.w3.org/ns/activitystreams"`, 1},
	// a profile parameter that belongs to ANOTHER media range does not make ld+json an ActivityStreams type
	{`application/ld+json, text/html; profile="https://www.w3.org/ns/activitystreams"`, 0},
	{`application/json; profile="https://www.w3.org/ns/activitystreams"`, 0},
	{`text/html; q="application/activity+json"`, 2}, // the documented matching is by containment ("not a comprehensive parser"): either answer
}

type bodyV struct {
	name string
	raw  []byte
	// class: "activity", "object", "unknown", "notjson", "empty"
	class string
}

func bodyVariants() []bodyV {
	rn := Emb("Note", "https://r1.example/n/10", "attributedTo", Carol, "content", "x")
	docs := []M{
		Doc("Create", RAct, "actor", Carol, "object", rn),
		Doc("Update", RAct, "actor", Carol, "object", rn),
		Doc("Delete", RAct, "actor", Carol, "object", "https://r1.example/n/10"),
		Doc("Follow", RAct, "actor", Carol, "object", Alice),
		Doc("Accept", RAct, "actor", Carol, "object", Follow1),
		Doc("Reject", RAct, "actor", Carol, "object", Follow1),
		Doc("Add", RAct, "actor", Carol, "object", RNote, "target", Col1),
		Doc("Remove", RAct, "actor", Carol, "object", Dave, "target", Col1),
		Doc("Like", RAct, "actor", Carol, "object", Note1),
		Doc("Announce", RAct, "actor", Carol, "object", Note1),
		Doc("Undo", RAct, "actor", Carol, "object", "https://r1.example/like/1"),
		Doc("Block", RAct, "actor", Carol, "object", Alice),
	}
	shapes := []M{
		Doc("Like", RAct, "actor", L{}, "object", Note1),
		Doc("Like", RAct, "actor", L{Carol, Emb("Person", Dave, "inbox", Dave+"/inbox")}, "object", Note1),
		Doc("Create", RAct, "actor", Emb("Service", Carol), "object", rn, "to", L{Col1}),
	}
	var out []bodyV
	for _, d := range docs {
		out = append(out, bodyV{name: d["type"].(string), raw: ap.MustJSON(d), class: "activity"})
	}
	for i, d := range shapes {
		out = append(out, bodyV{name: fmt.Sprintf("%s-actor-shape-%d", d["type"], i), raw: ap.MustJSON(d), class: "activity"})
	}
	out = append(out,
		bodyV{"bare-note", ap.MustJSON(Doc("Note", "https://r1.example/n/77", "content", "hi", "to", Carol)), "object"},
		bodyV{"unknown-type", ap.MustJSON(Doc("Frobnicate", RAct, "actor", Carol, "object", Note1)), "unknown"},
		bodyV{"not-json", []byte("<html>not json"), "notjson"},
		bodyV{"empty", []byte(""), "empty"},
	)
	return out
}

var entries = []string{"PostInbox", "PostOutbox", "GetInbox", "GetOutbox", "Handler"}
var methods = []string{"GET", "POST", "PUT", "HEAD", "DELETE", "post", "Get"} // HTTP methods are case-sensitive tokens
var outcomes3 = []ap.Outcome{ap.OK, ap.Denied, ap.Error}
var authOutcomes = []ap.Outcome{ap.OK, ap.Denied, ap.Error, ap.ErrorTrue}

// reqCase is one element of the C07/C10 request product.
type reqCase struct {
	entry  string
	kind   ap.ActorKind
	auth   ap.Outcome
	block  ap.Outcome // OK = not blocked, Denied = blocked, Error = Blocked errors
	method string
	hdr    hdr
	body   bodyV
	// other is the value of the header that is IRRELEVANT for the entry's method (Accept on a POST,
	// Content-Type on a GET); it must not make a request an ActivityPub request
	other string
}

func (c reqCase) String() string {
	o := ""
	if c.other != "" {
		o = fmt.Sprintf(" other-header=%q", c.other)
	}
	return fmt.Sprintf("%s/%s auth=%d block=%d %s hdr=%q%s body=%s", c.entry, c.kind, c.auth, c.block, c.method, c.hdr.v, o, c.body.name)
}

func (c reqCase) scenario(authWrites bool) *Scenario {
	sc := &Scenario{Name: c.String(), Kind: c.kind, Entry: c.entry, Method: c.method, Raw: c.body.raw}
	switch c.entry {
	case "PostInbox":
		sc.URL, sc.CType = inbox(Alice), c.hdr.v
	case "PostOutbox":
		sc.URL, sc.CType = outbox(Alice), c.hdr.v
	case "GetInbox":
		sc.URL, sc.Accept = inbox(Alice), c.hdr.v
	case "GetOutbox":
		sc.URL, sc.Accept = outbox(Alice), c.hdr.v
	case "Handler":
		sc.URL, sc.Accept = Note1, c.hdr.v
	}
	if c.other != "" {
		if c.entry == "PostInbox" || c.entry == "PostOutbox" {
			sc.Accept = c.other
		} else {
			sc.CType = c.other
		}
	}
	if sc.CType == "" && (c.entry == "PostInbox" || c.entry == "PostOutbox") {
		sc.CType = "-" // explicit "no header": see Request override below
	}
	if sc.Accept == "" && !(c.entry == "PostInbox" || c.entry == "PostOutbox") {
		sc.Accept = "-"
	}
	sc.Tweak = func(a *ap.App) {
		a.AuthGetInbox, a.AuthGetOutbox, a.AuthPostInbox, a.AuthPostOutbox = c.auth, c.auth, c.auth, c.auth
		a.BlockedOutcome = c.block
		a.AuthWrites = authWrites
		a.Callbacks = ap.CBWrapped
	}
	return sc
}

// wantMethod returns the HTTP method that makes the entry an ActivityPub request.
func wantMethod(entry string) string {
	if entry == "PostInbox" || entry == "PostOutbox" {
		return "POST"
	}
	return "GET"
}

// enabled reports whether the entry's protocol is enabled for the actor kind.
func enabled(entry string, k ap.ActorKind) bool {
	switch entry {
	case "PostInbox":
		return k.Federated()
	case "PostOutbox":
		return k.Social()
	}
	return true
}

func forEachReqCase(fn func(c reqCase)) {
	bodies := bodyVariants()
	kinds := []ap.ActorKind{ap.SocialOnly, ap.FederatingOnly, ap.Both}
	for _, e := range entries {
		for _, k := range kinds {
			for _, au := range authOutcomes {
				for _, bl := range outcomes3 {
					for _, m := range methods {
						for _, h := range headerVariants {
							for _, b := range bodies {
								fn(reqCase{entry: e, kind: k, auth: au, block: bl, method: m, hdr: h, body: b})
							}
						}
					}
				}
			}
		}
	}
	// pub.NewCustomActor over the application's own delegate, with neither / one / both protocols on
	// (reduced method / header / body alphabets)
	for _, e := range entries {
		for _, k := range []ap.ActorKind{ap.CustomNeither, ap.CustomSocial, ap.CustomFederating, ap.CustomBoth} {
			if e == "Handler" {
				continue
			}
			for _, au := range authOutcomes {
				for _, bl := range outcomes3 {
					for _, m := range []string{"GET", "POST", "PUT"} {
						for _, h := range []hdr{headerVariants[0], headerVariants[1], headerVariants[9], headerVariants[13]} {
							for _, b := range []bodyV{bodies[0], bodies[8], bodies[len(bodies)-4], bodies[len(bodies)-3], bodies[len(bodies)-2]} {
								fn(reqCase{entry: e, kind: k, auth: au, block: bl, method: m, hdr: h, body: b})
							}
						}
					}
				}
			}
		}
	}
	for _, e := range entries {
		for _, k := range kinds {
			// the irrelevant header carrying a media type of its own
			for _, m := range []string{"GET", "POST"} {
				for _, h := range headerVariants {
					for _, b := range []bodyV{bodies[0], bodies[len(bodies)-4]} {
						for _, other := range []string{"application/activity+json", "text/html"} {
							fn(reqCase{entry: e, kind: k, auth: ap.OK, block: ap.OK, method: m, hdr: h, body: b, other: other})
						}
					}
				}
			}
		}
	}
}

// sideEffectOps are the seam operations C07 calls side effects.
func isSideEffect(op string) bool {
	return strings.HasPrefix(op, "DB.") || strings.HasPrefix(op, "T.") || op == "Common.NewTransport" ||
		strings.Contains(op, ".cb.") || op == "Fed.FilterForwarding" || op == "Fed.FederatingCallbacks" || op == "Social.SocialCallbacks" ||
		op == "Common.GetOutbox" || op == "Fed.GetInbox" || strings.HasPrefix(op, "Delegate.")
}

// warmUpOddCaseHeaders: before a request product runs, one request per header value that differs from
// an accepted one only in letter case or decoration ('either' class). Whatever the library answers
// for those, it must not REMEMBER the answer for the canonical spellings (the whole product runs in
// this same process).
func warmUpOddCaseHeaders() {
	for _, h := range headerVariants {
		if h.want != 2 {
			continue
		}
		for _, e := range entries {
			c := reqCase{entry: e, kind: ap.Both, auth: ap.OK, block: ap.OK, method: wantMethod(e), hdr: h, body: bodyVariants()[8]}
			sc := c.scenario(false)
			sc.On(sc.World(), nil)
		}
	}
}

// C07 — nothing happens before authentication, authorization and protocol checks.
func C07(tier string) int {
	res := NewResult("C07", tier, "exploration")
	var cases []reqCase
	forEachReqCase(func(c reqCase) { cases = append(cases, c) })
	res.Rule = fmt.Sprintf("the full product {PostInbox,PostOutbox,GetInbox,GetOutbox,handler} x {social,federating,both; plus NewCustomActor over an application-written delegate with neither / social / federating / both protocols on, over reduced method, header and body alphabets} x authentication {ok,denied,error,error-with-true} x block {no,yes,error} x %d methods x %d header values x %d bodies, plus (authenticated, unblocked, GET / POST) every header value again with the header that is irrelevant for the method (Accept on a POST, Content-Type on a GET) carrying the ActivityStreams type or text/html = %d requests, each on a fresh world but in ONE process, after a warm-up with the odd-case spellings (a remembered answer would show); plus every corpus POST with one body node removed, emptied or replaced by a value of another legal shape under {authentication denied, authentication error, sender blocked, block check erroring, all open}; plus inbox POSTs by 5, 6, 9 and 17 actors of which the application blocks exactly one (every position; also one whose id differs from another's only in letter case); monitor over the seam call log; non-trivial = request classes (entry,kind,auth,block,method-ok,header-class,body-class) that reach a decision point", len(methods), len(headerVariants), len(bodyVariants()), len(cases))
	res.Assumptions = []string{"header values marked 'either' (case variants, lists) are exempt from the handled/not-handled assertion but not from the monitors",
		"a panic is C11's business and is not judged here"}
	warmUpOddCaseHeaders()
	var mu sync.Mutex
	type viol struct {
		key, what string
		rep       M
	}
	chunk := 2000
	n := (len(cases) + chunk - 1) / chunk
	parallel(n, func(ci int) {
		var local []viol
		localClasses := map[string]struct{}{}
		localOut := map[string]int{}
		evals := 0
		var samples []interface{}
		lo, hi := ci*chunk, (ci+1)*chunk
		if hi > len(cases) {
			hi = len(cases)
		}
		for _, c := range cases[lo:hi] {
			sc := c.scenario(false)
			a := sc.World()
			before := a.Canonical()
			out := sc.On(a, nil)
			evals++
			if out.Panic != nil {
				localOut["panic(C11)"]++
				continue
			}
			bad := func(kind, what string) {
				local = append(local, viol{kind + "|" + c.entry, fmt.Sprintf("%s: %s; calls=%v", c.String(), what, callNames(a.Log, 12)),
					M{"check": "C07", "case": c.String()}})
			}
			isAP := c.method == wantMethod(c.entry) && c.hdr.want == 1
			notAP := c.method != wantMethod(c.entry) || c.hdr.want == 0
			sideEffects := 0
			for _, cl := range a.Log {
				if isSideEffect(cl.Op) {
					sideEffects++
				}
			}
			changed := a.Canonical() != before || len(a.Deliveries) > 0
			// monitors: calls before authentication / block check
			for _, p := range out.Req.PreAuth {
				bad("call-"+strings.SplitN(p, ":", 2)[0], p)
			}
			switch {
			case notAP:
				if out.Handled || out.W.Wrote() || len(a.Log) > 0 || out.Err != nil {
					bad("non-activitypub-request-touched", fmt.Sprintf("handled=%v wrote=%v calls=%d err=%v", out.Handled, out.W.Wrote(), len(a.Log), out.Err))
				}
				localOut["not-handled"]++
			case isAP && !enabled(c.entry, c.kind):
				if !out.Handled || len(out.W.Statuses) != 1 || out.W.Statuses[0] != 405 || len(a.Log) > 0 {
					bad("disabled-protocol", fmt.Sprintf("handled=%v statuses=%v calls=%d", out.Handled, out.W.Statuses, len(a.Log)))
				}
				localOut["405"]++
			case isAP && c.entry != "Handler" && c.auth != ap.OK:
				if sideEffects > 0 || changed {
					bad("side-effect-after-failed-authentication", fmt.Sprintf("side-effect calls=%d changed=%v", sideEffects, changed))
				}
				if !out.Handled {
					bad("failed-authentication-not-handled", "handled=false")
				}
				localOut["auth-failed"]++
			case isAP && c.entry == "PostInbox" && c.block != ap.OK && c.body.class == "activity":
				if sideEffects > 0 || changed {
					bad("side-effect-after-failed-block-check", fmt.Sprintf("side-effect calls=%d changed=%v", sideEffects, changed))
				}
				localOut["blocked"]++
			default:
				if isAP && !out.Handled {
					bad("activitypub-request-not-handled", "handled=false")
				}
				localOut["processed"]++
			}
			cls := fmt.Sprintf("%s|%s|%d|%d|%v|%d|%s", c.entry, c.kind, c.auth, c.block, c.method == wantMethod(c.entry), c.hdr.want, c.body.class)
			localClasses[cls] = struct{}{}
			if len(samples) < 1 && isAP && ci%20 == 3 {
				samples = append(samples, M{"case": c.String(), "handled": out.Handled, "statuses": out.W.Statuses, "calls": callNames(a.Log, 8)})
			}
		}
		mu.Lock()
		defer mu.Unlock()
		res.Evaluations += evals
		for k := range localClasses {
			res.Nontrivial[k] = struct{}{}
		}
		for k, v := range localOut {
			res.Outcomes[k] += v
		}
		for _, v := range local {
			res.Violate(v.key, v.what, v.rep)
		}
		for _, s := range samples {
			res.Sample(s)
		}
	})
	// ---- unusual but legal bodies: every corpus POST with one body node removed, emptied or replaced by a
	// value of another legal shape, under a denying / erroring authentication and a refusing / erroring
	// block check: whatever the body looks like, nothing happens before the checks have passed ----
	mut := MutatedCorpus()
	nMut := 0
	parallel((len(mut)+199)/200, func(ci int) {
		lo, hi := ci*200, (ci+1)*200
		if hi > len(mut) {
			hi = len(mut)
		}
		type viol struct {
			key, what string
			rep       M
		}
		var local []viol
		n := 0
		for _, base := range mut[lo:hi] {
			if base.Entry != "PostInbox" && base.Entry != "PostOutbox" {
				continue
			}
			for _, gate := range []struct {
				name        string
				auth, block ap.Outcome
			}{{"auth-denied", ap.Denied, ap.OK}, {"auth-error", ap.Error, ap.OK}, {"blocked", ap.OK, ap.Denied}, {"block-error", ap.OK, ap.Error}, {"open", ap.OK, ap.OK}} {
				if gate.block != ap.OK && base.Entry != "PostInbox" {
					continue
				}
				gate := gate
				sc := *base
				inner := base.Tweak
				sc.Tweak = func(a *ap.App) {
					if inner != nil {
						inner(a)
					}
					a.AuthGetInbox, a.AuthGetOutbox, a.AuthPostInbox, a.AuthPostOutbox = gate.auth, gate.auth, gate.auth, gate.auth
					a.BlockedOutcome = gate.block
					a.Callbacks = ap.CBWrapped
				}
				a := sc.World()
				before := a.Canonical()
				out := sc.On(a, nil)
				n++
				if out.Panic != nil {
					continue
				}
				bad := func(kind, what string) {
					local = append(local, viol{kind + "|" + sc.Entry + "|unusual-body", fmt.Sprintf("%s under %s: %s; calls=%v", sc.Name, gate.name, what, callNames(a.Log, 12)),
						M{"check": "C07", "part": "unusual-body", "scenario": sc.Name, "gate": gate.name, "body": sc.Body}})
				}
				for _, p := range out.Req.PreAuth {
					bad("call-"+strings.SplitN(p, ":", 2)[0], p)
				}
				if gate.name == "open" {
					continue
				}
				sideEffects := 0
				for _, cl := range a.Log {
					if isSideEffect(cl.Op) {
						sideEffects++
					}
				}
				// a body the library refuses before it asks (no usable type / id) is answered 400 without a check; the
				// state must be unchanged either way
				if sideEffects > 0 || a.Canonical() != before || len(a.Deliveries) > 0 {
					bad("side-effect-after-failed-"+map[bool]string{true: "authentication", false: "block-check"}[gate.auth != ap.OK], fmt.Sprintf("side-effect calls=%d", sideEffects))
				}
			}
		}
		mu.Lock()
		defer mu.Unlock()
		nMut += n
		for _, v := range local {
			res.Violate(v.key, v.what, v.rep)
		}
	})
	// long actor lists with ONE blocked actor (the application blocks by id): 5, 6, 9 and 17 actors, the
	// blocked one at every position, and two actors whose ids differ only in letter case with the later one
	// blocked - no side effect whatever the position
	nLong := 0
	for _, n := range []int{5, 6, 9, 17} {
		for p := 0; p <= n; p++ {
			var acts L
			var ids []string
			for i := 0; i < n; i++ {
				id := Peer(i)
				if p == n && i == n-1 {
					id = strings.Replace(Peer(0), "/u/p0", "/u/P0", 1) // differs from actor 0 in case only; the blocked one
				}
				ids = append(ids, id)
				if i%2 == 1 {
					acts = append(acts, Emb("Person", id))
				} else {
					acts = append(acts, id)
				}
			}
			blocked := ids[n-1]
			if p < n {
				blocked = ids[p]
			}
			sc := &Scenario{Name: fmt.Sprintf("c07/%d actors, #%d blocked", n, p), Kind: ap.Both, Entry: "PostInbox", URL: inbox(Alice),
				Body: Doc("Create", RAct, "actor", acts, "to", Col1, "object", Emb("Note", RAct+"/n", "content", "x", "inReplyTo", Note1)),
				Tweak: func(a *ap.App) { a.BlockedSet[blocked] = true; a.Callbacks = ap.CBWrapped }}
			a := sc.World()
			before := a.Canonical()
			out := sc.On(a, nil)
			nLong++
			if out.Panic != nil {
				continue
			}
			se := 0
			for _, cl := range a.Log {
				if isSideEffect(cl.Op) {
					se++
				}
			}
			for _, pa := range out.Req.PreAuth {
				res.Violate("call-"+strings.SplitN(pa, ":", 2)[0]+"|PostInbox|long-actor-list", sc.Name+": "+pa, M{"check": "C07", "part": "long-actor-list", "scenario": sc.Name})
			}
			if se > 0 || a.Canonical() != before || len(a.Deliveries) > 0 {
				res.Violate("side-effect-after-failed-block-check|PostInbox|long-actor-list", fmt.Sprintf("%s: %d side-effect calls although actor %s is blocked; calls=%v", sc.Name, se, shortID(blocked), callNames(a.Log, 12)),
					M{"check": "C07", "part": "long-actor-list", "scenario": sc.Name, "body": sc.Body})
			}
		}
	}
	// short lists that REPEAT an actor in front of the blocked one
	for ri, acts := range []L{{Carol, Carol, Dave}, {Carol, Emb("Person", Carol), Dave}, {Emb("Person", Carol), Carol, Carol, Dave}, {Carol, Dave, Carol, Dave}, {Carol, Carol}} {
		blocked := Dave
		if ri == 4 {
			blocked = Carol
		}
		sc := &Scenario{Name: fmt.Sprintf("c07/repeated actors %d, the last one blocked", ri), Kind: ap.Both, Entry: "PostInbox", URL: inbox(Alice),
			Body: Doc("Like", RAct, "actor", acts, "object", Note1), Tweak: func(a *ap.App) { a.BlockedSet[blocked] = true; a.Callbacks = ap.CBWrapped }}
		a := sc.World()
		before := a.Canonical()
		out := sc.On(a, nil)
		nLong++
		if out.Panic != nil {
			continue
		}
		se := 0
		for _, cl := range a.Log {
			if isSideEffect(cl.Op) {
				se++
			}
		}
		if se > 0 || a.Canonical() != before || len(a.Deliveries) > 0 {
			res.Violate("side-effect-after-failed-block-check|PostInbox|repeated-actors", fmt.Sprintf("%s: %d side-effect calls although actor %s is blocked; calls=%v", sc.Name, se, shortID(blocked), callNames(a.Log, 12)),
				M{"check": "C07", "part": "repeated-actors", "scenario": sc.Name, "body": sc.Body})
		}
	}
	res.Evaluations += nMut + nLong
	res.Extra["long_actor_list_requests"] = nLong
	res.Extra["unusual_body_requests"] = nMut
	return res.Finish()
}

func callNames(log []ap.Call, n int) []string {
	var o []string
	for i, c := range log {
		if i >= n {
			o = append(o, "...")
			break
		}
		o = append(o, c.Op)
	}
	return o
}

var _ = mc.KFault
