package checks

import (
	"encoding/json"
	"fmt"
	"os"
	"sort"
	"strings"
	"sync"
	"time"

	"github.com/go-fed/activity/pub"

	ap "verif/apmodel"
	"verif/mc"
)

// ConcScenario is a set of requests handled concurrently by one Actor over one world.
type ConcScenario struct {
	Name  string
	Reqs  []*Scenario
	Tweak func(a *ap.App)
	// DupID, if set, is an activity id delivered several times: it must be in each inbox once,
	// have its callbacks resolved at most once per inbox and be forwarded at most once.
	DupID string
}

func (cs *ConcScenario) world() *ap.App {
	a := BaseWorld()
	if cs.Tweak != nil {
		cs.Tweak(a)
	}
	return a
}

type concOut struct {
	app   *ap.App
	sched *mc.Sched
	outs  []*RunOut
}

// runConc executes the scenario once under the cooperative scheduler.
func (cs *ConcScenario) runConc(x *mc.Exec) *concOut {
	a := cs.world()
	a.X = x
	a.Blocking = true
	s := mc.NewSched(x)
	a.S = s
	s.KeyFn = a.StateHash
	co := &concOut{app: a, sched: s, outs: make([]*RunOut, len(cs.Reqs))}
	for i, rq := range cs.Reqs {
		i, rq := i, rq
		req := a.NewReq(nil)
		s.Go(rq.Name, func(t *mc.T) { co.outs[i] = rq.OnReq(a, t, req) })
	}
	s.Run()
	return co
}

// runSeq executes the requests one after another in the given order (reference).
func (cs *ConcScenario) runSeq(order []int) *concOut {
	a := cs.world()
	co := &concOut{app: a, outs: make([]*RunOut, len(cs.Reqs))}
	reqs := make([]*ap.Req, len(cs.Reqs))
	for i := range cs.Reqs {
		reqs[i] = a.NewReq(nil)
	}
	for _, i := range order {
		co.outs[i] = cs.Reqs[i].OnReq(a, nil, reqs[i])
	}
	return co
}

func perms(n int) [][]int {
	if n == 1 {
		return [][]int{{0}}
	}
	var out [][]int
	for _, p := range perms(n - 1) {
		for pos := 0; pos <= len(p); pos++ {
			q := append(append(append([]int{}, p[:pos]...), n-1), p[pos:]...)
			out = append(out, q)
		}
	}
	return out
}

// dupCheck verifies the duplicate-delivery clauses on a finished execution.
func (cs *ConcScenario) dupCheck(a *ap.App) []string {
	if cs.DupID == "" {
		return nil
	}
	var bad []string
	for box, items := range a.Inboxes {
		n := 0
		for _, it := range items {
			if it == cs.DupID {
				n++
			}
		}
		if n > 1 {
			bad = append(bad, fmt.Sprintf("duplicate-in-inbox|%d copies in %s", n, box))
		}
	}
	// side effects attempted at most once per inbox: callbacks are resolved only for new ids
	perInbox := map[string]int{}
	for i, r := range a.Reqs {
		if i >= len(cs.Reqs) || cs.Reqs[i].Entry != "PostInbox" || cs.Reqs[i].Body["id"] != cs.DupID {
			continue
		}
		for _, c := range a.Log {
			if c.Req == r.ID && c.Op == "Fed.FederatingCallbacks" {
				perInbox[cs.Reqs[i].URL]++
			}
		}
	}
	for box, n := range perInbox {
		if n > 1 {
			bad = append(bad, fmt.Sprintf("side-effects-twice|%d times for %s", n, box))
		}
	}
	fw := 0
	for _, d := range a.Deliveries {
		if strings.HasSuffix(d.Box, "/inbox") && strings.Contains(string(d.Payload), `"id":"`+cs.DupID+`"`) {
			fw++
		}
	}
	if fw > 1 {
		bad = append(bad, fmt.Sprintf("forwarded-twice|%d forwards", fw))
	}
	return bad
}

func like(id, actor, obj string) M { return Doc("Like", id, "actor", actor, "object", obj) }

func inReq(name, box string, body M) *Scenario {
	return &Scenario{Name: name, Kind: ap.Both, Entry: "PostInbox", URL: box, Body: body}
}
func outReq(name, box string, body M) *Scenario {
	return &Scenario{Name: name, Kind: ap.Both, Entry: "PostOutbox", URL: box, Body: body}
}

// ConcCorpus lists the concurrency scenarios; ids are forced to collide.
func ConcCorpus(thorough bool) []*ConcScenario {
	wrapped := func(a *ap.App) { a.Callbacks = ap.CBWrapped }
	accept := func(a *ap.App) { a.OnFollow = pub.OnFollowAutomaticallyAccept }
	fwdBody := func(id string, to L) M {
		return Doc("Create", id, "actor", Carol, "to", to, "object",
			Emb("Note", id+"/n", "attributedTo", Carol, "content", "x", "inReplyTo", Note1))
	}
	cs := []*ConcScenario{
		{Name: "dup-like-x2", DupID: RAct, Tweak: wrapped, Reqs: []*Scenario{
			inReq("like", inbox(Alice), like(RAct, Carol, Note1)), inReq("like-again", inbox(Alice), like(RAct, Carol, Note1))}},
		{Name: "two-likes-one-object", Reqs: []*Scenario{
			inReq("like1", inbox(Alice), like(RAct, Carol, Note1)), inReq("like2", inbox(Alice), like(RAct2, Dave, Note1))}},
		{Name: "like+announce-one-object", Reqs: []*Scenario{
			inReq("like", inbox(Alice), like(RAct, Carol, Note2)), inReq("announce", inbox(Bob), Doc("Announce", RAct2, "actor", Dave, "object", Note2))}},
		{Name: "two-follows-autoaccept", Tweak: accept, Reqs: []*Scenario{
			inReq("follow1", inbox(Alice), Doc("Follow", RAct, "actor", Carol, "object", Alice)),
			inReq("follow2", inbox(Alice), Doc("Follow", RAct2, "actor", Dave, "object", Alice))}},
		{Name: "two-adds-one-collection", Reqs: []*Scenario{
			inReq("add1", inbox(Alice), Doc("Add", RAct, "actor", Carol, "object", RNote, "target", Col1)),
			inReq("add2", inbox(Bob), Doc("Add", RAct2, "actor", Dave, "object", RNote2, "target", L{OCol1, Col1}))}},
		{Name: "two-adds-crossed-targets", Reqs: []*Scenario{
			inReq("add1", inbox(Alice), Doc("Add", RAct, "actor", Carol, "object", RNote, "target", L{Col1, OCol1})),
			inReq("add2", inbox(Bob), Doc("Add", RAct2, "actor", Dave, "object", RNote2, "target", L{OCol1, Col1}))}},
		{Name: "two-notes-one-outbox", Reqs: []*Scenario{
			outReq("note1", outbox(Alice), Doc("Note", "", "content", "one", "to", Carol)),
			outReq("note2", outbox(Alice), Doc("Note", "", "content", "two", "to", Dave))}},
		{Name: "forward-opposite-order", Reqs: []*Scenario{
			inReq("create1", inbox(Alice), fwdBody(RAct, L{Col1, OCol1})),
			inReq("create2", inbox(Bob), fwdBody(RAct2, L{OCol1, Col1}))}},
		{Name: "accept-races-client-follow", Reqs: []*Scenario{
			outReq("follow", outbox(Alice), Doc("Follow", "", "actor", Alice, "object", Carol, "to", Carol)),
			inReq("accept", inbox(Alice), Doc("Accept", RAct, "actor", Carol, "object",
				Emb("Follow", "https://l.example/id/r0-1", "actor", Alice, "object", Carol)))}},
		{Name: "dup-to-two-inboxes-forward", DupID: RAct, Reqs: []*Scenario{
			inReq("create@alice", inbox(Alice), fwdBody(RAct, L{Col1})),
			inReq("create@bob", inbox(Bob), fwdBody(RAct, L{Col1}))}},
		{Name: "dup-forward-one-inbox", DupID: RAct, Tweak: wrapped, Reqs: []*Scenario{
			inReq("create", inbox(Alice), fwdBody(RAct, L{OCol1})),
			inReq("create-again", inbox(Alice), fwdBody(RAct, L{OCol1}))}},
		{Name: "client-update-races-like", Reqs: []*Scenario{
			outReq("update", outbox(Alice), Doc("Update", "", "actor", Alice, "object", Emb("Note", Note1, "content", "edited"))),
			inReq("like", inbox(Alice), like(RAct, Carol, Note1))}},
		{Name: "two-client-likes", Reqs: []*Scenario{
			outReq("like1", outbox(Alice), Doc("Like", "", "actor", Alice, "object", RNote)),
			outReq("like2", outbox(Alice), Doc("Like", "", "actor", Alice, "object", RNote2))}},
		{Name: "remove-races-add", Reqs: []*Scenario{
			inReq("remove", inbox(Alice), Doc("Remove", RAct, "actor", Carol, "object", Dave, "target", Col1)),
			inReq("add", inbox(Bob), Doc("Add", RAct2, "actor", Dave, "object", RNote, "target", Col1))}},
		// three threads
		{Name: "dup-like-x3", DupID: RAct, Tweak: wrapped, Reqs: []*Scenario{
			inReq("like", inbox(Alice), like(RAct, Carol, Note1)), inReq("like-again", inbox(Alice), like(RAct, Carol, Note1)),
			inReq("like-third", inbox(Alice), like(RAct, Carol, Note1))}},
		{Name: "three-likes-one-object", Reqs: []*Scenario{
			inReq("like1", inbox(Alice), like(RAct, Carol, Note1)), inReq("like2", inbox(Alice), like(RAct2, Dave, Note1)),
			inReq("like3", inbox(Bob), like("https://r2.example/a/3", Erin, Note1))}},
		{Name: "three-notes-one-outbox", Reqs: []*Scenario{
			outReq("note1", outbox(Alice), Doc("Note", "", "content", "one")),
			outReq("note2", outbox(Alice), Doc("Note", "", "content", "two")),
			outReq("note3", outbox(Alice), Doc("Note", "", "content", "three"))}},
	}
	return cs
}

type c08res struct {
	Name          string         `json:"name"`
	Execs         int            `json:"execs"`
	States        int            `json:"states"`
	Transitions   int            `json:"transitions"`
	Pruned        int            `json:"pruned"`
	Finals        map[string]int `json:"finals"`  // multiset-canonical final states (hashed)
	Ordered       map[string]int `json:"ordered"` // order-sensitive final states (hashed)
	Exhaustive    bool           `json:"exhaustive"`
	Bound         int            `json:"bound"`
	Viols         []Violation    `json:"viols"`
	Sample        interface{}    `json:"sample"`
	SeqStates     int            `json:"seq_states"`
	Wall          float64        `json:"wall"`
	Deterministic bool           `json:"deterministic"`
}

func exploreConc(cs *ConcScenario, bound int, deadline time.Time) *c08res {
	t0 := time.Now()
	r := &c08res{Name: cs.Name, Finals: map[string]int{}, Ordered: map[string]int{}, Bound: bound, Deterministic: true}
	// sequential reference: every order
	ref := map[string][]int{}
	for _, p := range perms(len(cs.Reqs)) {
		co := cs.runSeq(p)
		ref[co.app.MultisetCanonical()] = p
		for _, bad := range cs.dupCheck(co.app) {
			r.Viols = append(r.Viols, Violation{Key: "sequential|" + strings.SplitN(bad, "|", 2)[0],
				What:   fmt.Sprintf("scenario %s, sequential order %v: %s", cs.Name, p, bad),
				Replay: M{"check": "C08", "scenario": cs.Name, "sequential_order": p}})
		}
	}
	r.SeqStates = len(ref)
	// determinism gate: the default schedule twice
	t1 := cs.runConc(mc.NewExec(nil))
	t2 := cs.runConc(mc.NewExec(nil))
	if strings.Join(t1.sched.Trace, ";") != strings.Join(t2.sched.Trace, ";") || t1.app.Canonical() != t2.app.Canonical() {
		r.Deterministic = false
		r.Exhaustive = false
		return r
	}
	e := &mc.Explorer{Prune: true, Deadline: deadline}
	e.Budget = [3]int{bound, 0, 0}
	e.Run = func(x *mc.Exec) bool {
		co := cs.runConc(x)
		rep := func() M {
			return M{"check": "C08", "scenario": cs.Name, "choices": x.Choices(), "schedule": co.sched.Trace}
		}
		if co.sched.Deadlock {
			var waits, holds []string
			self := false
			for _, q := range co.app.Reqs {
				if q.T == nil {
					continue
				}
				for id, n := range q.Held {
					if n > 0 {
						holds = append(holds, NormSite(q.Site[id])+"@"+collClass(id))
					}
				}
			}
			for i, q := range co.app.Reqs {
				if co.outs[i] == nil && q.WaitSite != "" { // unfinished
					waits = append(waits, NormSite(q.WaitSite)+"@"+collClass(q.WaitID))
				}
			}
			_ = self
			sort.Strings(waits)
			sort.Strings(holds)
			key := fmt.Sprintf("deadlock|wait=%s|hold=%s", strings.Join(uniq(waits), ","), strings.Join(uniq(holds), ","))
			r.Viols = append(r.Viols, Violation{Key: key, What: fmt.Sprintf("scenario %s deadlocks: %s", cs.Name, co.sched.DeadlockInfo), Replay: rep()})
			r.Finals["<deadlock>"]++
			return true
		}
		if co.sched.HorizonHit {
			r.Viols = append(r.Viols, Violation{Key: "no-return|" + cs.Name, What: "a request exceeded the seam-call horizon", Replay: rep()})
			return true
		}
		for _, t := range co.sched.Threads() {
			if t.Panic != nil {
				r.Viols = append(r.Viols, Violation{Key: fmt.Sprintf("panic|%v", t.Panic), What: fmt.Sprintf("scenario %s: request %s panicked: %v", cs.Name, t.Name, t.Panic), Replay: rep()})
				return true
			}
		}
		for i, q := range co.app.Reqs {
			for _, v := range q.Violations {
				r.Viols = append(r.Viols, Violation{Key: fmt.Sprintf("lock-discipline|%s|site=%s", v.Kind, NormSite(v.Site)),
					What: fmt.Sprintf("scenario %s request %d: %s", cs.Name, i, v.String()), Replay: rep()})
			}
		}
		final := co.app.MultisetCanonical()
		r.Finals[fmt.Sprint(mc.HashStr(final))]++
		r.Ordered[fmt.Sprint(mc.HashStr(co.app.Canonical()))]++
		if _, ok := ref[final]; !ok && len(entryDiff(final, ref)) == 0 {
			// every entry (collection / object / box) holds what SOME sequential order gives it, but
			// no single order explains all of them: requests updating two entries in opposite order.
			// The statement speaks of each collection; atomicity across entries is not promised.
			r.Finals["<per-entry-only>"]++
		} else if !ok {
			r.Viols = append(r.Viols, Violation{Key: "lost-update|" + diffKey(final, ref),
				What: fmt.Sprintf("scenario %s: final collections equal no sequential execution of the same requests; schedule %v; differing entries: %s",
					cs.Name, co.sched.Trace, diffDetail(final, ref)), Replay: rep()})
		}
		for _, bad := range cs.dupCheck(co.app) {
			r.Viols = append(r.Viols, Violation{Key: strings.SplitN(bad, "|", 2)[0], What: fmt.Sprintf("scenario %s: %s", cs.Name, bad), Replay: rep()})
		}
		// what one request must never do stays true whatever runs next to it: a Block is not delivered
		for _, d := range co.app.Deliveries {
			var pm map[string]interface{}
			if json.Unmarshal(d.Payload, &pm) == nil && pm["type"] == "Block" {
				r.Viols = append(r.Viols, Violation{Key: "block-delivered-under-concurrency", What: fmt.Sprintf("scenario %s: a Block was handed to the transport (recipients %v); schedule %v", cs.Name, d.To, co.sched.Trace), Replay: rep()})
			}
		}
		if r.Sample == nil && len(x.Choices()) > 0 && len(co.sched.Trace) > 6 {
			r.Sample = M{"scenario": cs.Name, "schedule": co.sched.Trace}
		}
		return true
	}
	e.Explore()
	r.Execs, r.States, r.Transitions, r.Pruned, r.Exhaustive = e.Execs, len(e.States), e.Transitions, e.Pruned, e.Exhaustive
	r.Wall = time.Since(t0).Seconds()
	return r
}

// entryDiff returns the lines (entries) of the final state that no sequential reference has, and the
// ids every reference has but the final state lacks.
func entryDiff(final string, ref map[string][]int) []string {
	any := map[string]bool{}
	idCount := map[string]int{}
	lineID := func(l string) string {
		f := strings.SplitN(l, " = ", 2)
		return f[0]
	}
	for r := range ref {
		for _, l := range strings.Split(r, "\n") {
			if l == "" {
				continue
			}
			any[l] = true
			idCount[lineID(l)]++
		}
	}
	var bad []string
	have := map[string]bool{}
	for _, l := range strings.Split(final, "\n") {
		if l == "" {
			continue
		}
		have[lineID(l)] = true
		if !any[l] {
			bad = append(bad, l)
		}
	}
	for id, n := range idCount {
		if n == len(ref) && !have[id] {
			bad = append(bad, "missing "+id)
		}
	}
	return bad
}

func uniq(s []string) []string {
	var o []string
	for i, x := range s {
		if i == 0 || x != s[i-1] {
			o = append(o, x)
		}
	}
	return o
}

// diffKey names the entries (collection ids) in which the final state differs from the closest reference.
func diffKey(final string, ref map[string][]int) string {
	ids := diffIDs(final, ref)
	return strings.Join(ids, ",")
}

func diffIDs(final string, ref map[string][]int) []string {
	best := []string(nil)
	fl := strings.Split(final, "\n")
	for r := range ref {
		rl := map[string]bool{}
		for _, l := range strings.Split(r, "\n") {
			rl[l] = true
		}
		var d []string
		for _, l := range fl {
			if !rl[l] {
				f := strings.Fields(l)
				if len(f) >= 2 {
					d = append(d, collClass(f[1]))
				}
			}
		}
		if best == nil || len(d) < len(best) {
			best = d
		}
	}
	sort.Strings(best)
	return uniq(best)
}

func diffDetail(final string, ref map[string][]int) string {
	for r := range ref {
		rl := map[string]bool{}
		for _, l := range strings.Split(r, "\n") {
			rl[l] = true
		}
		var d []string
		for _, l := range strings.Split(final, "\n") {
			if !rl[l] {
				d = append(d, l)
			}
		}
		s := strings.Join(d, " || ")
		if len(s) > 600 {
			s = s[:600]
		}
		return s
	}
	return ""
}

// collClass maps an id to the role it plays, so that keys do not depend on generated ids.
func collClass(id string) string {
	switch {
	case strings.HasSuffix(id, "/inbox"):
		return "inbox"
	case strings.HasSuffix(id, "/outbox"):
		return "outbox"
	case strings.HasSuffix(id, "/followers"), strings.HasSuffix(id, "/following"), strings.HasSuffix(id, "/liked"):
		return id[strings.LastIndex(id, "/")+1:]
	case strings.Contains(id, "/id/"):
		return "generated-id"
	case strings.Contains(id, "/c/"), strings.Contains(id, "/oc/"):
		return "collection"
	case strings.Contains(id, "/n/"):
		return "object"
	}
	return id
}

// C08 — concurrent requests lose no update and process a duplicate once.
func C08(tier string) int {
	res := NewResult("C08", tier, "model_checking")
	corpus := ConcCorpus(res.Thorough())
	type job struct {
		cs    *ConcScenario
		bound int
	}
	var jobs []job
	for _, cs := range corpus {
		b := -1 // unbounded for two threads
		if len(cs.Reqs) >= 3 {
			b = 2
			if res.Thorough() {
				b = 3
			}
		}
		jobs = append(jobs, job{cs, b})
	}
	// every pair of request kinds (a kind also with itself), two threads, unbounded
	for _, cs := range PairCorpus() {
		jobs = append(jobs, job{cs, -1})
	}
	// the same two local values named in opposite order by two requests of one kind
	for _, cs := range OrderCorpus() {
		jobs = append(jobs, job{cs, -1})
	}
	// thorough: every triple of state-changing request kinds, preemption bound 2
	if res.Thorough() {
		for _, cs := range TripleCorpus() {
			jobs = append(jobs, job{cs, 2})
		}
	} else {
		for _, cs := range QuickTripleCorpus() {
			jobs = append(jobs, job{cs, 2})
		}
	}
	budget := 150 * time.Second
	if res.Thorough() {
		budget = 25 * time.Minute
	}
	deadline := time.Now().Add(budget)
	outs := make([]*c08res, len(jobs))
	var mu sync.Mutex
	toolErr := false
	parallel(len(jobs), func(i int) {
		// one worker process per scenario, GOMAXPROCS=1: goroutine hand-offs stay on one OS thread
		var o c08res
		left := int(time.Until(deadline).Seconds())
		err := worker(&o, "C08worker", jobs[i].cs.Name, fmt.Sprint(jobs[i].bound), fmt.Sprint(left))
		mu.Lock()
		defer mu.Unlock()
		if err != nil && strings.Contains(err.Error(), "HANG|") {
			h := strings.SplitN(err.Error()[strings.Index(err.Error(), "HANG|"):], "|", 4)
			res.Violate(fmt.Sprintf("no-return|%s|%s", h[1], h[2]), fmt.Sprintf("scenario %s: a request did not return within %v and makes no seam call (spinning in %s)", jobs[i].cs.Name, watchdog, h[2]),
				M{"check": "C08", "scenario": jobs[i].cs.Name, "part": "hang"})
			outs[i] = &c08res{Name: jobs[i].cs.Name, Bound: jobs[i].bound}
			res.Exhaustive = false
			return
		}
		if err != nil {
			fmt.Fprintf(os.Stderr, "C08 worker %s: %v\n", jobs[i].cs.Name, err)
			toolErr = true
			outs[i] = &c08res{Name: jobs[i].cs.Name, Bound: jobs[i].bound}
			return
		}
		outs[i] = &o
	})
	if toolErr {
		res.Exhaustive = false
	}
	per := M{}
	for _, o := range outs {
		res.Evaluations += o.Execs
		res.Traces += o.Execs
		res.States += o.States
		res.Transitions += o.Transitions
		if !o.Exhaustive {
			res.Exhaustive = false
		}
		if !o.Deterministic {
			fmt.Printf("C08: scenario %s is not deterministic under replay; skipped (tool problem, no verdict)\n", o.Name)
		}
		for f := range o.Ordered {
			res.Nontrivial[o.Name+"|"+f] = struct{}{}
		}
		for _, v := range o.Viols {
			res.Violate(v.Key, v.What, v.Replay)
		}
		if o.Sample != nil {
			res.Sample(o.Sample)
		}
		bound := "unbounded"
		if o.Bound >= 0 {
			bound = fmt.Sprintf("<=%d preemptions", o.Bound)
		}
		per[o.Name] = M{"executions": o.Execs, "states": o.States, "transitions": o.Transitions, "pruned_alternatives": o.Pruned,
			"distinct_final_states": len(o.Finals), "distinct_final_states_order_sensitive": len(o.Ordered), "sequential_reference_states": o.SeqStates, "bound_completed": bound,
			"exhaustive": o.Exhaustive, "wall_s": o.Wall}
		res.Outcome(fmt.Sprintf("%s:%d-ordered-final-states", o.Name, len(o.Ordered)))
	}
	res.Extra["scenarios"] = per
	// sequential histories of repeated deliveries, the first of them under every single (thorough:
	// double) fault
	fb := 1
	if res.Thorough() {
		fb = 2
	}
	redeliveryPart(res, fb)
	// supplementary free-running pass under the race detector (run.sh runs it and hands over the log)
	if rf := os.Getenv("VERIF_C08_RACE"); rf != "" {
		b, _ := os.ReadFile(rf)
		txt := string(b)
		res.Extra["race_pass"] = tail(strings.TrimSpace(txt), 200)
		if strings.Contains(txt, "DATA RACE") {
			res.Violate("race|data-race-reported", "the Go race detector reports a data race while requests run free on one Actor: "+tail(txt, 1500), M{"check": "C08", "part": "race", "log": rf})
		} else if strings.Contains(txt, "FAIL") {
			res.Violate("race|free-running-test-failed", "the free-running request test fails: "+tail(txt, 1500), M{"check": "C08", "part": "race", "log": rf})
		}
	}
	res.Rule = "hand-written collision scenarios plus EVERY unordered pair of 22 request kinds (among them an Add naming six objects) (each inbox / outbox activity type with a default effect, forwarding, GET entry points; a kind also paired with itself; quick: every triple of 4 kinds that change the same note / collection, thorough: every triple of the 13 state-changing kinds), all aimed at the same local objects; per scenario: 2-3 real request goroutines on one Actor under a cooperative scheduler; every Database/Transport/callback call is a scheduling point, application locks are blocking resources; 2-thread scenarios: all interleavings (visited-state pruning); 3-thread: all with <= 2 (quick) / <= 3 (thorough) preemptions; oracle: no deadlock, every request returns, final collections (as multisets) equal those of some sequential order of the same requests, a duplicated id is in each inbox once / resolved once per inbox / forwarded once; two scenarios per multi-valued request kind naming the same two local values in opposite order; the per-entry form of the oracle is used (every entry equals that entry in some sequential order); plus sequential redelivery histories: every inbox scenario of the corpus and of the generated addressing family delivered 2-3 times on one application, the FIRST delivery under every choice of <= 1 (thorough: 2) failing seam calls: in the inbox once, side effects resolved at most once, no collection holds the id twice, forwarded at most once, and neither a redelivery nor a further activity of the same shape asks for a lock the failed first delivery returned with (it would never complete); distinct_nontrivial = distinct (scenario, final state) pairs"
	res.Assumptions = []string{"application Lock/Unlock give mutual exclusion per id", "interleaving granularity = seam calls; unsynchronised accesses between them are looked for by the supplementary free-running -race pass only",
		"library code is deterministic given the results it observes (enforced: replay divergence is a hard error)"}
	return res.Finish()
}

// ReplayC08 re-executes a recorded schedule.
func ReplayC08(rep M) {
	name, _ := rep["scenario"].(string)
	for _, cs := range ConcCorpus(true) {
		if cs.Name != name {
			continue
		}
		if so, ok := rep["sequential_order"].([]interface{}); ok {
			var p []int
			for _, c := range so {
				p = append(p, int(c.(float64)))
			}
			co := cs.runSeq(p)
			fmt.Println(co.app.Canonical())
			fmt.Println(cs.dupCheck(co.app))
			return
		}
		var choices []int
		for _, c := range rep["choices"].([]interface{}) {
			choices = append(choices, int(c.(float64)))
		}
		co := cs.runConc(mc.NewExec(choices))
		for _, s := range co.sched.Trace {
			fmt.Println("  ", s)
		}
		fmt.Println("deadlock:", co.sched.Deadlock, co.sched.DeadlockInfo)
		fmt.Println(co.app.Canonical())
		return
	}
	fmt.Println("unknown scenario", name)
}

// C08Worker explores one scenario and prints its result as JSON (run with GOMAXPROCS=1).
func C08Worker(args []string) int {
	var bound, secs int
	fmt.Sscan(args[1], &bound)
	fmt.Sscan(args[2], &secs)
	for _, cs := range append(append(append(ConcCorpus(true), PairCorpus()...), OrderCorpus()...), TripleCorpus()...) {
		if cs.Name == args[0] {
			o := exploreConc(cs, bound, time.Now().Add(time.Duration(secs)*time.Second))
			json.NewEncoder(os.Stdout).Encode(o)
			return 0
		}
	}
	return 2
}

// Perms, World and RunSeq are exported for the free-running race pass (racetest).
func Perms(n int) [][]int { return perms(n) }

// World builds the scenario's initial application state.
func (cs *ConcScenario) World() *ap.App { return cs.world() }

// RunSeq runs the requests sequentially in the given order and returns the final state.
func (cs *ConcScenario) RunSeq(order []int) *ap.App { return cs.runSeq(order).app }
