package checks

import (
	"encoding/json"
	"fmt"
	"sort"
	"strings"
	"sync"

	ap "verif/apmodel"
	"verif/mc"
)

// ---- the federation graph description (independent of library values) -------------------------

const (
	Frank     = "https://r2.example/u/frank" // stored inbox == remote inbox
	gK1       = "https://r1.example/c/k1"
	gK2       = "https://r1.example/oc/k2"
	gP1       = "https://r1.example/c/k1?page=1"
	gMissing  = "https://r9.example/u/missing"
	gGarbled  = "https://r9.example/u/garbled"
	gUnknown  = "https://r9.example/u/unknown-type"
	gShape    = "https://r1.example/c/shape"
	gActorV   = "https://r3.example/u/variant"
	pubAS     = "as:Public"
	daveOther = "https://r2.example/u/dave/remote-inbox" // what Dave's remote document says
)

type gnode struct {
	kind    string   // actor | collection | missing | garbled | unknown | public
	inbox   string   // actor: inbox in the remote document
	stored  string   // actor: inbox the application has stored ("" = none)
	members []string // collection members
	ordered bool
	page    bool
	doc     M      // actor: the whole remote document (actor document variants family); nil = a plain Person
	typ     string // explicit document type (collection shapes family); "" = derived from ordered / page
	shape   int    // 0: member list as given; 1: the items member is absent altogether; 2: an empty array
}

type graph map[string]*gnode

func baseGraph(k1 []string) graph {
	return graph{
		Carol:    {kind: "actor", inbox: Carol + "/inbox"},
		Erin:     {kind: "actor", inbox: Erin + "/inbox"},
		Dave:     {kind: "actor", inbox: daveOther, stored: Dave + "/inbox"},
		Frank:    {kind: "actor", inbox: Frank + "/inbox", stored: Frank + "/inbox"},
		Alice:    {kind: "actor", inbox: Alice + "/inbox"},
		gK1:      {kind: "collection", members: k1},
		gK2:      {kind: "collection", members: []string{Erin, gK1}, ordered: true},
		gP1:      {kind: "collection", members: []string{Frank, gP1, gK2}, page: true},
		gMissing: {kind: "missing"},
		gGarbled: {kind: "garbled"},
		gUnknown: {kind: "unknown"},
		Public:   {kind: "public"},
		pubAS:    {kind: "public"},
	}
}

const gChainEnd = "https://r2.example/u/chain-end"

func gChain(i int) string { return fmt.Sprintf("https://r2.example/c/chain/%d", i) }

// install puts the graph into the application model.
func (g graph) install(a *ap.App) {
	for id, n := range g {
		switch n.kind {
		case "actor":
			d := person(id)
			d["inbox"] = n.inbox
			if n.doc != nil {
				d = n.doc
			}
			a.PutRemote(id, d)
			if n.stored != "" && n.stored != id+"/inbox" {
				if a.SharedInbox == nil {
					a.SharedInbox = map[string]string{}
				}
				a.SharedInbox[id] = n.stored
			} else if n.stored != "" {
				a.StoredInbox[id] = true
			} else {
				delete(a.StoredInbox, id)
			}
		case "collection":
			items := L{}
			for _, m := range n.members {
				items = append(items, m)
			}
			typ, member := "Collection", "items"
			if n.ordered {
				typ, member = "OrderedCollection", "orderedItems"
			}
			if n.page {
				typ = "CollectionPage"
			}
			if n.typ != "" {
				typ, member = n.typ, "items"
				if strings.HasPrefix(typ, "Ordered") {
					member = "orderedItems"
				}
			}
			switch n.shape {
			case 1: // the usual paged collection document: no items member at all
				a.PutRemote(id, Doc(typ, id, "totalItems", 2, "first", id+"?page=1"))
			case 2:
				a.PutRemote(id, Doc(typ, id, member, L{}))
			default:
				a.PutRemote(id, Doc(typ, id, member, items))
			}
		case "garbled":
			a.Remote[id] = []byte("{\"type\":\"Person\",\"inbox\":")
		case "unknown":
			a.PutRemote(id, Doc("Frobnicate", id, "inbox", id+"/inbox"))
		case "missing", "public":
			delete(a.Remote, id)
		}
	}
}

// expected computes, from the description only, the inbox set and the IRIs that may be dereferenced.
func (g graph) expected(entries []string, limit int, sender string) (inboxes map[string]bool, mayDeref map[string]bool) {
	inboxes, mayDeref = map[string]bool{}, map[string]bool{}
	var expand func(id string, level int)
	expand = func(id string, level int) {
		if limit > 0 && level > limit {
			return
		}
		n := g[id]
		if n == nil {
			n = &gnode{kind: "missing"}
		}
		mayDeref[id] = true
		switch n.kind {
		case "actor":
			inboxes[n.inbox] = true
		case "collection":
			for _, m := range n.members {
				expand(m, level+1)
			}
		}
	}
	for _, e := range entries {
		n := g[e]
		if n != nil && n.kind == "public" {
			continue
		}
		if n != nil && n.kind == "actor" && n.stored != "" {
			inboxes[n.stored] = true // the application's stored inbox wins; the actor is not dereferenced
			continue
		}
		expand(e, 1)
	}
	if s := g[sender]; s != nil {
		delete(inboxes, s.inbox)
		if s.stored != "" {
			delete(inboxes, s.stored)
		}
	}
	return
}

// c02actorDocs: the remote document of the actor gActorV in the shapes real servers publish. In every
// one of them the actor's inbox is gActorV + "/inbox".
func c02actorDocs() []struct {
	name string
	doc  M
} {
	id, in := gActorV, gActorV+"/inbox"
	base := func(typ interface{}) M {
		d := person(id)
		d["type"] = typ
		return d
	}
	with := func(d M, kv ...interface{}) M {
		for i := 0; i+1 < len(kv); i += 2 {
			d[kv[i].(string)] = kv[i+1]
		}
		return d
	}
	sec := L{AS, "https://w3id.org/security/v1"}
	return []struct {
		name string
		doc  M
	}{
		{"Service", base("Service")}, {"Group", base("Group")}, {"Organization", base("Organization")}, {"Application", base("Application")},
		{"two-types-known-first", base(L{"Person", "https://ext.example/ns#Bot"})},
		{"two-types-unknown-first", base(L{"https://ext.example/ns#Bot", "Person"})},
		{"inbox-embedded-collection", with(base("Person"), "inbox", Emb("OrderedCollection", in, "totalItems", 3))},
		{"inbox-embedded-page", with(base("Person"), "inbox", Emb("OrderedCollectionPage", in))},
		{"shared-inbox-endpoint", with(base("Person"), "endpoints", M{"sharedInbox": "https://r3.example/shared-inbox-must-not-be-used"})},
		{"public-key-and-security-context", with(base("Person"), "@context", sec, "publicKey", M{"id": id + "#main-key", "owner": id, "publicKeyPem": "-----BEGIN PUBLIC KEY-----"})},
		{"mastodon-like", with(base("Person"), "@context", L{AS, "https://w3id.org/security/v1", M{"toot": "http://joinmastodon.org/ns#", "featured": "toot:featured", "discoverable": "toot:discoverable"}},
			"discoverable", true, "featured", id+"/featured", "manuallyApprovesFollowers", false, "url", "https://r3.example/@variant", "icon", Emb("Image", "", "url", "https://r3.example/a.png"),
			"attachment", L{M{"type": "PropertyValue", "name": "site", "value": "x"}}, "tag", L{})},
		{"unknown-members", with(base("Person"), "zzUnknown", M{"a": L{1.0, nil}}, "inboxx", "https://r3.example/decoy-inbox")},
		{"aliased-context", func() M {
			d := M{"@context": M{"https://www.w3.org/ns/activitystreams": "as"}, "id": id, "type": "as:Person", "as:inbox": in, "as:outbox": id + "/outbox", "as:preferredUsername": "variant"}
			return d
		}()},
	}
}

// ---- enumeration -------------------------------------------------------------------------------

type c02entry struct {
	id       string
	embedded bool
	form     int // 0: IRI / embedded Person; 1: embedded Mention naming the actor by href only; 2: embedded Link with id and a decoy href
}

func (e c02entry) json() interface{} {
	switch e.form {
	case 1:
		return M{"type": "Mention", "href": e.id, "name": "@someone"}
	case 2:
		return M{"type": "Link", "id": e.id, "href": gMissing + "/decoy-href"}
	}
	if e.embedded {
		return Emb("Person", e.id, "inbox", e.id+"/embedded-inbox-must-be-ignored")
	}
	return e.id
}

func (e c02entry) String() string {
	switch e.form {
	case 1:
		return "{Mention href=" + shortID(e.id) + "}"
	case 2:
		return "{Link id=" + shortID(e.id) + " href=decoy}"
	}
	if e.embedded {
		return "{" + shortID(e.id) + "}"
	}
	return shortID(e.id)
}

func shortID(id string) string {
	if i := strings.Index(id, "://"); i >= 0 {
		return id[i+3:]
	}
	return id
}

var c02alphabet = []c02entry{
	{id: Carol}, {id: Carol, embedded: true}, {id: Dave}, {id: Dave, embedded: true}, {id: Erin}, {id: Frank}, {id: gMissing}, {id: gGarbled}, {id: gUnknown},
	{id: gK1}, {id: gK2}, {id: gP1}, {id: Public}, {id: pubAS}, {id: Alice},
}

// reference spellings beyond IRI / embedded actor (a second, smaller family)
var c02spellings = []c02entry{{id: Carol, form: 1}, {id: Carol, form: 2}, {id: Dave, form: 1}, {id: Dave, form: 2}, {id: gK1, form: 1}, {id: gK1, form: 2}, {id: Alice, form: 1}, {id: Public, form: 1}}

var addrProps = []string{"to", "bto", "cc", "bcc", "audience"}

type c02case struct {
	actorDoc     int    // actor document variants family: 1-based index into c02actorDocs (0 = none)
	shapeTyp     string // collection shapes family: document type of the node gShape
	shape        int
	entries      []c02entry
	placement    int // 0: all in 'to'; 1: i-th entry into the i-th addressing property; 2: reversed properties
	k1           []string
	limit        int
	entry        string // Send | PostOutbox
	senderStored bool   // the application also answers InboxForActor for the sender itself
	chain        int    // nested-collection chain family: gChain(1) -> gChain(2) -> ... -> gChain(chain) -> Frank's sibling actor gChainEnd
	shared       int    // shared-inbox family: 1 = Carol+Erin share a stored inbox, 2 = Dave+Frank+Carol do, 3 = Carol+Erin publish the same inbox
}

func (c c02case) String() string {
	var es []string
	for _, e := range c.entries {
		es = append(es, e.String())
	}
	var k []string
	for _, m := range c.k1 {
		k = append(k, shortID(m))
	}
	ss := ""
	if c.actorDoc > 0 {
		ss = " V=" + c02actorDocs()[c.actorDoc-1].name
	}
	if c.shapeTyp != "" {
		ss = fmt.Sprintf(" S=%s/%s", c.shapeTyp, []string{"one-member", "no-items-member", "empty-items", "two-members", "three-members", "four-members-one-repeated"}[c.shape])
	}
	if c.chain > 0 {
		ss += fmt.Sprintf(" chain-of-%d-collections", c.chain)
	}
	if c.senderStored {
		ss += " sender-inbox-stored"
	}
	if c.shared > 0 {
		ss += " " + []string{"", "carol+erin-share-a-stored-inbox", "dave+frank+carol-share-a-stored-inbox", "carol+erin-publish-one-inbox",
			"carol+erin-publish-inboxes-differing-in-the-query", "carol+frank-stored-inboxes-differing-in-the-fragment", "carol-inbox-is-the-senders-plus-a-query"}[c.shared]
	}
	return fmt.Sprintf("%s placement=%d entries=[%s] K1=[%s] limit=%d%s", c.entry, c.placement, strings.Join(es, " "), strings.Join(k, " "), c.limit, ss)
}

func (c c02case) body() M {
	d := Doc("Announce", "", "actor", Alice, "object", RNote)
	lists := map[string]L{}
	for i, e := range c.entries {
		p := "to"
		switch c.placement {
		case 1:
			p = addrProps[i%5]
		case 2:
			p = addrProps[4-i%5]
		}
		lists[p] = append(lists[p], e.json())
	}
	for p, l := range lists {
		d[p] = l
	}
	return d
}

// order in which the library concatenates the addressing properties
func (c c02case) concatenated() []string {
	var out []string
	for _, p := range addrProps {
		for i, e := range c.entries {
			q := "to"
			switch c.placement {
			case 1:
				q = addrProps[i%5]
			case 2:
				q = addrProps[4-i%5]
			}
			if q == p {
				out = append(out, e.id)
			}
		}
	}
	return out
}

func seqs(alpha []c02entry, max int) [][]c02entry {
	out := [][]c02entry{{}}
	prev := [][]c02entry{{}}
	for l := 1; l <= max; l++ {
		var cur [][]c02entry
		for _, p := range prev {
			for _, a := range alpha {
				cur = append(cur, append(append([]c02entry{}, p...), a))
			}
		}
		out = append(out, cur...)
		prev = cur
	}
	return out
}

// C02 — federated delivery reaches exactly the addressed inboxes.
func C02(tier string) int {
	res := NewResult("C02", tier, "exploration")
	maxEntries, limits := 2, []int{1, 2, 3}
	members := []string{Carol, Erin, Frank, gK1, gK2, gP1, gMissing, Alice}
	var k1s [][]string
	k1s = append(k1s, []string{})
	for _, a := range members {
		k1s = append(k1s, []string{a})
	}
	if res.Thorough() {
		maxEntries, limits = 3, []int{1, 2, 3, 4}
		for _, a := range members {
			for _, b := range members {
				k1s = append(k1s, []string{a, b})
			}
		}
	} else {
		k1s = append(k1s, []string{Carol, gK2}, []string{gP1, Erin}, []string{gK1, Frank}, []string{gMissing, Carol}, []string{Carol, gMissing})
	}
	// collections of three and four members (a member missing in the middle, a repeated member, nested
	// collections between actors)
	k1s = append(k1s, []string{Carol, Erin, Frank}, []string{Carol, gMissing, Erin}, []string{Erin, gK2, Frank}, []string{Carol, Erin, Frank, Carol},
		[]string{Frank, gMissing, gP1, Erin}, []string{Alice, Carol, Erin, Frank})
	var cases []c02case
	touchesCollections := func(es []c02entry) bool {
		for _, e := range es {
			if e.id == gK1 || e.id == gK2 || e.id == gP1 {
				return true
			}
		}
		return false
	}
	for _, es := range seqs(c02alphabet, maxEntries) {
		for pl := 0; pl < 3; pl++ {
			if len(es) < 2 && pl > 0 {
				continue
			}
			ks, ls := k1s, limits
			if !touchesCollections(es) {
				ks, ls = k1s[:1], limits[:1] // the graph below the addressed actors is irrelevant
			}
			for _, k1 := range ks {
				for _, lim := range ls {
					cases = append(cases, c02case{entries: es, placement: pl, k1: k1, limit: lim, entry: "Send"})
					namesSender := false
					for _, e := range es {
						if e.id == Alice {
							namesSender = true
						}
					}
					for _, m := range k1 {
						if m == Alice && touchesCollections(es) {
							namesSender = true
						}
					}
					if namesSender {
						cases = append(cases, c02case{entries: es, placement: pl, k1: k1, limit: lim, entry: "Send", senderStored: true})
					}
				}
			}
		}
	}
	// client POST entry point (subset)
	for _, es := range seqs(c02alphabet, 2) {
		cases = append(cases, c02case{entries: es, placement: 1, k1: []string{Carol, gK2}, limit: 2, entry: "PostOutbox"})
		for _, e := range es {
			if e.id == Alice {
				cases = append(cases, c02case{entries: es, placement: 1, k1: []string{Carol, gK2}, limit: 2, entry: "PostOutbox", senderStored: true})
				break
			}
		}
	}
	// longer addressing lists over a reduced alphabet (two actors with an application-stored inbox, a
	// plain actor, a collection, an unreachable actor, the sender): every sequence of length 3 and 4
	long := []c02entry{{id: Carol}, {id: Dave}, {id: Frank}, {id: gK1}, {id: gMissing}, {id: Alice}}
	for _, es := range seqs(long, 4) {
		if len(es) < 3 {
			continue
		}
		cases = append(cases, c02case{entries: es, placement: 0, k1: []string{Erin, Dave}, limit: 2, entry: "Send"})
		if len(es) == 3 {
			cases = append(cases, c02case{entries: es, placement: 1, k1: []string{Erin, Dave}, limit: 2, entry: "Send"},
				c02case{entries: es, placement: 0, k1: []string{Erin, Dave}, limit: 1, entry: "PostOutbox"})
		}
	}
	// a chain of six nested collections ending in an actor, under every limit around its length and the
	// unlimited settings; members that cannot be fetched or parsed standing next to each other in K1
	for _, lim := range []int{0, -1, 3, 5, 6, 7, 8} {
		for _, ent := range []string{"Send", "PostOutbox"} {
			cases = append(cases, c02case{entries: []c02entry{{id: gChain(1)}}, k1: []string{Erin}, limit: lim, entry: ent, chain: 6},
				c02case{entries: []c02entry{{id: Carol}, {id: gChain(1)}, {id: gChain(4)}}, placement: 1, k1: []string{Erin}, limit: lim, entry: ent, chain: 6})
		}
	}
	for _, k1 := range [][]string{{Carol, gMissing, gGarbled, Erin}, {gMissing, gUnknown, Frank}, {gGarbled, gGarbled, gMissing, Erin, Carol}, {Carol, gMissing, gMissing, gMissing, Erin}} {
		for _, lim := range []int{2, 0} {
			cases = append(cases, c02case{entries: []c02entry{{id: gK1}}, k1: k1, limit: lim, entry: "Send"},
				c02case{entries: []c02entry{{id: Dave}, {id: gK1}}, placement: 1, k1: k1, limit: lim, entry: "PostOutbox"})
		}
	}
	// the unlimited settings of the depth limit (zero and negative) on graphs without a cycle
	for _, es := range seqs(c02alphabet, 2) {
		cyc := false
		for _, e := range es {
			if e.id == gP1 {
				cyc = true
			}
		}
		if cyc || !touchesCollections(es) {
			continue
		}
		for _, k1 := range k1s {
			acyclic := true
			for _, m := range k1 {
				if m == gK1 || m == gK2 || m == gP1 {
					acyclic = false
				}
			}
			if !acyclic {
				continue
			}
			for _, lim := range []int{0, -1} {
				cases = append(cases, c02case{entries: es, placement: 1, k1: k1, limit: lim, entry: "Send"})
			}
		}
	}
	// shared inboxes: several actors for which the application knows (or which publish) ONE inbox; every
	// addressing sequence of length 2-4 over the reduced alphabet
	for _, es := range seqs(long, 4) {
		if len(es) < 2 {
			continue
		}
		for sh := 1; sh <= 6; sh++ {
			if len(es) == 4 && sh >= 3 {
				continue
			}
			cases = append(cases, c02case{entries: es, placement: 0, k1: []string{Erin, Carol}, limit: 2, entry: "Send", shared: sh})
		}
	}
	// collection document shapes: each of the four collection types, with its items member absent (the
	// usual paged collection: totalItems + first), an empty array, one or two members; addressed
	// directly before / after a plain actor, or reached as the only member of K1
	for _, typ := range []string{"Collection", "OrderedCollection", "CollectionPage", "OrderedCollectionPage"} {
		for shape := 0; shape < 6; shape++ {
			for _, lim := range limits {
				for _, ent := range []string{"Send", "PostOutbox"} {
					X, C := c02entry{id: gShape}, c02entry{id: Carol}
					for _, es := range [][]c02entry{{X}, {X, C}, {C, X}, {C, X, {id: Dave}}} {
						cases = append(cases, c02case{shapeTyp: typ, shape: shape, entries: es, placement: 1, k1: []string{Erin}, limit: lim, entry: ent})
					}
					cases = append(cases, c02case{shapeTyp: typ, shape: shape, entries: []c02entry{{id: gK1}, C}, k1: []string{gShape}, limit: lim, entry: ent},
						c02case{shapeTyp: typ, shape: shape, entries: []c02entry{{id: gK1}}, k1: []string{Erin, gShape}, limit: lim, entry: ent})
				}
			}
		}
	}
	// actor documents as remote servers really publish them
	for di := range c02actorDocs() {
		for _, lim := range limits[:2] {
			V := c02entry{id: gActorV}
			for _, es := range [][]c02entry{{V}, {V, {id: Carol}}, {{id: Dave}, V}} {
				cases = append(cases, c02case{actorDoc: di + 1, entries: es, placement: 1, k1: []string{Erin}, limit: lim, entry: "Send"})
			}
			cases = append(cases, c02case{actorDoc: di + 1, entries: []c02entry{{id: gK1}}, k1: []string{gActorV, Erin}, limit: lim, entry: "PostOutbox"})
		}
	}
	// reference spellings: an addressed entry written as an embedded Mention (href only) or as an embedded
	// Link carrying both id and a decoy href, alone and next to each entry of the main alphabet
	for _, sp := range c02spellings {
		for _, lim := range limits[:2] {
			cases = append(cases, c02case{entries: []c02entry{sp}, k1: []string{Carol, gK2}, limit: lim, entry: "Send"})
			for _, o := range c02alphabet {
				cases = append(cases, c02case{entries: []c02entry{sp, o}, placement: 1, k1: []string{Carol, gK2}, limit: lim, entry: "Send"},
					c02case{entries: []c02entry{o, sp}, placement: 0, k1: []string{Carol, gK2}, limit: lim, entry: "Send"})
			}
		}
		cases = append(cases, c02case{entries: []c02entry{sp, {id: Erin}}, placement: 1, k1: []string{Carol, gK2}, limit: 2, entry: "PostOutbox"})
	}
	res.Rule = fmt.Sprintf("federation graphs over {dereferencable actor, embedded actor, actor with stored inbox (remote inbox differing), actor with stored = remote inbox, missing, garbled, unknown-type, Collection K1 with every member sequence of length <= %d over 8 nodes and six member sequences of length 3-4, OrderedCollection K2 = [actor, K1], page P1 = [actor, P1, K2] (cycles), Public in both IRI spellings, the sender (named directly or as a member; with and without an inbox of its own stored by the application)}; plus every addressing sequence of length 3-4 over {plain actor, two actors with an application-stored inbox, collection, unreachable actor, sender}; plus an actor-document family (the remote actor published as Service / Group / Organization / Application, with two types (known or unknown first), with its inbox spelled as an embedded OrderedCollection / page, with a sharedInbox endpoint, with a public key under the security context, Mastodon-like with extension terms, with unknown and near-miss members, under an aliased context); plus a chain of six nested collections ending in an actor under limits 3, 5, 6, 7, 8 and the unlimited settings, and K1 holding two or three members next to each other that cannot be fetched or parsed before reachable ones; plus a shared-inbox family (two or three actors for which the application knows one shared inbox, or that publish the same inbox, or whose inboxes differ from each other / from the sender's only in the query or fragment, in every addressing sequence of length 2-4 over the reduced alphabet); plus a collection-shape family (each of Collection / OrderedCollection / CollectionPage / OrderedCollectionPage with its items member absent (totalItems + first only), empty, one, two, three or four (one repeated) members; addressed directly, next to actors, or reached through K1) and a reference-spelling family (an entry written as an embedded Mention with href only, or as an embedded Link with id and a decoy href, alone and paired with every alphabet entry); every ordered sequence of <= %d addressed entries over that 15-entry alphabet, placed in 'to' only / spread over to,bto,cc,bcc,audience / reversed; depth limit %v, and the unlimited settings 0 and -1 on the graphs without a cycle; entry points Send and client POST; %d runs; plus all two-delivery histories through one actor instance over 2 senders x 5 addressees (first) x 25 addressee pairs (second); oracle: an independent recursive function over the graph description gives the expected inbox set and the IRIs that may be dereferenced; non-trivial = runs in which something was dereferenced or delivered, distinct by (entries, placement, K1, limit)", map[bool]int{false: 1, true: 2}[res.Thorough()], maxEntries, limits, len(cases))
	res.Assumptions = []string{"order of recipients and how often one IRI is dereferenced are not asserted",
		"documents that decode to a known non-actor type or to an actor without inbox are outside the alphabet (the statement is silent; C11 covers crashes)",
		"the stored inbox is consulted for directly addressed actors only, as the code does; collection members with a stored inbox have stored == remote inbox"}
	var mu sync.Mutex
	chunk := 500
	parallel((len(cases)+chunk-1)/chunk, func(ci int) {
		lo, hi := ci*chunk, (ci+1)*chunk
		if hi > len(cases) {
			hi = len(cases)
		}
		type viol struct {
			key, what string
			rep       M
		}
		var vs []viol
		classes := map[string]struct{}{}
		outc := map[string]int{}
		for _, c := range cases[lo:hi] {
			c := c
			g := baseGraph(c.k1)
			if c.actorDoc > 0 {
				g[gActorV] = &gnode{kind: "actor", inbox: gActorV + "/inbox", doc: c02actorDocs()[c.actorDoc-1].doc}
			}
			if c.shapeTyp != "" {
				n := &gnode{kind: "collection", typ: c.shapeTyp}
				switch c.shape {
				case 0:
					n.members = []string{Frank}
				case 1, 2:
					n.shape = c.shape
				case 3:
					n.members = []string{Frank, Erin}
				case 4:
					n.members = []string{Frank, Erin, Carol}
				case 5:
					n.members = []string{Frank, Erin, Frank, Carol}
				}
				g[gShape] = n
			}
			if c.senderStored {
				g[Alice].stored = Alice + "/inbox"
			}
			for i := 1; i <= c.chain; i++ {
				next := gChain(i + 1)
				if i == c.chain {
					next = gChainEnd
				}
				g[gChain(i)] = &gnode{kind: "collection", members: []string{next}, ordered: i%2 == 0}
			}
			if c.chain > 0 {
				g[gChainEnd] = &gnode{kind: "actor", inbox: gChainEnd + "/inbox"}
			}
			switch c.shared {
			case 1:
				g[Carol].stored, g[Erin].stored = "https://r1.example/shared/inbox", "https://r1.example/shared/inbox"
			case 2:
				g[Dave].stored, g[Frank].stored, g[Carol].stored = "https://r1.example/shared/inbox", "https://r1.example/shared/inbox", "https://r1.example/shared/inbox"
			case 3:
				g[Carol].inbox, g[Erin].inbox = "https://r1.example/shared/inbox", "https://r1.example/shared/inbox"
			case 4: // one endpoint, the actor in the query: two different inboxes
				g[Carol].inbox, g[Erin].inbox = "https://r1.example/inbox?u=carol", "https://r1.example/inbox?u=erin"
			case 5:
				g[Carol].stored, g[Frank].stored = "https://r1.example/inbox#carol", "https://r1.example/inbox#frank"
			case 6: // not the sender's own inbox
				g[Carol].inbox = Alice + "/inbox?for=carol"
			}
			sc := &Scenario{Name: c.String(), Kind: ap.Both, Entry: c.entry, URL: outbox(Alice), Body: c.body(),
				Tweak: func(a *ap.App) { g.install(a); a.MaxDeliverDepth = c.limit }}
			out := sc.Exec(mc.NewExec(nil), false)
			rep := M{"check": "C02", "case": c.String(), "body": c.body()}
			bad := func(kind, what string) {
				vs = append(vs, viol{kind, c.String() + ": " + what, rep})
			}
			if out.Panic != nil {
				outc["panic(C11)"]++
				continue
			}
			want, may := g.expected(c.concatenated(), c.limit, Alice)
			var derefs []string
			for _, cl := range out.App.Log {
				if cl.Op == "T.Dereference" {
					derefs = append(derefs, cl.Arg)
				}
			}
			if len(derefs) > 0 || len(out.App.Deliveries) > 0 {
				classes[c.String()] = struct{}{}
			}
			for _, d := range derefs {
				n := g[d]
				switch {
				case n != nil && n.kind == "public":
					bad("public-dereferenced", "the Public collection "+d+" is dereferenced")
				case !may[d] && d != RNote:
					why := "beyond the configured depth"
					if n != nil && n.stored != "" {
						why = "although the application supplied its inbox"
					}
					bad("dereferenced-"+strings.ReplaceAll(why, " ", "-"), fmt.Sprintf("%s is dereferenced %s", shortID(d), why))
				}
			}
			if out.Err != nil {
				outc["error"]++
				// unreachable / unparsable recipients must be skipped, not fail the delivery
				bad("delivery-failed|"+errClass(out.Err), fmt.Sprintf("the delivery fails with %q; expected inboxes %v", out.Err, setKeys(want)))
				continue
			}
			var batches []ap.Delivery
			for _, d := range out.App.Deliveries {
				if d.Batch {
					batches = append(batches, d)
				} else {
					bad("single-deliver-used", "Transport.Deliver called")
				}
			}
			if len(batches) != 1 {
				bad("payload-not-handed-over-once", fmt.Sprintf("%d BatchDeliver calls", len(batches)))
				continue
			}
			outc["delivered"]++
			got := map[string]int{}
			for _, t := range batches[0].To {
				got[t]++
			}
			var extra, missing, dup []string
			for t, n := range got {
				if !want[t] {
					extra = append(extra, shortID(t))
				}
				if n > 1 {
					dup = append(dup, shortID(t))
				}
			}
			for t := range want {
				if got[t] == 0 {
					missing = append(missing, shortID(t))
				}
			}
			sort.Strings(extra)
			sort.Strings(missing)
			if len(extra) > 0 {
				bad("unexpected-inbox|"+inboxClass(extra), fmt.Sprintf("delivered to %v which the addressing does not reach (expected %v, got %v)", extra, setKeys(want), batches[0].To))
			}
			if len(missing) > 0 {
				bad("missing-inbox|"+inboxClass(missing), fmt.Sprintf("not delivered to %v (expected %v, got %v)", missing, setKeys(want), batches[0].To))
			}
			if len(dup) > 0 {
				bad("duplicate-inbox", fmt.Sprintf("inboxes %v listed more than once", dup))
			}
			// payload: the activity, with its new id
			var pm map[string]interface{}
			if err := json.Unmarshal(batches[0].Payload, &pm); err != nil || pm["type"] != "Announce" || pm["id"] == nil {
				bad("bad-payload", "payload is not the activity: "+string(batches[0].Payload))
			}
		}
		mu.Lock()
		defer mu.Unlock()
		res.Evaluations += hi - lo
		for k := range classes {
			res.Nontrivial[k] = struct{}{}
		}
		for k, v := range outc {
			res.Outcomes[k] += v
		}
		for _, v := range vs {
			res.Violate(v.key, v.what, v.rep)
		}
	})
	// ---- histories: two deliveries through ONE actor instance, from the same or different outboxes ----
	// (the expected set of the second delivery is computed for ITS sender; anything a change to the
	// library remembers from the first delivery shows up here)
	nHist := 0
	senders := []string{Alice, Bob}
	hAlpha := []string{Alice, Bob, Carol, Dave, gK1}
	for _, s1 := range senders {
		for _, s2 := range senders {
			for _, e1 := range hAlpha {
				for _, e2a := range hAlpha {
					for _, e2b := range hAlpha {
						g := baseGraph([]string{Alice, Bob, Carol})
						g[Bob] = &gnode{kind: "actor", inbox: Bob + "/inbox"}
						a := BaseWorld()
						g.install(a)
						a.PutRemote(Bob, person(Bob))
						a.MaxDeliverDepth = 2
						run := func(sender string, entries []string) (*RunOut, map[string]bool) {
							body := Doc("Announce", "", "actor", sender, "object", RNote, "to", func() interface{} {
								l := L{}
								for _, e := range entries {
									l = append(l, e)
								}
								return l
							}())
							sc := &Scenario{Name: "c02-history", Kind: ap.Both, Entry: "Send", URL: outbox(sender), Body: body}
							nDel := len(a.Deliveries)
							out := sc.On(a, nil)
							want, _ := g.expected(entries, 2, sender)
							if out.Err != nil || out.Panic != nil || len(a.Deliveries) != nDel+1 {
								return out, nil
							}
							got := map[string]bool{}
							for _, t := range a.Deliveries[nDel].To {
								got[t] = true
							}
							if !sameSet(got, want) {
								return out, want
							}
							return out, nil
						}
						nHist++
						res.Case(fmt.Sprintf("history|%s|%s|%s|%s|%s", shortID(s1), shortID(s2), shortID(e1), shortID(e2a), shortID(e2b)))
						if _, bad := run(s1, []string{e1}); bad != nil {
							continue // the single-delivery part judges this
						}
						nDel := len(a.Deliveries)
						if _, bad := run(s2, []string{e2a, e2b}); bad != nil {
							got := []string{}
							if len(a.Deliveries) > nDel {
								got = a.Deliveries[len(a.Deliveries)-1].To
							}
							res.Violate("history|second-delivery-wrong-recipients|same-sender="+fmt.Sprint(s1 == s2),
								fmt.Sprintf("after a delivery from %s to [%s], a delivery from %s to [%s %s] reaches %v, expected %v", shortID(s1), shortID(e1), shortID(s2), shortID(e2a), shortID(e2b), shortIDs(got), setKeys(bad)),
								M{"check": "C02", "part": "history", "first": M{"sender": s1, "to": e1}, "second": M{"sender": s2, "to": L{e2a, e2b}}})
						}
						heldPayloads(res, "C02", a, fmt.Sprintf("deliveries from %s then %s", shortID(s1), shortID(s2)))
					}
				}
			}
		}
	}
	res.Extra["two_delivery_histories"] = nHist
	for _, i := range []int{len(cases) / 7, len(cases) / 2, len(cases) - 3} {
		res.Sample(M{"case": cases[i].String(), "body": cases[i].body()})
	}
	return res.Finish()
}

func setKeys(m map[string]bool) []string {
	var o []string
	for k := range m {
		o = append(o, shortID(k))
	}
	sort.Strings(o)
	return o
}

func errClass(err error) string {
	s := err.Error()
	switch {
	case strings.Contains(s, "404"):
		return "unreachable-recipient"
	case strings.Contains(s, "unexpected end of JSON") || strings.Contains(s, "invalid character"):
		return "garbled-recipient"
	case strings.Contains(s, "did not match"):
		return "unknown-type-recipient"
	}
	if len(s) > 60 {
		s = s[:60]
	}
	return s
}

func inboxClass(l []string) string {
	cls := map[string]bool{}
	for _, s := range l {
		switch {
		case strings.Contains(s, "embedded-inbox"):
			cls["embedded-actor-inbox"] = true
		case strings.Contains(s, "alice"):
			cls["sender"] = true
		case strings.Contains(s, "dave"):
			cls["stored-inbox-actor"] = true
		default:
			cls["actor"] = true
		}
	}
	var o []string
	for k := range cls {
		o = append(o, k)
	}
	sort.Strings(o)
	return strings.Join(o, ",")
}
