package checks

import (
	"encoding/json"
	"fmt"
	"sort"
	"strings"
	"sync"

	"github.com/go-fed/activity/pub"

	ap "verif/apmodel"
	"verif/mc"
)

// c04case is one inbox activity with its configuration.
type c04case struct {
	typ      string
	body     M
	onFollow pub.OnFollowBehavior
	cb       ap.CallbackMode
	label    string
	// keep, if set, is the only activity type for which the application configured a hook (wrapped
	// or 'other', according to cb): for every other type the default effect must be untouched
	keep string
}

type expDelivery struct {
	typ        string
	actor      string
	objectID   string
	to         []string
	recipients []string
}

const cachedForeign = "https://r1.example/n/cached"
const noteEmptyOrdered = "https://l.example/n/empty-ordered"
const noteEmptyColl = "https://l.example/n/empty-unordered"
const ownedMissing = "https://l.example/n/404"

// ownership is a per-IRI question: a value on this server's host that another tenant owns (stored,
// with likes / shares of its own), a local IRI that is neither owned nor stored, and a value on a
// foreign host that this server owns
const localForeign = "https://l.example/n/other-tenant"
const localDangling = "https://l.example/n/dangling-not-owned"
const remoteOwned = "https://r1.example/n/owned-by-us"
const localForeignCol = "https://l.example/c/other-tenant"
const followBob = "https://l.example/f/bob"   // stored, but it is Bob's Follow
const followNone = "https://l.example/f/none" // not stored at all
const followDup = "https://l.example/f/dup"   // stored, ours, names one followed actor twice

const remoteArticle = "https://r1.example/n/article"

func c04world(a *ap.App) {
	ManyPeers(a, 17)
	for i := 0; i < 9; i++ {
		id := fmt.Sprintf("https://r1.example/n/many%d", i)
		a.PutRemote(id, Doc("Note", id, "attributedTo", Carol, "content", fmt.Sprintf("many %d", i)))
	}
	a.PutRemote(remoteArticle, Doc("Article", remoteArticle, "attributedTo", Carol, "name", "a title", "summary", "content warning", "to", L{Public}, "tag", Emb("Hashtag", "", "name", "#x")))
	// the stored Follow names two followed actors (Carol and Dave); Erin was never followed
	a.PutDoc(Doc("Follow", Follow1, "actor", Alice, "object", L{Carol, Dave}))
	a.PutRemote(Follow1, Doc("Follow", Follow1, "actor", Alice, "object", L{Carol, Dave}))
	// another local actor's Follow of the same peers, and a Follow that was never stored; the copies a
	// peer serves or embeds claim that they are Alice's
	a.PutDoc(Doc("Follow", followBob, "actor", Bob, "object", L{Carol, Dave}))
	a.PutRemote(followBob, Doc("Follow", followBob, "actor", Alice, "object", L{Carol, Dave}))
	a.PutRemote(followNone, Doc("Follow", followNone, "actor", Alice, "object", L{Carol, Dave}))
	a.PutDoc(Doc("Follow", followDup, "actor", Alice, "object", L{Carol, Carol}))
	a.PutRemote(followDup, Doc("Follow", followDup, "actor", Alice, "object", L{Carol, Carol}))
	// cached copies of foreign data: must never be modified by Like/Announce/Add/Remove
	a.PutDoc(Doc("Note", cachedForeign, "attributedTo", Carol, "content", "cached foreign note"))
	a.PutDoc(Doc("Collection", RCol, "items", L{Carol}))
	a.PutDoc(Doc("Note", RNote, "attributedTo", Carol, "content", "remote", "inReplyTo", Note1))
	fd := person(fragActor)
	fd["inbox"] = inboxOf(fragActor)
	a.PutRemote(fragActor, fd)
	a.NotOwned[ownedMissing] = false
	a.NotOwned[localForeign], a.NotOwned[localDangling], a.NotOwned[localForeignCol] = true, true, true
	a.OwnedExtra[remoteOwned] = true
	a.PutDoc(Doc("Note", localForeign, "content", "another tenant's", "likes", Emb("OrderedCollection", "", "orderedItems", L{"https://r9.example/l/t"}), "shares", Emb("Collection", "", "items", L{"https://r9.example/s/t"})))
	a.PutDoc(Doc("Note", remoteOwned, "content", "ours on another host"))
	a.PutDoc(Doc("Collection", localForeignCol, "items", L{Dave}))
	// owned objects whose likes / shares collections exist but are empty
	a.PutDoc(Doc("Note", noteEmptyOrdered, "content", "e1", "likes", Emb("OrderedCollection", "", "totalItems", 0), "shares", Emb("OrderedCollection", "", "totalItems", 0)))
	a.PutDoc(Doc("Note", noteEmptyColl, "content", "e2", "likes", Emb("Collection", "", "totalItems", 0), "shares", Emb("Collection", "", "totalItems", 0)))
}

// an actor whose id carries a fragment (https://host/profile#me is a common actor-id shape)
const fragActor = "https://r1.example/u/frag#me"

func inboxOf(actor string) string {
	if actor == fragActor {
		return "https://r1.example/u/frag/inbox"
	}
	if actor == Dave {
		return Dave + "/inbox" // stored
	}
	return actor + "/inbox"
}

// modelInbox applies the documented default effect of an inbox activity to ref.
// It returns whether the side effect fails, the expected deliveries and whether the wrapped
// application callback is expected to run.
func modelInbox(ref *Ref, a *ap.App, c c04case) (fail bool, dels []expDelivery) {
	body := deepCopy(c.body).(map[string]interface{})
	actID, _ := body["id"].(string)
	box := inbox(Alice)
	ref.In[box] = append([]string{actID}, ref.In[box]...)
	objs := asList(body["object"])
	targets := asList(body["target"])
	actors := asList(body["actor"])
	remote := func(id string) map[string]interface{} {
		b, ok := a.Remote[id]
		if !ok {
			return nil
		}
		var m map[string]interface{}
		if json.Unmarshal(b, &m) != nil {
			return nil
		}
		return m
	}
	if c.cb == ap.CBOther {
		// the application's function of the same signature replaces the default effect entirely
		ref.Put(actID, body)
		return false, nil
	}
	prependTo := func(doc map[string]interface{}, member, id string) {
		doc[member] = fromList(append([]interface{}{id}, asList(doc[member])...))
	}
	switch c.typ {
	case "Create":
		if len(objs) == 0 {
			return true, nil
		}
		for _, o := range objs {
			var doc map[string]interface{}
			if s, ok := o.(string); ok {
				doc = remote(s)
				if doc == nil {
					return true, nil
				}
			} else {
				doc = o.(map[string]interface{})
			}
			id := idOf(doc)
			if id == "" {
				return true, nil
			}
			ref.Put(id, doc)
		}
	case "Update":
		for _, o := range objs {
			doc, ok := o.(map[string]interface{})
			if !ok {
				return true, nil
			}
			ref.Put(idOf(doc), doc)
		}
	case "Delete":
		for _, o := range objs {
			delete(ref.Store, idOf(o))
		}
	case "Follow":
		isMe := false
		if c.onFollow != pub.OnFollowDoNothing {
			for _, o := range objs {
				if idOf(o) == Alice {
					isMe = true
				}
			}
		}
		if isMe {
			var ids []string
			for _, ac := range actors {
				ids = append(ids, idOf(ac))
			}
			d := expDelivery{typ: "Reject", actor: Alice, objectID: actID, to: ids}
			if c.onFollow == pub.OnFollowAutomaticallyAccept {
				d.typ = "Accept"
				fid := Alice + "/followers"
				doc := ref.Store[fid]
				if doc == nil {
					doc = map[string]interface{}{"type": "Collection", "id": fid}
				}
				for _, id := range ids {
					prependTo(doc, "items", id)
				}
				ref.Store[fid] = doc
			}
			for _, id := range ids {
				d.recipients = append(d.recipients, inboxOf(id))
			}
			dels = append(dels, d)
		}
	case "Accept":
		// the first Follow among the objects (as given, or as served when given by IRI) that names this
		// actor is the candidate; it is verified against the stored copy of that id
		candidate := ""
		for _, o := range objs {
			doc, isDoc := o.(map[string]interface{})
			if !isDoc {
				doc = remote(idOf(o))
				if doc == nil {
					return true, nil
				}
			}
			if t, _ := doc["type"].(string); t != "Follow" {
				continue
			}
			mine := false
			for _, fa := range asList(doc["actor"]) {
				if idOf(fa) == Alice {
					mine = true
				}
			}
			if mine {
				candidate = idOf(doc)
				break
			}
		}
		if candidate != "" {
			stored := ref.Store[candidate]
			if stored == nil {
				return true, nil
			}
			if t, _ := stored["type"].(string); t != "Follow" {
				return true, nil
			}
			ours := false
			for _, fa := range asList(stored["actor"]) {
				if idOf(fa) == Alice {
					ours = true
				}
			}
			if !ours {
				return true, nil
			}
			// verified only if every accepting actor is an object of the stored Follow
			for _, ac := range actors {
				ok := false
				for _, fo := range asList(stored["object"]) {
					if idOf(fo) == idOf(ac) {
						ok = true
					}
				}
				if !ok {
					return true, nil
				}
			}
			fid := Alice + "/following"
			doc := ref.Store[fid]
			if doc == nil {
				doc = map[string]interface{}{"type": "Collection", "id": fid}
			}
			for _, ac := range actors {
				prependTo(doc, "items", idOf(ac))
			}
			ref.Store[fid] = doc
		}
	case "Add", "Remove":
		if len(objs) == 0 || len(targets) == 0 {
			return true, nil
		}
		var oids []string
		for _, o := range objs {
			oids = append(oids, idOf(o))
		}
		for _, t := range targets {
			tid := idOf(t)
			if !a.OwnsID(tid) {
				continue
			}
			doc := ref.Store[tid]
			if doc == nil {
				return true, nil
			}
			member := collMember(doc)
			if member == "" {
				return true, nil
			}
			l := asList(doc[member])
			if c.typ == "Add" {
				for _, id := range oids {
					l = append(l, id)
				}
			} else {
				var keep []interface{}
				for _, e := range l {
					rm := false
					for _, id := range oids {
						if idOf(e) == id {
							rm = true
						}
					}
					if !rm {
						keep = append(keep, e)
					}
				}
				l = keep
			}
			setOrDelete(doc, member, fromList(l))
		}
	case "Like", "Announce":
		prop := "likes"
		if c.typ == "Announce" {
			prop = "shares"
		}
		if c.typ == "Like" && len(objs) == 0 {
			return true, nil
		}
		for _, o := range objs {
			oid := idOf(o)
			if !a.OwnsID(oid) {
				continue
			}
			doc := ref.Store[oid]
			if doc == nil {
				return true, nil
			}
			col, _ := doc[prop].(map[string]interface{})
			if col == nil {
				if _, isIRI := doc[prop].(string); isIRI {
					return true, nil
				}
				col = map[string]interface{}{"type": "Collection"}
			}
			member := collMember(col)
			if member == "" {
				return true, nil
			}
			prependTo(col, member, actID)
			doc[prop] = col
		}
	case "Undo":
		if len(objs) == 0 {
			return true, nil
		}
	case "Block":
		if len(objs) == 0 {
			return true, nil
		}
	}
	if c.cb == ap.CBWrappedFail {
		return true, dels
	}
	ref.Put(actID, body)
	return false, dels
}

func c04cases(thorough bool) []c04case {
	var cs []c04case
	rn := func(n int, kv ...interface{}) M {
		return Emb("Note", fmt.Sprintf("https://r1.example/n/%d", n), append([]interface{}{"attributedTo", Carol, "content", fmt.Sprintf("note %d", n)}, kv...)...)
	}
	maxN := 2
	if thorough {
		maxN = 3
	}
	combos := func(alpha []interface{}, max int) []L {
		out := []L{}
		prev := []L{{}}
		for l := 1; l <= max; l++ {
			var cur []L
			for _, p := range prev {
				for _, a := range alpha {
					cur = append(cur, append(append(L{}, p...), a))
				}
			}
			out = append(out, cur...)
			prev = cur
		}
		return out
	}
	val := func(l L) interface{} {
		if len(l) == 1 {
			return l[0]
		}
		return l
	}
	add := func(typ string, body M, of pub.OnFollowBehavior) {
		for _, cb := range []ap.CallbackMode{ap.CBNone, ap.CBWrapped, ap.CBWrappedFail, ap.CBOther} {
			cs = append(cs, c04case{typ: typ, body: body, onFollow: of, cb: cb})
		}
	}
	// (two more fetchable IRIs whose documents have members the others lack: what is stored for one
	// object must not depend on what was fetched for another)
	for _, objs := range combos([]interface{}{rn(10), rn(11), RNote, iriMissing, RNote2, remoteArticle}, maxN) {
		add("Create", Doc("Create", RAct, "actor", Carol, "object", val(objs)), 0)
	}
	for _, objs := range combos([]interface{}{rn(10, "content", "edited"), rn(11), Emb("Note", cachedForeign, "content", "updated cached")}, maxN) {
		add("Update", Doc("Update", RAct, "actor", Carol, "object", val(objs)), 0)
	}
	for _, objs := range combos([]interface{}{cachedForeign, rn(11), RNote}, maxN) {
		add("Delete", Doc("Delete", RAct, "actor", Carol, "object", val(objs)), 0)
	}
	for _, actors := range combos([]interface{}{Carol, Emb("Person", Carol, "inbox", Carol+"/inbox"), Dave, Erin, fragActor}, maxN) {
		// (ids that match this actor's in scheme, host and path but carry a query / fragment / trailing slash,
		// or differ in path case, are not this actor)
		for _, object := range []interface{}{Alice, Bob, Carol, L{Bob, Alice}, Emb("Person", Alice), Alice + "?tab=followers", Alice + "#main-key", Alice + "/",
			strings.Replace(Alice, "/u/alice", "/u/Alice", 1), L{Alice + "#main-key", Bob}} {
			for _, of := range []pub.OnFollowBehavior{pub.OnFollowDoNothing, pub.OnFollowAutomaticallyAccept, pub.OnFollowAutomaticallyReject} {
				add("Follow", Doc("Follow", RAct, "actor", val(actors), "object", object), of)
			}
		}
	}
	// sizes beyond the small alphabets: a Follow by 5..9, 12 and 17 actors (the automatic answer goes to all of
	// them), Add / Remove / Like / Announce / Create / Delete naming 5..9 objects
	for _, n := range []int{5, 6, 7, 8, 9, 12, 17} {
		var actors L
		for i := 0; i < n; i++ {
			if i%3 == 1 {
				actors = append(actors, Emb("Person", Peer(i), "inbox", Peer(i)+"/inbox"))
			} else {
				actors = append(actors, Peer(i))
			}
		}
		for _, of := range []pub.OnFollowBehavior{pub.OnFollowAutomaticallyAccept, pub.OnFollowAutomaticallyReject} {
			add("Follow", Doc("Follow", RAct, "actor", actors, "object", Alice), of)
		}
	}
	for _, n := range []int{5, 6, 7, 8, 9} {
		var iris, mixed L
		for i := 0; i < n; i++ {
			id := fmt.Sprintf("https://r1.example/n/many%d", i)
			iris = append(iris, id)
			if i%2 == 0 {
				mixed = append(mixed, Emb("Note", id, "attributedTo", Carol, "content", fmt.Sprintf("many %d", i)))
			} else {
				mixed = append(mixed, id)
			}
		}
		add("Add", Doc("Add", RAct, "actor", Carol, "object", iris, "target", Col1), 0)
		add("Add", Doc("Add", RAct, "actor", Carol, "object", mixed, "target", L{OCol1, Col1}), 0)
		add("Remove", Doc("Remove", RAct, "actor", Carol, "object", append(L{Dave}, iris...), "target", Col1), 0)
		add("Create", Doc("Create", RAct, "actor", Carol, "object", mixed), 0)
		add("Delete", Doc("Delete", RAct, "actor", Carol, "object", iris), 0)
		var owned L
		for i := 0; i < n; i++ {
			owned = append(owned, []interface{}{Note1, Note2, noteEmptyOrdered, noteEmptyColl, cachedForeign}[i%5])
		}
		add("Like", Doc("Like", RAct, "actor", Carol, "object", owned[:5]), 0)
	}
	followAlpha := []interface{}{Follow1, Emb("Follow", Follow1, "actor", Alice, "object", Carol),
		followBob, Emb("Follow", followBob, "actor", Alice, "object", L{Carol, Dave}), Emb("Follow", followBob, "actor", Bob, "object", L{Carol, Dave}),
		followNone, Emb("Follow", followNone, "actor", Alice, "object", Carol), RNote,
		followDup, Emb("Follow", followDup, "actor", Alice, "object", L{Carol, Erin})}
	for _, objs := range combos(followAlpha, 2) {
		for _, actors := range combos([]interface{}{Carol, Dave, Erin, Emb("Person", Carol)}, 2) {
			add("Accept", Doc("Accept", RAct, "actor", val(actors), "object", val(objs)), 0)
		}
		if len(objs) == 1 {
			add("Reject", Doc("Reject", RAct, "actor", Carol, "object", objs[0]), 0)
		}
	}
	for _, typ := range []string{"Add", "Remove"} {
		for _, objs := range combos([]interface{}{RNote, rn(10), Dave, Carol}, maxN) {
			for _, tg := range combos([]interface{}{Col1, OCol1, RCol, Note1, Emb("Collection", Col1), localForeignCol}, maxN) {
				add(typ, Doc(typ, RAct, "actor", Carol, "object", val(objs), "target", val(tg)), 0)
			}
		}
	}
	for _, typ := range []string{"Like", "Announce"} {
		for _, objs := range combos([]interface{}{Note1, Note2, cachedForeign, Emb("Note", Note1, "content", "peer's copy"), ownedMissing, noteEmptyOrdered, noteEmptyColl, localForeign, localDangling, remoteOwned}, maxN) {
			add(typ, Doc(typ, RAct, "actor", Carol, "object", val(objs)), 0)
		}
	}
	// single-hook configurations: the application overrides / wraps exactly one activity type X; an
	// activity of another type T must get its full default effect (first two bodies of every type)
	hookNames := []string{"Create", "Update", "Delete", "Follow", "Accept", "Reject", "Add", "Remove", "Like", "Announce", "Undo", "Block"}
	seenT := map[string]int{}
	for _, c := range append([]c04case(nil), cs...) {
		if c.cb != ap.CBNone || seenT[c.typ] >= 2 {
			continue
		}
		if c.typ == "Follow" && c.onFollow == pub.OnFollowDoNothing {
			continue
		}
		seenT[c.typ]++
		for _, x := range hookNames {
			if x == c.typ {
				continue
			}
			for _, mode := range []ap.CallbackMode{ap.CBOther, ap.CBWrapped} {
				k := c
				k.cb, k.keep = mode, x
				cs = append(cs, k)
			}
		}
	}
	add("Undo", Doc("Undo", RAct, "actor", Carol, "object", "https://r1.example/like/1"), 0)
	add("Block", Doc("Block", RAct, "actor", Carol, "object", Alice), 0)
	add("Listen", Doc("Listen", RAct, "actor", Carol, "object", RNote), 0)
	return cs
}

// C04 — default inbox side effects do exactly what is documented, only to owned data.
func C04(tier string) int {
	res := NewResult("C04", tier, "exploration")
	cases := c04cases(res.Thorough())
	res.Rule = fmt.Sprintf("each handled inbox activity type with every sequence of 1..%d objects / targets / actors from per-type alphabets (IRI and embedded, owned and foreign, Collection / OrderedCollection / non-collection targets, absent / unordered / ordered likes and shares, missing documents), OnFollow in {nothing, accept, reject}, Follow object in {this actor, another local actor, remote, list, embedded, this actor's id plus a query / a fragment / a trailing slash / in another path case}, x callback configuration {none, wrapped, wrapped failing, 'other' override}, plus a Follow by 5..9, 12 and 17 actors and Add / Remove / Create / Delete / Like naming 5..9 objects, plus single-hook configurations (exactly one other type X wrapped / overridden, for all 11 X): %d requests; a reference model written from the documentation is applied to the initial state and diffed against the real final state; deliveries and callback order are compared too; plus every ordered pair of single-valued activities (up to 4 per type and OnFollow mode; thorough: all) delivered one after the other to ONE application (the application's OnFollow mode and callback configuration - none / every type overridden by 'other' functions - may change between the two) with the model applied step by step, every triple over a reduced alphabet (the first case - Add / Remove: two - of each type and OnFollow mode), and single faults inside the default effect", map[bool]int{false: 2, true: 3}[res.Thorough()], len(cases))
	res.Assumptions = []string{"order among several followers added by one Follow is not asserted", "where a later object/target makes the effect fail, the effect on earlier ones (list order) stays, as the code does; the statement does not forbid it",
		"top-level @context of stored values is not compared (C01)"}
	var mu sync.Mutex
	chunk := 200
	parallel((len(cases)+chunk-1)/chunk, func(ci int) {
		lo, hi := ci*chunk, (ci+1)*chunk
		if hi > len(cases) {
			hi = len(cases)
		}
		type viol struct {
			key, what string
			rep       M
		}
		var vs []viol
		classes := map[string]struct{}{}
		outc := map[string]int{}
		for _, c := range cases[lo:hi] {
			c := c
			cfg := c
			sc := &Scenario{Name: "c04", Kind: ap.Both, Entry: "PostInbox", URL: inbox(Alice), Body: c.body,
				Tweak: func(a *ap.App) { c04world(a); a.OnFollow = cfg.onFollow; a.Callbacks = cfg.cb; a.CBKeep = cfg.keep }}
			a := sc.World()
			ref := RefOf(a)
			if c.keep != "" && c.keep != c.typ {
				c.cb = ap.CBNone // the configured hook is for another type: this one is a plain default
			}
			fail, dels := modelInbox(ref, a, c)
			out := sc.On(a, nil)
			name := fmt.Sprintf("%s cb=%d keep=%q onFollow=%d body=%s", c.typ, cfg.cb, cfg.keep, c.onFollow, shortJSON(c.body))
			rep := M{"check": "C04", "type": c.typ, "callbacks": int(c.cb), "on_follow": int(c.onFollow), "body": c.body}
			if out.Panic != nil {
				outc["panic(C11)"]++
				continue
			}
			bad := func(kind, what string) {
				k := fmt.Sprintf("%s|%s|cb=%d", kind, c.typ, c.cb)
				if cfg.keep != "" {
					k = fmt.Sprintf("%s|%s|only-hook-for-another-type|mode=%d", kind, c.typ, cfg.cb)
				}
				vs = append(vs, viol{k, name + ": " + what, rep})
			}
			classes[fmt.Sprintf("%s|%d|%s|%d|%s", c.typ, cfg.cb, cfg.keep, c.onFollow, shortJSON(c.body))] = struct{}{}
			if fail {
				outc["model-fails"]++
			} else {
				outc["model-ok"]++
			}
			if (out.Err != nil || len(out.W.Statuses) == 0 || out.W.Statuses[0] != 200) != fail {
				bad("outcome", fmt.Sprintf("err=%v statuses=%v, the reference model says fail=%v", out.Err, out.W.Statuses, fail))
			}
			unordered := map[string]bool(nil)
			if c.typ == "Follow" || c.typ == "Accept" {
				unordered = map[string]bool{"items": true}
			}
			for _, d := range ref.Diff(a, unordered) {
				bad("state|"+diffClass(d), d)
			}
			// deliveries
			if len(out.App.Deliveries) != len(dels) && !fail {
				bad("deliveries", fmt.Sprintf("%d deliveries, expected %d", len(out.App.Deliveries), len(dels)))
			} else if !fail {
				for i, e := range dels {
					got := out.App.Deliveries[i]
					var pm map[string]interface{}
					json.Unmarshal(got.Payload, &pm)
					var to []string
					for _, t := range asList(pm["to"]) {
						to = append(to, idOf(t))
					}
					sort.Strings(to)
					wt := append([]string(nil), e.to...)
					sort.Strings(wt)
					wt = uniq(wt)
					to = uniq(to)
					rec := append([]string(nil), got.To...)
					sort.Strings(rec)
					wr := append([]string(nil), e.recipients...)
					sort.Strings(wr)
					wr = uniq(wr)
					id, _ := pm["id"].(string)
					if pm["type"] != e.typ || idOf(pm["actor"]) != e.actor || idOf(pm["object"]) != e.objectID || !strings.HasPrefix(id, "https://l.example/id/") ||
						strings.Join(to, " ") != strings.Join(wt, " ") || strings.Join(rec, " ") != strings.Join(wr, " ") {
						bad("automatic-response", fmt.Sprintf("delivered %s to %v; expected a fresh %s from %s of %s addressed to %v, recipients %v", string(got.Payload), got.To, e.typ, e.actor, e.objectID, wt, wr))
					}
				}
			}
			// callbacks
			cbName := "Fed.cb." + c.typ
			if c.typ == "Listen" {
				cbName = "Fed.cb.Default"
			}
			if c.cb == ap.CBOther && c.typ != "Listen" {
				cbName = "FedOther.cb." + c.typ
			}
			cbIdx, lastWrite := -1, -1
			for i, cl := range out.App.Log {
				if cl.Op == cbName {
					cbIdx = i
				}
				if (cl.Op == "DB.Update" || cl.Op == "DB.Create" || cl.Op == "DB.Delete") && cl.Arg != RAct && cbIdx < 0 {
					lastWrite = i
				}
			}
			wantCB := c.cb != ap.CBNone || c.typ == "Listen"
			if c.cb == ap.CBWrappedFail || c.cb == ap.CBWrapped {
				// a wrapped callback runs only after the default effect succeeded
				probe := c
				probe.cb = ap.CBNone
				f2, _ := modelInbox(RefOf(sc.World()), a, probe)
				wantCB = !f2
			}
			if wantCB != (cbIdx >= 0) {
				bad("callback", fmt.Sprintf("application callback %s ran=%v, expected %v", cbName, cbIdx >= 0, wantCB))
			}
			if cbIdx >= 0 && c.cb != ap.CBOther {
				for i, cl := range out.App.Log {
					if i > cbIdx && (cl.Op == "DB.Update" || cl.Op == "DB.Delete" || (cl.Op == "DB.Create" && cl.Arg != RAct)) {
						bad("callback-before-default-effect", fmt.Sprintf("wrapped callback at call %d precedes the default write %s(%s) at call %d", cbIdx, cl.Op, cl.Arg, i))
					}
				}
			}
			_ = lastWrite
		}
		mu.Lock()
		defer mu.Unlock()
		res.Evaluations += hi - lo
		for k := range classes {
			res.Nontrivial[k] = struct{}{}
		}
		for k, v := range outc {
			res.Outcomes[k] += v
		}
		for _, v := range vs {
			res.Violate(v.key, v.what, v.rep)
		}
	})
	// ---- histories: every ordered pair of single-valued inbox activities (plain default callbacks)
	// delivered one after the other to ONE application; the reference model is applied step by step
	// (the effect of an activity must not depend on what was received before it) ----
	var hcases []c04case
	perType := map[string]int{}
	for _, c := range cases {
		if (c.cb != ap.CBNone && c.cb != ap.CBOther) || c.keep != "" {
			continue // plain default callbacks, or every type overridden by the application's 'other' functions
		}
		if _, many := c.body["object"].([]interface{}); many {
			continue
		}
		if _, many := c.body["target"].([]interface{}); many {
			continue
		}
		if _, many := c.body["actor"].([]interface{}); many {
			continue
		}
		k := fmt.Sprintf("%s|%d|%d", c.typ, c.onFollow, c.cb)
		if c.cb == ap.CBOther && perType[k] >= 1 && !res.Thorough() {
			continue
		}
		if perType[k] >= 4 && !res.Thorough() {
			continue
		}
		perType[k]++
		hcases = append(hcases, c)
	}
	red := make([]bool, len(hcases))
	redSeen := map[string]int{}
	for i, c := range hcases {
		k := fmt.Sprintf("%s|%d", c.typ, c.onFollow)
		lim := 1
		if c.typ == "Add" || c.typ == "Remove" || res.Thorough() {
			lim = 2
		}
		if c.cb == ap.CBNone && redSeen[k] < lim {
			redSeen[k]++
			red[i] = true
		}
	}
	var hmu sync.Mutex
	nHist := 0
	parallel(len(hcases), func(i int) {
		c1 := hcases[i]
		n := 0
		type hv struct {
			key, what string
			rep       M
		}
		var hvs []hv
		runSeq := func(seq []c04case) {
			// the application's configuration (OnFollow, hooks) may CHANGE between the requests: the
			// library asks for it on every request and must not remember an earlier answer
			a := (&Scenario{Kind: ap.Both, Tweak: func(a *ap.App) { c04world(a) }}).World()
			ref := RefOf(a)
			var names []string
			var steps []c04case
			for i, c := range seq {
				if i > 0 {
					b := deepCopy(c.body).(map[string]interface{})
					b["id"] = RAct2
					if i > 1 {
						b["id"] = fmt.Sprintf("%s-%d", RAct2, i)
					}
					c.body = b
				}
				steps = append(steps, c)
				names = append(names, c.typ+" "+shortJSON(c.body))
			}
			prevTyp := seq[0].typ
			for step, c := range steps {
				a.OnFollow, a.Callbacks = c.onFollow, c.cb
				fail, _ := modelInbox(ref, a, c)
				sc := &Scenario{Name: "c04/history", Kind: ap.Both, Entry: "PostInbox", URL: inbox(Alice), Body: c.body}
				out := sc.On(a, nil)
				if out.Panic != nil {
					break
				}
				rep := M{"check": "C04", "part": "history", "requests": names}
				if (out.Err != nil || len(out.W.Statuses) == 0 || out.W.Statuses[0] != 200) != fail {
					hvs = append(hvs, hv{fmt.Sprintf("history|outcome|%s-after-%s", c.typ, prevTyp), fmt.Sprintf("%v: request %d: err=%v statuses=%v, the reference model says fail=%v", names, step+1, out.Err, out.W.Statuses, fail), rep})
					break
				}
				unordered := map[string]bool(nil)
				for _, x := range seq {
					if x.typ == "Follow" || x.typ == "Accept" {
						unordered = map[string]bool{"items": true}
					}
				}
				if d := ref.Diff(a, unordered); len(d) > 0 {
					hvs = append(hvs, hv{fmt.Sprintf("history|state|%s|%s-after-%s", diffClass(d[0]), c.typ, prevTyp), fmt.Sprintf("%v: after request %d: %s", names, step+1, d[0]), rep})
					break
				}
				if step > 0 {
					prevTyp = steps[step].typ
				}
			}
			if ch := a.HeldPayloadsChanged(); len(ch) > 0 {
				hvs = append(hvs, hv{"payload-changed-after-hand-over", fmt.Sprintf("%v: %s", names, ch[0]), M{"check": "C04", "part": "history", "requests": names}})
			}
			n++
		}
		for _, c2 := range hcases {
			runSeq([]c04case{c1, c2})
		}
		// every triple over a reduced alphabet (the first case of each type and OnFollow mode, plain callbacks)
		if red[i] {
			for j, c2 := range hcases {
				if !red[j] {
					continue
				}
				for k, c3 := range hcases {
					if red[k] {
						runSeq([]c04case{c1, c2, c3})
					}
				}
			}
		}
		_ = 0
		hmu.Lock()
		defer hmu.Unlock()
		nHist += n
		for _, v := range hvs {
			res.Violate(v.key, v.what, v.rep)
		}
	})
	res.Evaluations += nHist
	res.Extra["request_histories"] = nHist
	// ---- single faults inside the default effect: the wrapped callback and any automatic
	// response must not happen once a step of the default effect failed ----
	seenType := map[string]int{}
	var faultCases []c04case
	for _, c := range cases {
		if c.cb != ap.CBWrapped {
			continue
		}
		k := fmt.Sprintf("%s|%d", c.typ, c.onFollow)
		if seenType[k] >= 6 {
			continue
		}
		seenType[k]++
		faultCases = append(faultCases, c)
	}
	parallel(len(faultCases), func(i int) {
		c := faultCases[i]
		sc := &Scenario{Name: "c04-fault", Kind: ap.Both, Entry: "PostInbox", URL: inbox(Alice), Body: c.body,
			Tweak: func(a *ap.App) { c04world(a); a.OnFollow = c.onFollow; a.Callbacks = c.cb }}
		cbName := "Fed.cb." + c.typ
		if c.typ == "Listen" {
			return
		}
		free := sc.Exec(mc.NewExec(nil), false)
		iStart, iCB := -1, -1
		for j, cl := range free.App.Log {
			if cl.Op == "Fed.FederatingCallbacks" {
				iStart = j
			}
			if cl.Op == cbName {
				iCB = j
			}
		}
		if iStart < 0 || iCB < 0 {
			return
		}
		type viol struct {
			key, what string
			rep       M
		}
		var vs []viol
		n := 0
		e := &mc.Explorer{}
		e.Budget = [3]int{0, 1, 0}
		e.Run = func(x *mc.Exec) bool {
			out := sc.Exec(x, true)
			n++
			pos, op := -1, ""
			for j, cl := range out.App.Log {
				if cl.Err && strings.HasPrefix(cl.Op, "DB.") && cl.Op != "DB.Unlock" {
					pos, op = j, cl.Op
					break
				}
			}
			if pos <= iStart || pos >= iCB || out.Panic != nil {
				return true
			}
			ran, delivered := false, false
			for j, cl := range out.App.Log {
				if cl.Op == cbName {
					ran = true
				}
				if j > pos && cl.Op == "T.BatchDeliver" {
					delivered = true
				}
			}
			rep := M{"check": "C04", "type": c.typ, "body": c.body, "choices": x.Choices(), "fault_at": op}
			if ran {
				vs = append(vs, viol{fmt.Sprintf("callback-after-failed-default-effect|%s|%s", c.typ, op), fmt.Sprintf("%s: %s failed inside the default effect, yet the wrapped callback ran", c.typ, op), rep})
			}
			if delivered {
				vs = append(vs, viol{fmt.Sprintf("response-after-failed-default-effect|%s|%s", c.typ, op), fmt.Sprintf("%s: %s failed inside the default effect, yet an automatic response was delivered", c.typ, op), rep})
			}
			if out.Err == nil {
				vs = append(vs, viol{fmt.Sprintf("failed-default-effect-reported-as-success|%s|%s", c.typ, op), fmt.Sprintf("%s: %s failed inside the default effect, yet the request reports success", c.typ, op), rep})
			}
			return true
		}
		e.Explore()
		mu.Lock()
		defer mu.Unlock()
		res.Evaluations += n
		res.Nontrivial[fmt.Sprintf("fault|%s|%d|%d", c.typ, c.onFollow, i)] = struct{}{}
		for _, v := range vs {
			res.Violate(v.key, v.what, v.rep)
		}
	})
	res.Extra["single_fault_cases"] = len(faultCases)
	for _, i := range []int{3, len(cases) / 2, len(cases) - 20} {
		res.Sample(M{"type": cases[i].typ, "body": cases[i].body, "callbacks": int(cases[i].cb), "on_follow": int(cases[i].onFollow)})
	}
	return res.Finish()
}
