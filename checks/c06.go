package checks

import (
	"fmt"
	"sort"
	"strings"
	"sync"

	ap "verif/apmodel"
	"verif/mc"
)

type c06case struct {
	family string
	name   string
	body   M
	tweak  func(a *ap.App)
	// oracle
	mustRefuse  bool     // negative direction: the request must fail and change nothing
	noWrites    []string // seam operations that must not be called at all
	wantCB      *bool    // Undo: wrapped callback must (not) run
	wantBlocked []string // block check: ids Blocked must receive (multiset)
	following   *bool    // Accept: following must (not) change
	// legit, if set, is a LEGITIMATE activity carrying the same id; it is first delivered to another
	// local inbox of the same Actor (an id that was verified once must not vouch for a later request)
	legit      M
	afterLegit bool
}

func boolp(b bool) *bool { return &b }

func c06cases(thorough bool) []c06case {
	var cs []c06case
	maxObj := 3
	if thorough {
		maxObj = 4
	}
	// ---- (a) Update / Delete: hosts ----
	type hostV struct {
		name, host string
		verdict    int // 0 same, 1 must refuse, 2 either
	}
	hosts := []hostV{{"same", "r1.example", 0}, {"other-domain", "evil.example", 1}, {"other-port", "r1.example:8443", 1},
		{"default-port", "r1.example:443", 2}, {"sub-domain", "sub.r1.example", 1}, {"upper-case", "R1.EXAMPLE", 2}, {"parent-domain", "example", 1}}
	var hostSeqs [][]hostV
	var gen func(cur []hostV)
	gen = func(cur []hostV) {
		if len(cur) > 0 {
			hostSeqs = append(hostSeqs, append([]hostV(nil), cur...))
		}
		if len(cur) == maxObj {
			return
		}
		for _, h := range hosts {
			gen(append(cur, h))
		}
	}
	gen(nil)
	for _, typ := range []string{"Update", "Delete"} {
		for _, actHost := range []string{"r1.example", "r1.example:8443"} {
			for _, seq := range hostSeqs {
				for _, form := range []string{"embedded", "iri", "link", "mention"} {
					if typ == "Update" && form == "iri" {
						continue
					}
					if (form == "link" || form == "mention") && len(seq) > 2 {
						continue
					}
					objs := L{}
					refuse, names := false, []string{}
					for i, h := range seq {
						host, verdict := h.host, h.verdict
						if actHost != "r1.example" {
							// activity on the non-default port: "same" means that very host:port
							switch h.name {
							case "same":
								host = actHost
							case "other-port":
								host, verdict = "r1.example", 1
							case "default-port", "upper-case":
								continue
							}
						}
						id := fmt.Sprintf("https://%s/n/%d", host, 50+i)
						if verdict == 1 {
							refuse = true
						}
						names = append(names, h.name)
						switch form {
						case "iri":
							objs = append(objs, id)
						case "link", "mention":
							// a Link-derived value carrying both id and href: its identity is the id; the href
							// (on the activity's own host) must not vouch for it
							objs = append(objs, M{"type": map[string]string{"link": "Link", "mention": "Mention"}[form], "id": id, "href": fmt.Sprintf("https://%s/n/%d", actHost, 50+i), "name": "x"})
						default:
							objs = append(objs, Emb("Note", id, "content", "x"))
						}
					}
					if len(objs) == 0 || !refuse {
						continue
					}
					var ov interface{} = objs
					if len(objs) == 1 {
						ov = objs[0]
					}
					okObj := interface{}(Emb("Note", fmt.Sprintf("https://%s/n/legit", actHost), "content", "legit"))
					if typ == "Delete" {
						okObj = fmt.Sprintf("https://%s/n/legit", actHost)
					}
					cs = append(cs, c06case{family: "origin", name: fmt.Sprintf("%s activity@%s objects=%v %s", typ, actHost, names, form),
						body: Doc(typ, "https://"+actHost+"/a/1", "actor", Carol, "object", ov), mustRefuse: true, noWrites: []string{"DB.Update", "DB.Delete"},
						legit: Doc(typ, "https://"+actHost+"/a/1", "actor", Carol, "object", okObj)})
				}
			}
		}
	}
	// ---- (b) Accept / Follow graphs ----
	stored := []struct {
		name  string
		doc   M
		legit bool
		objs  []string
	}{
		{"ours", Doc("Follow", Follow1, "actor", Alice, "object", Carol), true, []string{Carol}},
		{"ours-two-objects", Doc("Follow", Follow1, "actor", Alice, "object", L{Carol, Dave}), true, []string{Carol, Dave}},
		{"ours-two-actors", Doc("Follow", Follow1, "actor", L{Bob, Alice}, "object", Carol), true, []string{Carol}},
		{"absent", nil, false, nil},
		{"other-type", Doc("Note", Follow1, "attributedTo", Alice, "content", "not a follow"), false, nil},
		{"other-actor", Doc("Follow", Follow1, "actor", Bob, "object", Carol), false, nil},
		// an activity of the local actor that names the peer as object but is not a Follow
		{"stored-like-not-follow", Doc("Like", Follow1, "actor", Alice, "object", L{Carol, Dave}), false, nil},
		{"stored-block-not-follow", Doc("Block", Follow1, "actor", Alice, "object", L{Carol, Dave, Erin}), false, nil},
		{"stored-offer-not-follow", Doc("Offer", Follow1, "actor", Alice, "object", Carol, "target", Carol), false, nil},
		{"stored-create-not-follow", Doc("Create", Follow1, "actor", Alice, "object", Emb("Note", Follow1+"/n", "content", "x"), "to", Carol), false, nil},
		{"lacks-accepting-actor", Doc("Follow", Follow1, "actor", Alice, "object", Erin), true, []string{Erin}},
		// the stored Follow names one followed actor twice: a repeated object must not vouch for a stranger
		{"ours-object-twice", Doc("Follow", Follow1, "actor", Alice, "object", L{Carol, Carol}), true, []string{Carol}},
		{"ours-object-twice-mixed-spelling", Doc("Follow", Follow1, "actor", Alice, "object", L{Carol, Emb("Person", Carol), Dave}), true, []string{Carol, Dave}},
	}
	claimed := Doc("Follow", Follow1, "actor", Alice, "object", L{Carol, Dave, Erin}) // what the peer claims
	for _, st := range stored {
		for _, form := range []string{"embedded", "iri"} {
			for _, actors := range [][]interface{}{{Carol}, {Dave}, {Carol, Dave}, {Carol, Erin}, {Emb("Person", Carol)}, {Erin},
				{M{"type": "Link", "id": Erin, "href": Carol}}, {M{"type": "Link", "id": Carol, "href": Erin}}, {M{"type": "Mention", "href": Carol}}, {Carol, M{"type": "Mention", "id": Erin, "href": Dave}},
				{strings.Replace(Carol, "/u/carol", "/u/CAROL", 1)}, {Carol + "/"}, {Carol + "#main"}, {Carol, Carol + "?x=1"}} {
				st, form, actors := st, form, actors
				var obj interface{} = Follow1
				if form == "embedded" {
					e := deepCopy(claimed).(map[string]interface{})
					delete(e, "@context")
					obj = e
				}
				legit := st.legit
				var names []string
				for _, ac := range actors {
					id := idOf(jsonNormV(ac))
					names = append(names, shortID(id))
					found := false
					for _, o := range st.objs {
						if o == id {
							found = true
						}
					}
					if !found {
						legit = false
					}
				}
				var av interface{} = L(actors)
				if len(actors) == 1 {
					av = actors[0]
				}
				c := c06case{family: "accept", name: fmt.Sprintf("Accept stored=%s follow-%s actors=%v", st.name, form, names),
					body: Doc("Accept", RAct, "actor", av, "object", obj), following: boolp(legit), mustRefuse: false}
				c.tweak = func(a *ap.App) {
					delete(a.Store, Follow1)
					if st.doc != nil {
						a.PutDoc(st.doc)
					}
					a.PutRemote(Follow1, claimed) // the dereferenced copy always supports the peer's claim
				}
				cs = append(cs, c)
			}
		}
	}
	// ---- (c) Undo: actor sets ----
	undone := "https://r1.example/like/77"
	for _, rel := range []struct {
		name       string
		undo, orig []interface{}
		ok         bool
	}{
		{"equal", L{Carol}, L{Carol}, true}, {"equal-two", L{Carol, Dave}, L{Dave, Carol}, true}, {"superset", L{Carol, Dave}, L{Carol}, true},
		{"subset", L{Carol}, L{Carol, Dave}, false}, {"disjoint", L{Erin}, L{Carol}, false}, {"overlap", L{Carol, Erin}, L{Carol, Dave}, false},
		{"embedded-equal", L{Emb("Person", Carol)}, L{Carol}, true}, {"embedded-disjoint", L{Emb("Person", Erin)}, L{Emb("Person", Carol)}, false},
		{"link-id-differs-href-matches", L{M{"type": "Link", "id": Erin, "href": Carol}}, L{Carol}, false},
		{"link-id-matches-href-differs", L{M{"type": "Link", "id": Carol, "href": Erin}}, L{Carol}, true},
		{"orig-link-id-differs-href-matches", L{Erin}, L{M{"type": "Link", "id": Carol, "href": Erin}}, false},
		{"mention-href-equal", L{M{"type": "Mention", "href": Carol}}, L{Carol}, true},
		// an actor repeated on the Undo must not stand in for a missing co-actor of the undone activity
		{"undo-actor-repeated-orig-two", L{Carol, Carol}, L{Carol, Dave}, false},
		{"undo-actor-repeated-mixed-spelling", L{Carol, Emb("Person", Carol)}, L{Carol, Dave}, false},
		{"undo-actor-repeated-three-orig-three", L{Carol, Dave, Carol}, L{Carol, Dave, Erin}, false},
		{"orig-actor-repeated", L{Carol}, L{Carol, Carol}, true},
		// ids that differ only in letter case outside the host, in a trailing slash, a query or a fragment are
		// different actors
		{"undo-actor-differs-in-path-case", L{strings.Replace(Carol, "/u/carol", "/u/Carol", 1)}, L{Carol}, false},
		{"undo-actor-differs-by-trailing-slash", L{Carol + "/"}, L{Carol}, false},
		{"undo-actor-differs-by-fragment", L{Carol + "#main"}, L{Carol}, false},
		{"undo-actor-differs-by-query", L{Carol + "?x=1"}, L{Carol}, false},
		{"undo-actor-is-prefix-of-orig", L{strings.TrimSuffix(Carol, "l")}, L{Carol}, false},
	} {
		for _, form := range []string{"embedded", "iri", "forged"} {
			if form == "forged" && rel.ok {
				continue
			}
			for _, n := range []int{1, 2} {
				rel, form := rel, form
				origDoc := Doc("Like", undone, "actor", val1(rel.orig), "object", Note1)
				okDoc := Doc("Like", undone+"-ok", "actor", val1(rel.undo), "object", Note1)
				objs := L{}
				mk := func(d M) interface{} {
					if form == "iri" {
						return d["id"]
					}
					e := deepCopy(d).(map[string]interface{})
					delete(e, "@context")
					if form == "forged" {
						// the sender's embedded copy claims the Undo's own actors; the origin says otherwise
						e["actor"] = deepCopy(val1(rel.undo))
					}
					return e
				}
				objs = append(objs, mk(origDoc))
				if n == 2 {
					objs = L{mk(okDoc), mk(origDoc)}
				}
				c := c06case{family: "undo", name: fmt.Sprintf("Undo actors=%s object-%s n=%d", rel.name, form, n),
					body: Doc("Undo", RAct, "actor", val1(rel.undo), "object", val1(objs)), wantCB: boolp(rel.ok), mustRefuse: !rel.ok,
					legit: Doc("Undo", RAct, "actor", val1(rel.undo), "object", mk(okDoc))}
				c.tweak = func(a *ap.App) {
					a.Callbacks = ap.CBWrapped
					a.PutRemote(undone, origDoc)
					a.PutRemote(undone+"-ok", okDoc)
				}
				cs = append(cs, c)
			}
		}
	}
	// the undone activity cannot be fetched: the sender's own embedded copy must not be trusted
	for _, n := range []int{1, 2} {
		forged := Emb("Like", undone, "actor", Erin, "object", Note1) // the real one (by Carol) is unreachable
		objs := L{forged}
		if n == 2 {
			objs = L{Emb("Like", undone+"-ok", "actor", Erin, "object", Note1), forged}
		}
		c := c06case{family: "undo", name: fmt.Sprintf("Undo of an unreachable activity, embedded copy claims the sender as actor, n=%d", n),
			body: Doc("Undo", RAct, "actor", Erin, "object", val1(objs)), wantCB: boolp(false), mustRefuse: true}
		c.tweak = func(a *ap.App) {
			a.Callbacks = ap.CBWrapped
			delete(a.Remote, undone)
			a.PutRemote(undone+"-ok", Doc("Like", undone+"-ok", "actor", Erin, "object", Note1))
		}
		cs = append(cs, c)
	}
	// ---- (d) block check ----
	actorAlpha := []struct {
		name string
		v    interface{}
		id   string
	}{{"carol", Carol, Carol}, {"{carol}", Emb("Person", Carol, "inbox", Carol+"/inbox"), Carol}, {"dave", Dave, Dave}, {"{erin}", Emb("Service", Erin), Erin},
		{"{link id=carol href=frank}", M{"type": "Link", "id": Carol, "href": Frank}, Carol}, {"{mention href=dave}", M{"type": "Mention", "href": Dave}, Dave}}
	var actorSeqs [][]int
	var gen2 func(cur []int)
	gen2 = func(cur []int) {
		if len(cur) > 0 {
			actorSeqs = append(actorSeqs, append([]int(nil), cur...))
		}
		if len(cur) == maxObj+1 || len(cur) == 3 {
			return
		}
		for i := range actorAlpha {
			gen2(append(cur, i))
		}
	}
	gen2(nil)
	for _, seq := range actorSeqs {
		for blockedMask := 0; blockedMask < 1<<uint(len(seq)); blockedMask++ {
			if len(seq) == 3 && blockedMask != 0 && blockedMask != 4 && blockedMask != 2 {
				continue
			}
			if len(seq) == 3 && !thorough && (seq[0] > 3 || seq[1] > 3) && seq[2] <= 3 {
				continue
			}
			seq, blockedMask := seq, blockedMask
			var av L
			var ids, names []string
			blockedIDs := map[string]bool{}
			for i, ai := range seq {
				av = append(av, actorAlpha[ai].v)
				ids = append(ids, actorAlpha[ai].id)
				n := actorAlpha[ai].name
				if blockedMask&(1<<uint(i)) != 0 {
					blockedIDs[actorAlpha[ai].id] = true
					n += "*"
				}
				names = append(names, n)
			}
			c := c06case{family: "block", name: fmt.Sprintf("Like actors=%v (*=blocked)", names),
				body: Doc("Like", RAct, "actor", val1(av), "object", Note1), wantBlocked: ids, mustRefuse: len(blockedIDs) > 0}
			c.tweak = func(a *ap.App) {
				for id := range blockedIDs {
					a.BlockedSet[id] = true
				}
			}
			cs = append(cs, c)
		}
	}
	// long actor lists (5..9, 12 and 17 distinct actors; IRI and embedded in turn), exactly one of them blocked,
	// at every position; and two actors whose ids differ only in letter case, the later one blocked
	for _, n := range []int{5, 6, 7, 8, 9, 12, 17} {
		for p := 0; p < n; p++ {
			if n > 9 && p != 0 && p != n-1 && p != n/2 && p%4 != 0 {
				continue
			}
			var av L
			var ids []string
			for i := 0; i < n; i++ {
				id := fmt.Sprintf("https://r1.example/u/p%d", i)
				ids = append(ids, id)
				if i%2 == 1 {
					av = append(av, Emb("Person", id))
				} else {
					av = append(av, id)
				}
			}
			blocked := ids[p]
			c := c06case{family: "block", name: fmt.Sprintf("Like by %d actors, #%d blocked", n, p), body: Doc("Like", RAct, "actor", av, "object", Note1), wantBlocked: ids, mustRefuse: true}
			c.tweak = func(a *ap.App) { a.BlockedSet[blocked] = true }
			cs = append(cs, c)
		}
		if n <= 6 {
			var av L
			var ids []string
			for i := 0; i < n-2; i++ {
				id := fmt.Sprintf("https://r1.example/u/p%d", i)
				ids = append(ids, id)
				av = append(av, id)
			}
			lower, upper := "https://r1.example/u/mallory", "https://r1.example/u/Mallory"
			ids = append(ids, lower, upper)
			av = append(L{lower}, append(av, upper)...)
			c := c06case{family: "block", name: fmt.Sprintf("Like by %d actors, two ids differing in case, the later one blocked", n), body: Doc("Like", RAct, "actor", av, "object", Note1), wantBlocked: ids, mustRefuse: true}
			c.tweak = func(a *ap.App) { a.BlockedSet[upper] = true }
			cs = append(cs, c)
		}
	}
	cs = append(cs, c06case{family: "block", name: "Like block-check-errors", body: Doc("Like", RAct, "actor", L{Carol, Emb("Person", Dave)}, "object", Note1),
		wantBlocked: []string{Carol, Dave}, mustRefuse: true, tweak: func(a *ap.App) { a.BlockedOutcome = ap.Error }})
	return cs
}

func val1(l []interface{}) interface{} {
	if len(l) == 1 {
		return l[0]
	}
	return L(l)
}

func jsonNormV(v interface{}) interface{} { return deepCopy(v) }

// C06 — a federated peer cannot act beyond its authority.
func C06(tier string) int {
	res := NewResult("C06", tier, "exploration")
	cases := c06cases(res.Thorough())
	for _, c := range append([]c06case(nil), cases...) {
		if c.legit != nil && c.mustRefuse {
			v := c
			v.afterLegit = true
			v.name += " [after a legitimate activity with the same id at another inbox]"
			cases = append(cases, v)
		}
	}
	res.Rule = fmt.Sprintf("(a) Update/Delete with the activity id on a host (default and non-default port) and every sequence of 1..%d object ids over hosts {same, other domain, other port, explicit default port, sub-domain, upper-case, parent domain}, embedded / IRI / embedded Link or Mention carrying the id plus an href on the activity's own host, keeping the sequences that contain a host that must be refused; (b) Accept with the stored Follow in {ours, ours with two objects, ours with two actors, absent, a Note, another actor's, lacking the accepting actor, a Like / Block / Offer / Create of the local actor naming the peer} x Follow embedded / by IRI (the peer's copy always supports its claim) x 14 accepting-actor sets (IRI, embedded actor, Link / Mention with id and differing href, Mention with href only, ids differing from a followed actor's only in path case / a trailing slash / a fragment / a query); (c) Undo with actor sets equal / superset / subset / disjoint / overlapping / differing only in path case, trailing slash, fragment, query or by being a prefix, embedded / IRI / embedded with the copy forged to claim the Undo's actors, 1..2 undone activities; (c') the same with Link-spelled actors whose id and href disagree; (d) every sequence of 1..3 activity actors (IRI / embedded actor / Link with id and another href / Mention with href only) x blocked subsets, lists of 5..9, 12 and 17 distinct actors with exactly one blocked at every position, two actors whose ids differ only in letter case with the later one blocked, and an erroring block check; %d requests; every refused Update / Delete / Undo again after a LEGITIMATE activity carrying the same id was accepted at another local inbox of the same Actor; every refused or unverified Update / Delete / Accept / Undo again with each single (thorough, and the Undo family always: double) seam call failing (no write, no Undo callback, no state change beyond the inbox entry whatever fails); oracle: refusal implies the request fails and the state differs from the initial one at most by the inbox entry", map[bool]int{false: 3, true: 4}[res.Thorough()], len(cases))
	res.Assumptions = []string{"hosts differing only in case or by an explicit default port may be accepted or refused", "positive application for equal hosts is C04's"}
	var mu sync.Mutex
	chunk := 100
	parallel((len(cases)+chunk-1)/chunk, func(ci int) {
		lo, hi := ci*chunk, (ci+1)*chunk
		if hi > len(cases) {
			hi = len(cases)
		}
		type viol struct {
			key, what string
			rep       M
		}
		var vs []viol
		outc := map[string]int{}
		classes := map[string]struct{}{}
		for _, c := range cases[lo:hi] {
			c := c
			sc := &Scenario{Name: c.name, Kind: ap.Both, Entry: "PostInbox", URL: inbox(Alice), Body: c.body, Tweak: c.tweak}
			a := sc.World()
			if c.afterLegit {
				(&Scenario{Name: c.name + "/legit-first", Kind: ap.Both, Entry: "PostInbox", URL: inbox(Bob), Body: c.legit}).On(a, nil)
			}
			logStart := len(a.Log)
			before := RefOf(a)
			out := sc.On(a, nil)
			rep := M{"check": "C06", "family": c.family, "case": c.name, "body": c.body, "after_legit_same_id": c.afterLegit}
			if out.Panic != nil {
				outc["panic(C11)"]++
				continue
			}
			classes[c.family+"|"+c.name] = struct{}{}
			bad := func(kind, what string) {
				vs = append(vs, viol{c.family + "|" + kind, c.name + ": " + what, rep})
			}
			failed := out.Err != nil || len(out.W.Statuses) == 0 || out.W.Statuses[0] != 200
			outc[fmt.Sprintf("%s:failed=%v", c.family, failed)]++
			// state change beyond the inbox entry?
			exp := before.Clone()
			if id, ok := c.body["id"].(string); ok && !(c.family == "block" && c.mustRefuse) {
				exp.In[inbox(Alice)] = append([]string{id}, exp.In[inbox(Alice)]...)
			}
			diff := exp.Diff(a, nil)
			// the activity itself being recorded as seen (InboxForwarding) is bookkeeping, not a side effect
			var real []string
			for _, d := range diff {
				if strings.HasPrefix(d, "unexpected stored value "+fmt.Sprint(c.body["id"])) {
					continue
				}
				real = append(real, d)
			}
			if c.mustRefuse {
				if !failed {
					bad("not-refused", fmt.Sprintf("the request succeeds (statuses %v)", out.W.Statuses))
				}
				if len(real) > 0 {
					bad("state-changed-although-refused|"+diffClass(real[0]), strings.Join(real, "; "))
				}
				if c.family == "block" {
					// blocked: not even the inbox entry
					if len(a.Inboxes[inbox(Alice)]) != len(before.In[inbox(Alice)]) {
						bad("blocked-activity-noted-in-inbox", "the inbox changed")
					}
				}
			}
			for _, op := range c.noWrites {
				for _, cl := range a.Log[logStart:] {
					if cl.Op == op {
						bad("applied-"+op, fmt.Sprintf("%s(%s) was called", op, cl.Arg))
					}
				}
			}
			if c.following != nil {
				changed := false
				for _, d := range real {
					if strings.Contains(d, "/following") {
						changed = true
					}
				}
				if changed != *c.following {
					bad(fmt.Sprintf("following-changed=%v", changed), fmt.Sprintf("following changed=%v, the three Accept conditions hold=%v; diff=%v", changed, *c.following, real))
				}
				if !*c.following {
					for _, d := range real {
						bad("state-changed-by-unverified-accept|"+diffClass(d), d)
					}
				}
			}
			if c.wantCB != nil {
				ran := false
				for _, cl := range a.Log[logStart:] {
					if cl.Op == "Fed.cb.Undo" {
						ran = true
					}
				}
				if ran != *c.wantCB {
					bad(fmt.Sprintf("undo-accepted=%v", ran), fmt.Sprintf("the Undo was accepted (callback ran)=%v, its actors cover the undone activities' actors=%v", ran, *c.wantCB))
				}
			}
			if c.wantBlocked != nil {
				var got []string
				blockedAt, firstSide := -1, -1
				for i, cl := range a.Log[logStart:] {
					if cl.Op == "Fed.Blocked" && blockedAt < 0 {
						blockedAt = i
						got = strings.Fields(cl.Arg)
					}
					if firstSide < 0 && (strings.HasPrefix(cl.Op, "DB.") || strings.HasPrefix(cl.Op, "T.") || strings.Contains(cl.Op, ".cb.")) {
						firstSide = i
					}
				}
				w := append([]string(nil), c.wantBlocked...)
				sort.Strings(w)
				g := append([]string(nil), got...)
				sort.Strings(g)
				if strings.Join(w, " ") != strings.Join(g, " ") {
					kind := "block-check-wrong-ids"
					for _, x := range g {
						if x == RAct {
							kind = "block-check-asked-about-activity-id"
						}
					}
					bad(kind, fmt.Sprintf("Blocked was asked about %v, the activity's actors are %v", shortIDs(g), shortIDs(w)))
				}
				if blockedAt < 0 || (firstSide >= 0 && firstSide < blockedAt) {
					bad("side-effect-before-block-check", fmt.Sprintf("Blocked at call %d, first side effect at call %d", blockedAt, firstSide))
				}
			}
		}
		mu.Lock()
		defer mu.Unlock()
		res.Evaluations += hi - lo
		for k := range classes {
			res.Nontrivial[k] = struct{}{}
		}
		for k, v := range outc {
			res.Outcomes[k] += v
		}
		for _, v := range vs {
			res.Violate(v.key, v.what, v.rep)
		}
	})
	// ---- every refused / unverified request again with each single (thorough, and the Undo family always: double) seam call failing:
	// a failure on the way (the undone activity or the Follow cannot be fetched, a read fails) must not
	// turn a refusal into an acceptance ----
	var fcases []c06case
	for _, c := range cases {
		if c.afterLegit || c.family == "block" {
			continue
		}
		if c.family == "origin" && len(asList(c.body["object"])) > 2 {
			continue
		}
		if c.mustRefuse || (c.wantCB != nil && !*c.wantCB) || (c.following != nil && !*c.following) {
			fcases = append(fcases, c)
		}
	}
	fbound := 1
	if res.Thorough() {
		fbound = 2
	}
	nFault := 0
	parallel(len(fcases), func(i int) {
		c := fcases[i]
		sc := &Scenario{Name: c.name, Kind: ap.Both, Entry: "PostInbox", URL: inbox(Alice), Body: c.body, Tweak: c.tweak}
		e := &mc.Explorer{}
		e.Budget = [3]int{0, fbound, 0}
		if c.family == "undo" {
			e.Budget = [3]int{0, 2, 0} // the Undo family is small: two simultaneous faults in the quick tier too
		}
		n := 0
		type viol struct {
			key, what string
			rep       M
		}
		var vs []viol
		e.Run = func(x *mc.Exec) bool {
			a := sc.World()
			before := RefOf(a)
			a.X, a.Faults = x, true
			out := sc.On(a, nil)
			f := faultOps(x)
			if len(f) == 0 || out.Panic != nil {
				return true // the fault-free run is judged above
			}
			n++
			rep := M{"check": "C06", "part": "faults", "family": c.family, "case": c.name, "body": c.body, "choices": x.Choices(), "faults": f}
			bad := func(kind, what string) {
				vs = append(vs, viol{c.family + "|under-fault|" + kind, fmt.Sprintf("%s with %v failing: %s", c.name, f, what), rep})
			}
			for _, cl := range a.Log {
				for _, op := range c.noWrites {
					if cl.Op == op {
						bad("applied-"+op, fmt.Sprintf("%s(%s) was called", op, cl.Arg))
					}
				}
				if cl.Op == "Fed.cb.Undo" && c.wantCB != nil && !*c.wantCB {
					bad("undo-accepted", "the Undo callback ran")
				}
			}
			// the state may differ from the initial one by the inbox entry and the seen-record only
			filter := func(ds []string) (real []string) {
				for _, d := range ds {
					if !strings.Contains(d, fmt.Sprint(c.body["id"])) {
						real = append(real, d)
					}
				}
				return
			}
			real := filter(before.Diff(a, nil))
			if id, ok := c.body["id"].(string); ok && len(real) > 0 {
				with := before.Clone()
				with.In[inbox(Alice)] = append([]string{id}, with.In[inbox(Alice)]...)
				if r2 := filter(with.Diff(a, nil)); len(r2) < len(real) {
					real = r2
				}
			}
			if len(real) > 0 {
				bad("state-changed|"+diffClass(real[0]), strings.Join(real, "; "))
			}
			return true
		}
		e.Explore()
		mu.Lock()
		defer mu.Unlock()
		if !e.Exhaustive {
			res.Exhaustive = false
		}
		nFault += n
		for _, v := range vs {
			res.Violate(v.key, v.what, v.rep)
		}
	})
	res.Evaluations += nFault
	res.Extra["runs_under_faults"] = nFault
	res.Extra["fault_bound_completed"] = fbound
	for _, i := range []int{0, len(cases) / 2, len(cases) - 40, len(cases) - 2} {
		res.Sample(M{"case": cases[i].name, "body": cases[i].body})
	}
	return res.Finish()
}

var _ = mc.KFault
