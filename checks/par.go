package checks

import (
	"bytes"
	"context"
	"encoding/json"
	"fmt"
	"os"
	"os/exec"
	"runtime"
	"sync"
	"time"
)

// worker runs this binary again as a single-threaded worker process and decodes its JSON result.
func worker(out interface{}, args ...string) error {
	exe, err := os.Executable()
	if err != nil {
		return err
	}
	cmd := exec.Command(exe, args...)
	cmd.Env = append(os.Environ(), "GOMAXPROCS=1")
	var stdout, stderr bytes.Buffer
	cmd.Stdout = &stdout
	cmd.Stderr = &stderr
	if err := cmd.Run(); err != nil {
		return fmt.Errorf("%v: %s", err, tail(stderr.String(), 2000))
	}
	if err := json.Unmarshal(stdout.Bytes(), out); err != nil {
		return fmt.Errorf("bad worker output: %v: %s", err, tail(stdout.String(), 500))
	}
	return nil
}

// workerN is worker with a wall-clock limit (0 = 20 minutes); exceeding it is reported as an error.
func workerN(out interface{}, secs int, args ...string) error {
	if secs == 0 {
		secs = 1200
	}
	exe, err := os.Executable()
	if err != nil {
		return err
	}
	ctx, cancel := context.WithTimeout(context.Background(), time.Duration(secs)*time.Second)
	defer cancel()
	cmd := exec.CommandContext(ctx, exe, args...)
	cmd.Env = append(os.Environ(), "GOMAXPROCS=2")
	var stdout, stderr bytes.Buffer
	cmd.Stdout = &stdout
	cmd.Stderr = &stderr
	if err := cmd.Run(); err != nil {
		if ctx.Err() != nil {
			return fmt.Errorf("timed out after %ds", secs)
		}
		return fmt.Errorf("%v: %s", err, tail(stderr.String(), 1500))
	}
	if err := json.Unmarshal(stdout.Bytes(), out); err != nil {
		return fmt.Errorf("bad worker output: %v: %s", err, tail(stdout.String(), 500))
	}
	return nil
}

func tail(s string, n int) string {
	if len(s) > n {
		return s[len(s)-n:]
	}
	return s
}

// parallel runs fn(i) for i in [0,n) on a worker pool and returns when all are done.
func parallel(n int, fn func(i int)) {
	w := runtime.NumCPU()
	if w > n {
		w = n
	}
	if w < 1 {
		w = 1
	}
	var wg sync.WaitGroup
	ch := make(chan int, n)
	for i := 0; i < n; i++ {
		ch <- i
	}
	close(ch)
	for k := 0; k < w; k++ {
		wg.Add(1)
		go func() {
			defer wg.Done()
			for i := range ch {
				fn(i)
			}
		}()
	}
	wg.Wait()
}
