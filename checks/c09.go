package checks

import (
	"fmt"
	"sort"
	"strings"
	"sync"

	"verif/mc"
)

// faultOps lists the operations at which faults were injected in an execution.
func faultOps(x *mc.Exec) []string {
	var f []string
	for _, p := range x.Points {
		if p.Kind == mc.KFault && p.Chosen == 1 {
			f = append(f, p.Label)
		}
	}
	return f
}

func subset(a, b []string) bool {
	cnt := map[string]int{}
	for _, x := range b {
		cnt[x]++
	}
	for _, x := range a {
		if cnt[x] == 0 {
			return false
		}
		cnt[x]--
	}
	return true
}

// minimalKeys attributes a violation to the smallest fault set already known to exhibit it.
type minimalKeys struct{ seen map[string][][]string }

func (m *minimalKeys) key(base string, faults []string) string {
	if m.seen == nil {
		m.seen = map[string][][]string{}
	}
	for _, s := range m.seen[base] {
		if subset(s, faults) {
			return base + "|faults=" + strings.Join(s, ",")
		}
	}
	cp := append([]string(nil), faults...)
	sort.Strings(cp)
	m.seen[base] = append(m.seen[base], cp)
	return base + "|faults=" + strings.Join(cp, ",")
}

func logTail(calls []string, n int) []string {
	if len(calls) > n {
		return calls[len(calls)-n:]
	}
	return calls
}

// C09 — every lock taken is released exactly once; none is retaken or leaked.
func C09(tier string) int {
	res := NewResult("C09", tier, "fault_enumeration")
	bound := 1
	corpus := append(append(append(CorpusWithHooks(), AddressingCorpus()...), HistoryCorpus()...), TypeCorpus()...)
	if res.Thorough() {
		bound = 2
	}
	res.Rule = fmt.Sprintf("for each of %d scenarios (every default side-effect path of both protocols, delivery, forwarding, GET endpoints; each POST scenario also with application hooks that log / fail after the default effect / call back into the library, and again started from the state an earlier request of the same kind left behind; a generated addressing family with forwarding filters that work in place); plus every corpus request with one body node removed, emptied or replaced by a value of another legal shape ([], object without id, typeless object, unreachable IRI, href-only Link / Mention, Link with id and href, two-element list), fault-free and under every single fault; plus every ordered pair of POST scenarios as a fault-free two-request history on one application and one Actor: the fault-free run and every run with <= %d (for the base corpus without hook variants always <= 2) of its fallible seam calls (Database incl. Lock/Unlock, Transport, NewTransport, callbacks) failing, enumerated depth-first by choice list; non-trivial = a run in which the library took at least one lock; distinct = (scenario, choice list)", len(corpus), bound)
	res.Assumptions = []string{"an erroring Unlock still frees the lock, an erroring Lock does not acquire it",
		"locks are counted, not blocking (one request cannot hang the check)", "fault bound as stated"}
	mk := &minimalKeys{}
	// quick tier: the base corpus (every default side-effect path once, no hook variants) also with every PAIR of
	// simultaneous faults - a second fault on the error path of the first is where an unlock goes missing
	base := Corpus()
	baseBound := 2
	for b := 0; b <= bound || b <= baseBound; b++ {
		list := corpus
		if b > bound {
			list = base
		}
		for _, sc := range list {
			sc := sc
			e := &mc.Explorer{}
			e.Budget = [3]int{0, b, 0}
			e.Run = func(x *mc.Exec) bool {
				out := sc.Exec(x, true)
				f := faultOps(x)
				if len(f) != b {
					return true // counted at its own budget level
				}
				class := ""
				locked := false
				for _, c := range out.App.Log {
					if c.Op == "DB.Lock" {
						locked = true
					}
				}
				if locked {
					class = fmt.Sprintf("%s|%v", sc.Name, x.Choices())
				}
				res.Case(class)
				if len(out.Req.Violations) == 0 {
					res.Outcome("clean")
				}
				for _, v := range out.Req.Violations {
					res.Outcome(v.Kind)
					base := fmt.Sprintf("%s|site=%s|holder=%s", v.Kind, NormSite(v.Site), NormSite(v.Holder))
					key := mk.key(base, f)
					calls := make([]string, len(out.App.Log))
					for i, c := range out.App.Log {
						calls[i] = c.String()
					}
					res.Violate(key, fmt.Sprintf("%s in scenario %s with faults %v", v.String(), sc.Name, f),
						M{"check": "C09", "scenario": sc.Name, "choices": x.Choices(), "faults": f, "violation": v.String(), "calls": logTail(calls, 60)})
				}
				if b == 1 && len(res.Samples) < 4 && len(f) == 1 {
					res.Sample(M{"scenario": sc.Name, "fault_at": f, "choices": x.Choices(), "err": fmt.Sprint(out.Err)})
				}
				return true
			}
			e.Explore()
			if !e.Exhaustive {
				res.Exhaustive = false
			}
		}
	}
	// unusual but legal inputs: every corpus request with one body node removed, emptied or replaced by a
	// value of another legal shape (C11's legal operators), fault-free and under every single fault - an
	// early return on an input of unexpected shape must release what was locked before it
	mut := MutatedCorpus()
	var mmu sync.Mutex
	nMut := 0
	parallel(len(mut), func(i int) {
		sc := mut[i]
		type mv struct {
			key, what string
			rep       M
			faults    []string
		}
		var vs []mv
		n := 0
		e := &mc.Explorer{}
		e.Budget = [3]int{0, 1, 0}
		e.Run = func(x *mc.Exec) bool {
			out := sc.Exec(x, true)
			n++
			if out.Panic != nil {
				return true
			}
			f := faultOps(x)
			for _, v := range out.Req.Violations {
				vs = append(vs, mv{fmt.Sprintf("%s|site=%s|holder=%s", v.Kind, NormSite(v.Site), NormSite(v.Holder)), fmt.Sprintf("%s in scenario %s with faults %v", v.String(), sc.Name, f),
					M{"check": "C09", "part": "mutated-input", "scenario": sc.Name, "body": sc.Body, "choices": x.Choices(), "faults": f, "violation": v.String()}, f})
			}
			return true
		}
		e.Explore()
		mmu.Lock()
		defer mmu.Unlock()
		nMut += n
		if !e.Exhaustive {
			res.Exhaustive = false
		}
		res.Case("mutated|" + sc.Name)
		for _, v := range vs {
			res.Violate(mk.key(v.key, v.faults), v.what, v.rep)
		}
	})
	res.Evaluations += nMut
	res.Extra["mutated_input_runs"] = nMut
	res.Extra["mutated_inputs"] = len(mut)
	// every ordered pair of POST scenarios as a two-request history on one application and one Actor
	// (fault-free): the lock discipline of a request must not depend on what was served before it
	pairs := PairHistoryCorpus()
	var pmu sync.Mutex
	parallel(len(pairs), func(i int) {
		sc := pairs[i]
		out := sc.Exec(mc.NewExec(nil), false)
		pmu.Lock()
		defer pmu.Unlock()
		res.Case("history|" + sc.Name)
		heldPayloads(res, "C09", out.App, sc.Name)
		for _, v := range out.Req.Violations {
			base := fmt.Sprintf("%s|site=%s|holder=%s", v.Kind, NormSite(v.Site), NormSite(v.Holder))
			res.Violate(mk.key(base, nil)+"|in-a-history", fmt.Sprintf("%s in history %s", v.String(), sc.Name), M{"check": "C09", "scenario": sc.Name, "part": "pair-history", "violation": v.String()})
		}
	})
	res.Extra["pair_histories"] = len(pairs)
	res.Evaluations += len(pairs)
	res.Extra["fault_bound_completed"] = bound
	res.Extra["scenarios"] = len(corpus)
	return res.Finish()
}

// ReplayC09 re-executes a recorded violation without the explorer.
func ReplayC09(rep M) {
	name, _ := rep["scenario"].(string)
	var choices []int
	for _, c := range rep["choices"].([]interface{}) {
		choices = append(choices, int(c.(float64)))
	}
	for _, sc := range append(append(append(CorpusWithHooks(), AddressingCorpus()...), HistoryCorpus()...), TypeCorpus()...) {
		if sc.Name == name {
			out := sc.Exec(mc.NewExec(choices), true)
			for _, c := range out.App.Log {
				fmt.Println(" ", c.String())
			}
			fmt.Println("err:", out.Err, "panic:", out.Panic)
			for _, v := range out.Req.Violations {
				fmt.Println("VIOLATION-DETAIL", v.String())
			}
			return
		}
	}
	fmt.Println("unknown scenario", name)
}
