package checks

import (
	"fmt"
	"os"
	"sync"
	"sync/atomic"
	"time"

	"verif/report"
)

// A request on the in-memory application takes well under a millisecond.  A request that is still
// running after `watchdog` (60 s) without the check having ended it is spinning inside the library
// (it makes no seam call, so the call horizon cannot stop it); it cannot be interrupted, so the
// monitor reports it and ends the process.

type activeReq struct {
	start time.Time
	name  string
	entry string
}

var (
	activeReqs sync.Map
	reqSeq     uint64
)

func beginReq(sc *Scenario) uint64 {
	id := atomic.AddUint64(&reqSeq, 1)
	activeReqs.Store(id, activeReq{time.Now(), sc.Name, sc.Entry})
	return id
}

func endReq(id uint64) { activeReqs.Delete(id) }

// StartWatchdog starts the monitor.  With property == "" (worker processes) a stuck request ends the
// process with exit status 4 and a line "HANG|<entry>|<site>|<scenario>" on stderr for the parent.
func StartWatchdog(property, tier string) {
	go func() {
		for {
			time.Sleep(2 * time.Second)
			activeReqs.Range(func(k, v interface{}) bool {
				r := v.(activeReq)
				if time.Since(r.start) < watchdog {
					return true
				}
				site, entryFrame := spinningSite()
				if property == "" {
					fmt.Fprintf(os.Stderr, "HANG|%s|%s|%s\n", r.entry, NormSite(entryFrame), r.name)
					os.Exit(4)
				}
				key := fmt.Sprintf("no-return|%s|%s", r.entry, NormSite(entryFrame))
				report.Hang(property, tier, key,
					fmt.Sprintf("scenario %q (%s): the request did not return within %v and makes no seam call (spinning in %s); the library fails to return on this input", r.name, r.entry, watchdog, site),
					map[string]interface{}{"check": property, "scenario": r.name, "entry": r.entry, "site": site})
				return false
			})
		}
	}()
}
