package checks

import (
	"encoding/json"
	"fmt"
	"sort"
	"strings"
	"sync"

	"github.com/go-fed/activity/pub"

	ap "verif/apmodel"
	"verif/mc"
)

// one hop of a reply chain
type hop struct {
	link string // inReplyTo | object | target | tag
	form string // embedded | iri | iri-missing | iri-unknown-type
}

type chainSpec struct {
	hops  []hop
	owned bool // the value at the end of the chain is owned by this server
	// sibling, if set, puts a second, unreachable value in front of the first hop's value
	// (the property becomes a two-element list): "missing" = an IRI that cannot be fetched,
	// "foreign" = a dereferencable foreign value without further links
	sibling string
	hidden  bool // the received activity carries bto / bcc (they must survive forwarding)
	// diamond, if set, replaces the linear chain: two branches of different length (kA / kB embedded
	// intermediate values below the links linkA / linkB of the activity) converge on ONE shared value
	// S (given by IRI or embedded) whose inReplyTo is the owned value
	diamond *diamondSpec
}

type diamondSpec struct {
	kA, kB       int
	linkA, linkB string
	sForm        string // iri | embedded
}

func (c chainSpec) String() string {
	if d := c.diamond; d != nil {
		return fmt.Sprintf("[diamond %s:%d-embedded + %s:%d-embedded -> shared %s -> owned=%v]", d.linkA, d.kA, d.linkB, d.kB, d.sForm, c.owned)
	}
	var s []string
	for _, h := range c.hops {
		s = append(s, h.link+":"+h.form)
	}
	extra := ""
	if c.sibling != "" {
		extra += " sibling=" + c.sibling
	}
	if c.hidden {
		extra += " bto+bcc"
	}
	return fmt.Sprintf("[%s owned=%v%s]", strings.Join(s, " "), c.owned, extra)
}

var linkNames = []string{"inReplyTo", "object", "target", "tag"}

const (
	c17RemoteOwned     = "https://r1.example/n/owned-by-this-server"
	c17LocalForeign    = "https://l.example/n/other-tenants-value"
	c17RemoteOwnedColl = "https://r1.example/c/owned-by-this-server"
	c17LocalForeignCol = "https://l.example/c/other-tenants-collection"
	c17BigColl         = "https://l.example/oc/big"
	c17Unreachable     = "https://r9.example/u/unreachable-member"
)

// build attaches the chain to act and registers remote documents; it returns the 1-based hop
// count at which an owned value is reachable (0 = never).
func (c chainSpec) build(act M, remote map[string]M) int {
	if d := c.diamond; d != nil {
		sID := "https://r1.example/chain/shared"
		end := "https://r1.example/chain/end"
		if c.owned {
			end = "https://l.example/n/owned-end"
		}
		shared := Emb("Add", sID, "summary", "shared", "inReplyTo", end)
		mkBranch := func(k int, tag string) interface{} {
			var v interface{} = sID
			if d.sForm == "embedded" {
				v = deepCopy(shared)
			}
			for i := k; i >= 1; i-- {
				v = Emb("Add", fmt.Sprintf("https://r1.example/chain/%s%d", tag, i), "summary", fmt.Sprintf("%s level %d", tag, i), "inReplyTo", v)
			}
			return v
		}
		act[d.linkA] = mkBranch(d.kA, "a")
		act[d.linkB] = mkBranch(d.kB, "b")
		if d.sForm == "iri" {
			doc := M{"@context": AS}
			for k, v := range shared {
				doc[k] = v
			}
			remote[sID] = doc
		}
		if !c.owned {
			return 0
		}
		k := d.kA
		if d.kB < k {
			k = d.kB
		}
		return k + 2 // S sits at level k+1, the owned value at k+2
	}
	cur := act
	reach := 0
	broken := false
	for i, h := range c.hops {
		last := i == len(c.hops)-1
		id := fmt.Sprintf("https://r1.example/chain/%d", i+1)
		if last && c.owned {
			id = fmt.Sprintf("https://l.example/n/owned-%d", i+1)
		}
		node := Emb("Add", id, "summary", fmt.Sprintf("level %d", i+1))
		switch h.form {
		case "embedded":
			cur[h.link] = node
		case "iri":
			cur[h.link] = id
			d := M{"@context": AS}
			for k, v := range node {
				d[k] = v
			}
			node = d
			remote[id] = node
		case "mention-href":
			// a Link-derived value is identified by its href when it has no id
			node = M{"type": "Mention", "href": id, "name": "@x"}
			cur[h.link] = node
		case "link-id-href":
			// id and href disagree: the id is the value's identity; an owned href must not count
			other := "https://l.example/n/owned-decoy"
			if c.owned {
				other = "https://r1.example/chain/decoy"
			}
			node = M{"type": "Link", "id": id, "href": other}
			cur[h.link] = node
		case "iri-remote-owned":
			// ownership is a per-IRI question: a value on a foreign host that this server owns
			cur[h.link] = c17RemoteOwned
			if !broken && reach == 0 {
				reach = i + 1
			}
		case "iri-local-foreign":
			// ... and a value on this server's host that it does not own
			cur[h.link] = c17LocalForeign
		case "iri-missing":
			cur[h.link] = id // nothing registered
			if !(last && c.owned) {
				broken = true
			}
		case "iri-unknown-type":
			cur[h.link] = id
			remote[id] = Doc("Frobnicate", id)
			if !(last && c.owned) {
				broken = true
			}
		}
		if last && c.owned && !broken && reach == 0 {
			reach = i + 1
		}
		if broken {
			reach = 0
			if last {
				break
			}
		}
		cur = node
	}
	if c.sibling != "" && len(c.hops) > 0 {
		link := c.hops[0].link
		sib := "https://r1.example/chain/sibling"
		if c.sibling == "foreign" {
			remote[sib] = Doc("Note", sib, "content", "a foreign value without further links")
		}
		act[link] = L{sib, act[link]}
	}
	if c.hidden {
		act["bto"] = Erin
		act["bcc"] = L{Dave, Carol}
	}
	return reach
}

type c17case struct {
	addr    []string
	props   []string
	chain   chainSpec
	limit   int
	filter  ap.FilterMode
	history []string // inbox owners the activity is delivered to, in order
}

func (c c17case) String() string {
	var a []string
	for i, e := range c.addr {
		a = append(a, c.props[i]+"="+shortID(e))
	}
	var h []string
	for _, x := range c.history {
		h = append(h, shortID(x))
	}
	return fmt.Sprintf("addr=[%s] chain=%s limit=%d filter=%d deliveries=%v", strings.Join(a, " "), c.chain, c.limit, c.filter, h)
}

func c17chains(maxDepth int) []chainSpec {
	var out []chainSpec
	out = append(out, chainSpec{}) // no reply value at all
	var gen func(cur []hop, depth int)
	gen = func(cur []hop, depth int) {
		if len(cur) == depth {
			for _, owned := range []bool{true, false} {
				out = append(out, chainSpec{hops: append([]hop(nil), cur...), owned: owned})
			}
			return
		}
		forms := []string{"embedded", "iri"}
		for _, f := range forms {
			gen(append(cur, hop{link: linkNames[(len(cur)+depth)%4], form: f}), depth)
		}
	}
	for d := 1; d <= maxDepth; d++ {
		gen(nil, d)
	}
	// broken chains: an intermediate that cannot be fetched / has an unknown type
	for _, bf := range []string{"iri-missing", "iri-unknown-type"} {
		out = append(out, chainSpec{hops: []hop{{"inReplyTo", bf}, {"object", "embedded"}}, owned: true})
		out = append(out, chainSpec{hops: []hop{{"object", "embedded"}, {"tag", bf}, {"inReplyTo", "iri"}}, owned: true})
		out = append(out, chainSpec{hops: []hop{{"target", bf}}, owned: true}) // owned IRI itself: ownership needs no fetch
	}
	// two values at one level, the reachable one second; received activities carrying bto / bcc
	for _, sib := range []string{"missing", "foreign"} {
		for _, f := range []string{"embedded", "iri"} {
			out = append(out, chainSpec{hops: []hop{{"inReplyTo", "iri"}, {"object", f}}, owned: true, sibling: sib})
			out = append(out, chainSpec{hops: []hop{{"tag", f}}, owned: true, sibling: sib})
		}
	}
	// the final value owned although on a foreign host / not owned although on the local host
	for _, l := range linkNames {
		out = append(out, chainSpec{hops: []hop{{l, "iri-remote-owned"}}}, chainSpec{hops: []hop{{l, "iri-local-foreign"}}})
	}
	out = append(out, chainSpec{hops: []hop{{"object", "embedded"}, {"inReplyTo", "iri-remote-owned"}}}, chainSpec{hops: []hop{{"object", "iri"}, {"tag", "iri-local-foreign"}}})
	// the final value spelled as a Link-derived value: Mention named by href only, Link whose id and href disagree
	for _, lf := range []string{"mention-href", "link-id-href"} {
		for _, owned := range []bool{true, false} {
			for _, l := range linkNames {
				out = append(out, chainSpec{hops: []hop{{l, lf}}, owned: owned})
			}
			out = append(out, chainSpec{hops: []hop{{"object", "embedded"}, {"tag", lf}}, owned: owned},
				chainSpec{hops: []hop{{"inReplyTo", "iri"}, {"tag", lf}}, owned: owned})
		}
	}
	// diamonds: one fetched (or embedded) value referenced on two paths of different length
	for _, sf := range []string{"iri", "embedded"} {
		for _, links := range [][2]string{{"object", "target"}, {"target", "object"}, {"inReplyTo", "tag"}, {"tag", "inReplyTo"}} {
			for _, ks := range [][2]int{{2, 1}, {1, 2}, {2, 0}, {0, 2}, {3, 1}, {1, 3}, {1, 1}} {
				if ks[0] > maxDepth || ks[1] > maxDepth {
					continue
				}
				for _, owned := range []bool{true, false} {
					if !owned && ks != [2]int{2, 1} {
						continue
					}
					out = append(out, chainSpec{owned: owned, diamond: &diamondSpec{kA: ks[0], kB: ks[1], linkA: links[0], linkB: links[1], sForm: sf}})
				}
			}
		}
	}
	out = append(out, chainSpec{hops: []hop{{"object", "embedded"}}, owned: true, hidden: true},
		chainSpec{hops: []hop{{"inReplyTo", "iri"}, {"object", "embedded"}}, owned: true, hidden: true})
	return out
}

// C17 — inbox forwarding happens iff its three conditions hold, once, unchanged.
func C17(tier string) int {
	res := NewResult("C17", tier, "model_checking")
	maxAddr, maxDepth, limits := 2, 3, []int{1, 2, 3}
	if res.Thorough() {
		maxAddr, maxDepth, limits = 3, 5, []int{1, 2, 3, 4}
	}
	entries := []string{Col1, OCol1, RCol, Note1, Carol, c17RemoteOwnedColl, c17LocalForeignCol}
	isOwnedColl := map[string]bool{Col1: true, OCol1: true, c17RemoteOwnedColl: true, c17BigColl: true}
	// (the big collection: nine members; the one in the middle has no fetchable document - forwarding hands
	// the members to the transport as they are listed, it does not look them up)
	members := map[string][]string{Col1: {Carol, Dave}, OCol1: {Dave}, c17RemoteOwnedColl: {Erin, Carol},
		c17BigColl: {Peer(0), Peer(1), Peer(2), Peer(3), c17Unreachable, Peer(4), Peer(5), Peer(6), Peer(7)}}
	var addrSeqs [][]string
	var gen func(cur []string)
	gen = func(cur []string) {
		addrSeqs = append(addrSeqs, append([]string(nil), cur...))
		if len(cur) == maxAddr {
			return
		}
		for _, e := range entries {
			gen(append(cur, e))
		}
	}
	gen(nil)
	histories := [][]string{{Alice}, {Alice, Alice}, {Alice, Bob}, {Bob, Alice, Alice}, {Alice, Bob, Alice}}
	chains := c17chains(maxDepth)
	var cases []c17case
	addrProps := []string{"to", "cc", "audience"}
	for ai, addr := range addrSeqs {
		props := make([]string, len(addr))
		for i := range addr {
			props[i] = addrProps[(i+ai)%3]
		}
		for ci, ch := range chains {
			for _, lim := range append([]int{0, -1}, limits...) {
				if lim == -1 && ci%4 != 0 && !res.Thorough() {
					continue // zero and negative limits both mean "unlimited"
				}
				for _, f := range []ap.FilterMode{ap.FilterAll, ap.FilterFirst, ap.FilterNone, ap.FilterLastInPlace, ap.FilterReverseInPlace} {
					if (f == ap.FilterLastInPlace || f == ap.FilterReverseInPlace) && (len(addr) < 2 || (!res.Thorough() && ci%4 != 0)) {
						continue // the in-place filters differ from the others only with two or more collections
					}
					// the filter only matters when forwarding can happen; histories vary with (ai+ci)
					hs := histories
					if !res.Thorough() {
						hs = [][]string{histories[(ai+ci)%len(histories)], histories[0]}
						if (ai+ci)%len(histories) == 0 {
							hs = hs[:1]
						}
					}
					for _, h := range hs {
						cases = append(cases, c17case{addr: addr, props: props, chain: ch, limit: lim, filter: f, history: h})
					}
				}
			}
		}
	}
	// an owned collection of nine members (one of them unreachable): every reachable member gets the forward
	for ci, ch := range chains {
		if ci%3 != 0 && !res.Thorough() {
			continue
		}
		for _, addr := range [][]string{{c17BigColl}, {c17BigColl, Col1}, {OCol1, c17BigColl}} {
			for _, lim := range []int{3, 0} {
				for _, f := range []ap.FilterMode{ap.FilterAll, ap.FilterFirst} {
					props := []string{"to", "cc"}[:len(addr)]
					cases = append(cases, c17case{addr: addr, props: props, chain: ch, limit: lim, filter: f, history: histories[ci%2]})
				}
			}
		}
	}
	res.Rule = fmt.Sprintf("activities whose to/cc/audience hold every sequence of <= %d entries over {owned Collection, owned OrderedCollection, foreign collection, owned non-collection, remote actor, an owned collection on a foreign host, another tenant's collection on the local host}; reply chains of depth 0..%d through inReplyTo/object/target/tag with every embedded / dereferenced-IRI form per link, the final value owned or not, plus chains broken by a missing or unknown-type document, diamonds (one fetched or embedded value referenced on two paths of different length, the owned value below it), and chains ending in a Link-derived value (Mention named by href only; Link whose id and href disagree, the owned one being the id or only the href); depth limit %v and the unlimited settings 0 and -1; filter {all, first only, none, last only (filtering the slice it is handed in place), all (reversing it in place)}; plus an owned collection of nine members (all of them get the forward, in one hand-over); delivery histories {A, AA, AB, BAA, ABA} over two local inboxes; %d histories, each a sequence of real requests on one application state; oracle: forwarded (once, on the first delivery) iff an owned (Ordered)Collection is addressed and an owned value lies within the limit; recipients are the members of exactly the collections the filter returned; payload equals the received body and is not changed after it was handed to the transport (the model keeps the very slice); the activity is recorded exactly once; plus 16 activities that have a default side effect (Create by IRI / embedded, Update, Delete, Like, Announce, Add, Remove, Follow, Accept, Reject, Undo, Block), with and without application hooks, meeting the three conditions: forwarded once, payload and recorded copy equal to the received activity; two different activities in a row on one Actor that reach one remote document at different depths (either order): each judged by its own depth; states = distinct application states reached, transitions = requests", maxAddr, maxDepth, limits, len(cases))
	res.Assumptions = []string{"locks are counted, not blocking (a collection addressed twice is C09's known finding)", "a dereferenced document that is not JSON aborts the search with an error and is left to C11"}
	var mu sync.Mutex
	states := map[uint64]struct{}{}
	chunk := 400
	parallel((len(cases)+chunk-1)/chunk, func(ci int) {
		lo, hi := ci*chunk, (ci+1)*chunk
		if hi > len(cases) {
			hi = len(cases)
		}
		var vs []Violation
		classes := map[string]struct{}{}
		outc := map[string]int{}
		local := map[uint64]struct{}{}
		trans := 0
		for _, c := range cases[lo:hi] {
			body := Doc("Offer", RAct, "actor", Carol)
			for i, e := range c.addr {
				body[c.props[i]] = appendVal(body[c.props[i]], e)
			}
			remote := map[string]M{}
			reach := c.chain.build(body, remote)
			a := BaseWorld()
			for id, d := range remote {
				a.PutRemote(id, d)
			}
			a.MaxFwdDepth = c.limit
			a.Filter = c.filter
			a.OwnedExtra[c17RemoteOwned], a.OwnedExtra[c17RemoteOwnedColl] = true, true
			a.NotOwned[c17LocalForeign], a.NotOwned[c17LocalForeignCol] = true, true
			a.PutDoc(Doc("Note", c17RemoteOwned, "content", "ours, hosted elsewhere"))
			a.PutDoc(Doc("Note", c17LocalForeign, "content", "another tenant's"))
			a.PutDoc(Doc("Collection", c17RemoteOwnedColl, "items", L{Erin, Carol}))
			a.PutDoc(Doc("Collection", c17LocalForeignCol, "items", L{Dave}))
			ManyPeers(a, 8)
			a.PutDoc(Doc("OrderedCollection", c17BigColl, "orderedItems", L{Peer(0), Peer(1), Peer(2), Peer(3), c17Unreachable, Peer(4), Peer(5), Peer(6), Peer(7)}))
			// expected
			var ownedColls []string
			seen := map[string]bool{}
			for _, e := range c.addr {
				if isOwnedColl[e] && !seen[e] {
					seen[e] = true
					ownedColls = append(ownedColls, e)
				}
			}
			shouldForward := len(ownedColls) > 0 && reach > 0 && (c.limit <= 0 || reach <= c.limit)
			var filtered []string
			switch c.filter {
			case ap.FilterAll:
				filtered = ownedColls
			case ap.FilterFirst:
				if len(ownedColls) > 0 {
					filtered = ownedColls[:1]
				}
			case ap.FilterLastInPlace:
				if len(ownedColls) > 0 {
					filtered = ownedColls[len(ownedColls)-1:]
				}
			case ap.FilterReverseInPlace:
				filtered = ownedColls
			}
			wantMembers := map[string]bool{}
			for _, col := range filtered {
				for _, m := range members[col] {
					wantMembers[m] = true
				}
			}
			rep := M{"check": "C17", "case": c.String(), "body": body}
			bad := func(kind, what string) {
				vs = append(vs, Violation{Key: kind, What: c.String() + ": " + what, Replay: rep})
			}
			forwards := 0
			creates := 0
			failed := false
			for step, owner := range c.history {
				sc := &Scenario{Name: "c17", Kind: ap.Both, Entry: "PostInbox", URL: inbox(owner), Body: body}
				logStart := len(a.Log)
				delStart := len(a.Deliveries)
				out := sc.On(a, nil)
				trans++
				local[a.StateHash()] = struct{}{}
				if out.Panic != nil {
					outc["panic(C11)"]++
					failed = true
					break
				}
				if out.Err != nil {
					outc["error"]++
					bad("request-failed", fmt.Sprintf("delivery %d fails: %v", step+1, out.Err))
					failed = true
					break
				}
				for _, cl := range a.Log[logStart:] {
					if cl.Op == "DB.Create" && cl.Arg == RAct {
						creates++
					}
				}
				for _, d := range a.Deliveries[delStart:] {
					forwards++
					// the collections used are exactly those the filter returned (in this very call)
					if len(a.FilterOut) == 0 {
						bad("forwarded-without-asking-the-filter", "")
					} else {
						in := map[string]bool{}
						for _, x := range a.FilterIn[len(a.FilterIn)-1] {
							in[x] = true
						}
						wantIn := map[string]bool{}
						for _, x := range ownedColls {
							wantIn[x] = true
						}
						if !sameSet(in, wantIn) {
							bad("filter-offered-wrong-collections", fmt.Sprintf("the filter was offered %v, the owned addressed collections are %v", keys(in), keys(wantIn)))
						}
						wantMembers = map[string]bool{}
						for _, col := range a.FilterOut[len(a.FilterOut)-1] {
							for _, m := range members[col] {
								wantMembers[m] = true
							}
						}
						filtered = a.FilterOut[len(a.FilterOut)-1]
					}
					if step > 0 {
						bad("forwarded-again", fmt.Sprintf("delivery %d of the same activity is forwarded", step+1))
					}
					if d.Box != inbox(owner) {
						bad("forward-wrong-box", d.Box)
					}
					got := map[string]bool{}
					for _, t := range d.To {
						got[t] = true
					}
					wantInboxes := map[string]bool{}
					for m := range wantMembers {
						wantInboxes[m+"/inbox"] = true
					}
					switch {
					case sameSet(got, wantInboxes):
					case sameSet(got, wantMembers) && len(wantMembers) > 0:
						bad("forward-recipients-are-member-ids-not-inboxes", fmt.Sprintf("the transport is handed %v, the members' ids, instead of their inboxes %v", keys(got), keys(wantInboxes)))
					case sameSet(got, wantMembers):
					default:
						bad("forward-wrong-recipients", fmt.Sprintf("forwarded to %v, the filter returned collections %v whose members are %v", keys(got), shortIDs(filtered), keys(wantMembers)))
					}
					var pm, bm map[string]interface{}
					json.Unmarshal(d.Payload, &pm)
					bm = deepCopy(body).(map[string]interface{})
					if !jsonEqualModCtx(normDoc2(bm), normDoc2(pm)) {
						bad("forward-payload-altered|"+payloadDiff(bm, pm), fmt.Sprintf("payload %s differs from the received %s", shortJSON(pm), shortJSON(bm)))
					}
				}
			}
			if failed {
				continue
			}
			for _, d := range a.HeldPayloadsChanged() {
				bad("payload-changed-after-hand-over", d)
			}
			outc[fmt.Sprintf("forwarded=%v", forwards > 0)]++
			classes[c.String()] = struct{}{}
			if shouldForward && forwards == 0 {
				bad(fmt.Sprintf("not-forwarded|reach=%d|limit=%d", reach, c.limit), "the three conditions hold but nothing was forwarded")
			}
			if !shouldForward && forwards > 0 {
				why := "no owned collection addressed"
				if len(ownedColls) > 0 {
					why = fmt.Sprintf("no owned value within the limit (reachable at level %d, limit %d)", reach, c.limit)
				}
				bad("forwarded-without-conditions|"+strings.SplitN(why, " (", 2)[0], "forwarded although "+why)
			}
			if forwards > 1 {
				bad("forwarded-more-than-once", fmt.Sprint(forwards))
			}
			if creates != 1 {
				bad("recorded-as-seen-not-exactly-once", fmt.Sprintf("the activity was Create'd %d times over %d deliveries", creates, len(c.history)))
			}
			for _, owner := range uniqStr(c.history) {
				n := 0
				for _, id := range a.Inboxes[inbox(owner)] {
					if id == RAct {
						n++
					}
				}
				if n != 1 {
					bad("inbox-entry-count", fmt.Sprintf("%s's inbox lists the activity %d times", shortID(owner), n))
				}
			}
		}
		mu.Lock()
		defer mu.Unlock()
		res.Evaluations += hi - lo
		res.Transitions += trans
		res.Traces += hi - lo
		for k := range local {
			states[k] = struct{}{}
		}
		for k := range classes {
			res.Nontrivial[k] = struct{}{}
		}
		for k, v := range outc {
			res.Outcomes[k] += v
		}
		for _, v := range vs {
			res.Violate(v.Key, v.What, v.Replay)
		}
	})
	// ---- activities that HAVE a default side effect: the side effect runs on the very value that is
	// forwarded afterwards, and must leave it as received ----
	nTyped := 0
	rn := Emb("Note", "https://r1.example/n/10", "attributedTo", Carol, "content", "x")
	for _, cb := range []ap.CallbackMode{ap.CBNone, ap.CBWrapped} {
		for ti, body := range []M{
			Doc("Create", RAct, "actor", Carol, "object", RNote),
			Doc("Create", RAct, "actor", Carol, "object", L{RNote, RNote2}),
			Doc("Create", RAct, "actor", Carol, "object", rn),
			Doc("Update", RAct, "actor", Carol, "object", rn),
			Doc("Delete", RAct, "actor", Carol, "object", RNote),
			Doc("Like", RAct, "actor", Carol, "object", Note1),
			Doc("Like", RAct, "actor", Carol, "object", L{Note1, Emb("Note", Note2)}),
			Doc("Announce", RAct, "actor", Carol, "object", Note2),
			Doc("Add", RAct, "actor", Carol, "object", RNote, "target", Col1),
			Doc("Remove", RAct, "actor", Carol, "object", Dave, "target", L{Col1, OCol1}),
			Doc("Follow", RAct, "actor", Carol, "object", Alice),
			Doc("Accept", RAct, "actor", Carol, "object", Follow1),
			Doc("Accept", RAct, "actor", Carol, "object", Emb("Follow", Follow1, "actor", Alice, "object", Carol)),
			Doc("Reject", RAct, "actor", Carol, "object", Follow1),
			Doc("Undo", RAct, "actor", Carol, "object", "https://r1.example/like/1"),
			Doc("Block", RAct, "actor", Carol, "object", Alice),
		} {
			body["to"] = L{Col1, Carol}
			body["inReplyTo"] = Note1 // owned: the third condition holds at level 1
			cb := cb
			sc := &Scenario{Name: fmt.Sprintf("c17/typed/%v#%d/cb=%d", body["type"], ti, cb), Kind: ap.Both, Entry: "PostInbox", URL: inbox(Alice), Body: body,
				Tweak: func(a *ap.App) { a.Callbacks = cb; a.OnFollow = pub.OnFollowAutomaticallyAccept; a.MaxFwdDepth = 2 }}
			out := sc.Exec(mc.NewExec(nil), false)
			nTyped++
			res.Case(sc.Name)
			if out.Panic != nil || out.Err != nil {
				continue // refused or failing activities are other checks' business
			}
			var fw []ap.Delivery
			for _, d := range out.App.Deliveries {
				var top map[string]interface{}
				if json.Unmarshal(d.Payload, &top) == nil && top["id"] == RAct {
					fw = append(fw, d)
				}
			}
			rep := M{"check": "C17", "part": "typed", "body": body, "callbacks": int(cb)}
			if len(fw) != 1 {
				res.Violate(fmt.Sprintf("typed|forward-count=%d", len(fw)), fmt.Sprintf("%s: the three conditions hold; forwarded %d times", sc.Name, len(fw)), rep)
				continue
			}
			var pm map[string]interface{}
			json.Unmarshal(fw[0].Payload, &pm)
			bm := deepCopy(body).(map[string]interface{})
			if !jsonEqualModCtx(normDoc2(bm), normDoc2(pm)) {
				res.Violate("forward-payload-altered|by-the-default-side-effect|"+fmt.Sprint(body["type"]), fmt.Sprintf("%s: forwarded payload %s differs from the received %s", sc.Name, shortJSON(pm), shortJSON(bm)), rep)
			}
			// ... and what was recorded as seen is the received activity too
			if raw, ok := out.App.Store[RAct]; ok {
				var sm map[string]interface{}
				json.Unmarshal(raw, &sm)
				if !jsonEqualModCtx(normDoc2(bm), normDoc2(sm)) {
					res.Violate("recorded-activity-altered|by-the-default-side-effect|"+fmt.Sprint(body["type"]), fmt.Sprintf("%s: recorded %s, received %s", sc.Name, shortJSON(sm), shortJSON(bm)), rep)
				}
			}
		}
	}
	res.Evaluations += nTyped
	res.Extra["typed_activities"] = nTyped
	// ---- two DIFFERENT activities in a row on one Actor, both reaching the same remote document S
	// (whose inReplyTo is owned) but at different depths: what the search learnt for one activity
	// (S too deep: nothing owned within the limit) must not decide the other ----
	nTwo := 0
	sID, owned := "https://r1.example/chain/shared-doc", "https://l.example/n/owned-through-shared"
	mkAct := func(id string, k int) M {
		var v interface{} = sID
		for i := k; i >= 1; i-- {
			v = Emb("Add", fmt.Sprintf("%s/lvl%d", id, i), "summary", "x", "inReplyTo", v)
		}
		return Doc("Offer", id, "actor", Carol, "to", L{Col1}, "object", v)
	}
	for _, lim := range []int{2, 3, 4} {
		for kDeep := 1; kDeep <= 3; kDeep++ {
			for kShallow := 0; kShallow < kDeep; kShallow++ {
				for _, order := range [][2]int{{kDeep, kShallow}, {kShallow, kDeep}} {
					a := BaseWorld()
					a.MaxFwdDepth = lim
					a.PutRemote(sID, Doc("Add", sID, "summary", "shared", "inReplyTo", owned))
					var fw []bool
					for i, k := range order {
						id := fmt.Sprintf("https://r1.example/a/two-%d", i)
						sc := &Scenario{Name: fmt.Sprintf("c17/two-activities limit=%d depths=%v", lim, order), Kind: ap.Both, Entry: "PostInbox", URL: inbox(Alice), Body: mkAct(id, k)}
						nDel := len(a.Deliveries)
						out := sc.On(a, nil)
						if out.Panic != nil || out.Err != nil {
							fw = nil
							break
						}
						fw = append(fw, len(a.Deliveries) > nDel)
					}
					nTwo++
					res.Case(fmt.Sprintf("two-activities|%d|%v", lim, order))
					for i, k := range order {
						if fw == nil {
							break
						}
						want := k+2 <= lim // S at level k+1, the owned value at level k+2
						if fw[i] != want {
							res.Violate(fmt.Sprintf("two-activities|forwarded=%v-expected=%v|position=%d", fw[i], want, i),
								fmt.Sprintf("limit %d, two activities reaching the shared document below %v embedded levels: activity %d forwarded=%v, expected %v", lim, order, i+1, fw[i], want),
								M{"check": "C17", "part": "two-activities", "limit": lim, "depths": order})
						}
					}
				}
			}
		}
	}
	res.Evaluations += nTwo
	res.Extra["two_activity_histories"] = nTwo
	res.States = len(states)
	for _, i := range []int{len(cases) / 5, len(cases) / 2, len(cases) - 7} {
		res.Sample(M{"case": cases[i].String()})
	}
	return res.Finish()
}

func appendVal(cur interface{}, v string) interface{} {
	if cur == nil {
		return v
	}
	return append(asList(cur), v)
}

func uniqStr(l []string) []string {
	s := append([]string(nil), l...)
	sort.Strings(s)
	return uniq(s)
}

func normDoc2(m map[string]interface{}) map[string]interface{} {
	return collapse(deepCopy(m)).(map[string]interface{})
}

func payloadDiff(a, b map[string]interface{}) string {
	var d []string
	for k := range a {
		if _, ok := b[k]; !ok {
			d = append(d, "-"+k)
		}
	}
	for k := range b {
		if _, ok := a[k]; !ok {
			d = append(d, "+"+k)
		}
	}
	sort.Strings(d)
	if len(d) == 0 {
		return "values"
	}
	return strings.Join(d, ",")
}
