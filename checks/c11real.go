package checks

import (
	"fmt"
	"sort"
	"strings"

	"github.com/go-fed/activity/pub"

	ap "verif/apmodel"
	"verif/mc"
)

// realTransportPart drives the delivering entry points with the library's OWN HttpSigTransport
// (over a fake HTTP client) instead of the application model's transport, so that the
// library-internal goroutines of BatchDeliver are part of the request: a remote collection
// listing n actors of which k answer the delivery with a failure must not keep Send / PostOutbox /
// PostInbox from returning (the process-wide watchdog reports a request that does not).
func realTransportPart(res *Result, thorough bool) {
	sizes := []int{1, 2, 3, 9, 17, 33, 65}
	if thorough {
		sizes = append(sizes, 129, 257)
	}
	kinds := []struct {
		name string
		code int
	}{{"500", 500}, {"404", 404}, {"client-error", -1}, {"mixed", 0}}
	type entry struct {
		name string
		sc   func(col string) *Scenario
	}
	entries := []entry{
		{"PostOutbox-note", func(col string) *Scenario {
			return &Scenario{Kind: ap.Both, Entry: "PostOutbox", URL: outbox(Alice), Body: Doc("Note", "", "content", "x", "to", col)}
		}},
		{"Send-create", func(col string) *Scenario {
			return &Scenario{Kind: ap.Both, Entry: "Send", URL: outbox(Alice), Body: Doc("Create", "", "actor", Alice, "to", L{col, Carol}, "object", Emb("Note", "", "content", "x"))}
		}},
		{"Send-federating-only", func(col string) *Scenario {
			return &Scenario{Kind: ap.FederatingOnly, Entry: "Send", URL: outbox(Alice), Body: Doc("Like", "", "actor", Alice, "cc", col, "object", RNote)}
		}},
		{"PostInbox-follow-auto-accept", func(col string) *Scenario {
			return &Scenario{Kind: ap.Both, Entry: "PostInbox", URL: inbox(Alice), Body: Doc("Follow", RAct, "actor", L{Carol, Dave, Erin}, "object", Alice)}
		}},
		{"PostInbox-forwarding", func(col string) *Scenario {
			return &Scenario{Kind: ap.Both, Entry: "PostInbox", URL: inbox(Alice), Body: Doc("Create", RAct, "actor", Carol, "to", L{Col1}, "object",
				Emb("Note", RAct+"/n", "attributedTo", Carol, "content", "x", "inReplyTo", Note1))}
		}},
	}
	n := 0
	for _, en := range entries {
		for _, size := range sizes {
			for _, fk := range kinds {
				for _, failing := range []int{0, 1, 2, size} {
					if failing > size || (failing == 2 && size == 2) {
						continue
					}
					en, size, fk, failing := en, size, fk, failing
					col := "https://r1.example/c/big"
					sc := en.sc(col)
					sc.Name = fmt.Sprintf("c11/real-transport/%s recipients=%d failing=%d kind=%s", en.name, size, failing, fk.name)
					sc.Tweak = func(a *ap.App) {
						a.RealTransport = true
						a.OnFollow = pub.OnFollowAutomaticallyAccept
						a.InboxOutcome = map[string]int{}
						members, owned := L{}, L{}
						for i := 0; i < size; i++ {
							id := fmt.Sprintf("https://r3.example/u/m%d", i)
							a.PutRemote(id, person(id))
							members = append(members, id)
							owned = append(owned, id)
							if i < failing {
								code := fk.code
								if fk.name == "mixed" {
									code = []int{500, -1, 404, 410}[i%4]
								}
								a.InboxOutcome[id+"/inbox"] = code
								a.InboxOutcome[id] = code // forwarding posts to the member ids (known finding C17)
							}
						}
						a.PutRemote(col, Doc("Collection", col, "items", members))
						a.PutDoc(Doc("Collection", Col1, "items", owned))
						if failing > 0 {
							for _, who := range []string{Carol, Dave, Erin}[:min(failing, 3)] {
								a.InboxOutcome[who+"/inbox"] = 500
							}
						}
					}
					out := sc.Exec(mc.NewExec(nil), false)
					n++
					res.Case(sc.Name)
					if out.Panic != nil {
						res.Violate(panicKey(out.PanicSite, out.PanicLine), fmt.Sprintf("scenario %s: panic %v at %s %s", sc.Name, out.Panic, out.PanicSite, out.PanicLine),
							M{"check": "C11", "part": "real-transport", "scenario": sc.Name})
					}
					posts := 0
					if out.App.RTClient != nil {
						posts = len(out.App.RTClient.Posts)
					}
					res.Outcomes[fmt.Sprintf("real-transport:err=%v", out.Err != nil)]++
					if posts > 0 {
						res.Nontrivial["real-transport|"+sc.Name] = struct{}{}
					}
				}
			}
		}
	}
	res.Evaluations += n
	res.Extra["real_transport_requests"] = n
}

func min(a, b int) int {
	if a < b {
		return a
	}
	return b
}

// selfDeadlockPart runs every scenario of the corpora once as a single request under the cooperative
// scheduler with the application's locks as real, non-re-entrant blocking resources: a request that
// asks for a lock it still holds can never return (with a real mutex it hangs forever).
func selfDeadlockPart(res *Result) {
	scs := append(append(append([]*Scenario{}, Corpus()...), AddressingCorpus()...), ExtraC11Corpus()...)
	n := 0
	for _, sc := range scs {
		cs := &ConcScenario{Name: "blocking/" + sc.Name, Tweak: sc.Tweak, Reqs: []*Scenario{sc}}
		co := cs.runConc(mc.NewExec(nil))
		n++
		res.Case("blocking-locks|" + sc.Name)
		if !co.sched.Deadlock {
			continue
		}
		var waits, holds []string
		for _, q := range co.app.Reqs {
			for id, c := range q.Held {
				if c > 0 {
					holds = append(holds, NormSite(q.Site[id]))
				}
			}
			if q.WaitSite != "" {
				waits = append(waits, NormSite(q.WaitSite))
			}
		}
		sort.Strings(holds)
		sort.Strings(waits)
		res.Violate(fmt.Sprintf("no-return|self-deadlock|wait=%s|hold=%s", strings.Join(uniq(waits), ","), strings.Join(uniq(holds), ",")),
			fmt.Sprintf("scenario %s with non-re-entrant application locks: the request waits for a lock it holds itself and never returns (%s)", sc.Name, co.sched.DeadlockInfo),
			M{"check": "C11", "part": "blocking-locks", "scenario": sc.Name, "body": sc.Body})
	}
	res.Evaluations += n
	res.Extra["blocking_lock_scenarios"] = n
}
