package checks

import (
	"encoding/json"
	"fmt"
	"strings"
	"sync"

	ap "verif/apmodel"
	"verif/mc"
)

// redeliveryPart: sequential histories of repeated deliveries in which an EARLIER delivery meets a
// fault. For every inbox scenario of the corpus (application callbacks wrapped around the default
// effect): delivery 1 runs with every choice of <= bound failing seam calls, then the same activity
// is delivered again once or twice fault-free on the same application. Over the whole history the
// activity must be in the inbox at most once, no redelivery may need a lock the first delivery leaked, its side effects must be resolved at most once, no
// collection may hold its id twice and it must be forwarded at most once.
func redeliveryPart(res *Result, bound int) {
	var scs []*Scenario
	for _, sc := range append(Corpus(), AddressingCorpus()...) {
		if strings.HasPrefix(sc.Name, "addr/") && (!strings.HasPrefix(sc.Name, "addr/forward-") || strings.Contains(sc.Name, "-filter=")) {
			continue // of the addressing family only the forwarding scenarios (activities naming one value twice are not redelivery's business)
		}
		if sc.Entry == "PostInbox" && sc.Body != nil && sc.Body["id"] != nil {
			scs = append(scs, sc)
		}
	}
	var mu sync.Mutex
	total, classes := 0, 0
	parallel(len(scs), func(i int) {
		sc := scs[i]
		id, _ := sc.Body["id"].(string)
		n := 0
		type v struct {
			key, what string
			rep       M
		}
		var viols []v
		seen := map[string]bool{}
		for _, redeliveries := range []int{1, 2} {
			e := &mc.Explorer{}
			e.Budget = [3]int{0, bound, 0}
			e.Run = func(x *mc.Exec) bool {
				a := sc.World()
				a.Callbacks = ap.CBWrapped
				a.X = x
				a.Faults = true
				out := sc.On(a, nil)
				n++
				if out.Panic != nil {
					return true
				}
				a.Faults = false
				// a lock the first delivery still holds when it returns is never released: a later request that
				// asks for it does not complete (the model counts locks instead of blocking, so say it here)
				leaked := map[string]string{}
				for lid, c := range out.Req.Held {
					if c > 0 {
						leaked[lid] = out.Req.Site[lid]
					}
				}
				firstReq, logAt := out.Req.ID, len(a.Log)
				for k := 0; k < redeliveries; k++ {
					o2 := sc.On(a, nil)
					if o2.Panic != nil {
						return true
					}
				}
				f := faultOps(x)
				var bad []string
				for box, items := range a.Inboxes {
					c := 0
					for _, it := range items {
						if it == id {
							c++
						}
					}
					if c > 1 {
						bad = append(bad, fmt.Sprintf("duplicate-in-inbox|%d copies in %s", c, shortID(box)))
					}
				}
				resolved := 0
				for _, cl := range a.Log {
					if cl.Op == "Fed.FederatingCallbacks" {
						resolved++
					}
				}
				if resolved > 1 {
					bad = append(bad, fmt.Sprintf("side-effects-twice|the side effects of %s were resolved %d times over %d deliveries", shortID(id), resolved, 1+redeliveries))
				}
				for sid, raw := range a.Store {
					var m map[string]interface{}
					if json.Unmarshal(raw, &m) != nil {
						continue
					}
					if c := countIn(m, id); c > 1 && sid != id {
						bad = append(bad, fmt.Sprintf("id-twice-in-collection|%s holds %s %d times", shortID(sid), shortID(id), c))
					}
				}
				fw := 0
				for _, d := range a.Deliveries {
					if strings.HasSuffix(d.Box, "/inbox") && strings.Contains(string(d.Payload), `"id":"`+id+`"`) {
						fw++
					}
				}
				if fw > 1 {
					bad = append(bad, fmt.Sprintf("forwarded-twice|%d forwards", fw))
				}
				// ... and then ANOTHER activity of the same shape (its own id): neither it nor the redeliveries may
				// ask for a lock the first delivery still holds
				if len(leaked) > 0 {
					other := *sc
					ob := M{}
					for k, v := range sc.Body {
						ob[k] = v
					}
					ob["id"] = id + "-another"
					other.Body = ob
					if o3 := other.On(a, nil); o3.Panic != nil {
						return true
					}
					for _, cl := range a.Log[logAt:] {
						if site, ok := leaked[cl.Arg]; ok && cl.Op == "DB.Lock" && cl.Req != firstReq {
							bad = append(bad, fmt.Sprintf("no-return-after-leaked-lock@%s|the first delivery returned still holding the lock of %s (taken in %s); a later request asks for that lock and never completes", NormSite(site), collClass(cl.Arg), NormSite(site)))
							break
						}
					}
				}
				for _, b := range bad {
					kind := strings.SplitN(b, "|", 2)[0]
					key := fmt.Sprintf("redelivery|%s|first-delivery-faults=%s", kind, strings.Join(f, ","))
					if !seen[key] {
						seen[key] = true
						viols = append(viols, v{key, fmt.Sprintf("scenario %s delivered %d times, the first time with faults %v: %s", sc.Name, 1+redeliveries, f, b),
							M{"check": "C08", "part": "redelivery", "scenario": sc.Name, "choices": x.Choices(), "faults": f, "redeliveries": redeliveries}})
					}
				}
				return true
			}
			e.Explore()
		}
		mu.Lock()
		defer mu.Unlock()
		total += n
		classes++
		res.Nontrivial["redelivery|"+sc.Name] = struct{}{}
		for _, x := range viols {
			res.Violate(x.key, x.what, x.rep)
		}
	})
	res.Evaluations += total
	res.Traces += total
	res.Extra["redelivery_histories"] = total
	res.Extra["redelivery_scenarios"] = classes
}

// countIn counts how often id occurs as an element (IRI or embedded id) of any items / orderedItems
// list inside doc.
func countIn(v interface{}, id string) int {
	n := 0
	switch x := v.(type) {
	case map[string]interface{}:
		for k, e := range x {
			if k == "items" || k == "orderedItems" {
				for _, el := range asList(e) {
					if idOf(el) == id {
						n++
					}
				}
				continue
			}
			n += countIn(e, id)
		}
	case []interface{}:
		for _, e := range x {
			n += countIn(e, id)
		}
	}
	return n
}
