// Package checks holds one bounded-exhaustive check per pub property.
package checks

import "verif/report"

type Result = report.Result
type Violation = report.Violation

var NewResult = report.NewResult
var NormSite = report.NormSite
