package checks

import (
	"encoding/json"
	"fmt"
	"reflect"
	"sort"
	"strings"

	ap "verif/apmodel"
)

// Ref is the reference model of the persistent state: plain JSON maps and id lists. The expected
// effect of a request is applied to it by code written from the documentation of the side effects,
// and the real final state is then diffed against it.
type Ref struct {
	Store map[string]map[string]interface{}
	In    map[string][]string
	Out   map[string][]string
}

// RefOf snapshots an application state.
func RefOf(a *ap.App) *Ref {
	r := &Ref{Store: map[string]map[string]interface{}{}, In: map[string][]string{}, Out: map[string][]string{}}
	for k, v := range a.Store {
		var m map[string]interface{}
		json.Unmarshal(v, &m)
		r.Store[k] = m
	}
	for k, v := range a.Inboxes {
		r.In[k] = append([]string(nil), v...)
	}
	for k, v := range a.Outboxes {
		r.Out[k] = append([]string(nil), v...)
	}
	return r
}

func (r *Ref) Clone() *Ref {
	c := &Ref{Store: map[string]map[string]interface{}{}, In: map[string][]string{}, Out: map[string][]string{}}
	for k, v := range r.Store {
		c.Store[k] = deepCopy(v).(map[string]interface{})
	}
	for k, v := range r.In {
		c.In[k] = append([]string(nil), v...)
	}
	for k, v := range r.Out {
		c.Out[k] = append([]string(nil), v...)
	}
	return c
}

// Put stores a document (a copy, numbers normalised).
func (r *Ref) Put(id string, doc interface{}) {
	r.Store[id] = deepCopy(doc).(map[string]interface{})
}

// asList views a JSON value as a list (scalar = one element, nil = empty).
func asList(v interface{}) []interface{} {
	switch x := v.(type) {
	case nil:
		return nil
	case []interface{}:
		return x
	}
	return []interface{}{v}
}

// fromList is the inverse: one element is written as a scalar, none as absent (nil).
func fromList(l []interface{}) interface{} {
	switch len(l) {
	case 0:
		return nil
	case 1:
		return l[0]
	}
	return l
}

func setOrDelete(m map[string]interface{}, k string, v interface{}) {
	if v == nil {
		delete(m, k)
	} else {
		m[k] = v
	}
}

// idOf returns the id of an IRI-or-embedded JSON value.
func idOf(v interface{}) string {
	switch x := v.(type) {
	case string:
		return x
	case map[string]interface{}:
		if s, ok := x["id"].(string); ok {
			return s
		}
		if s, ok := x["href"].(string); ok {
			return s
		}
	}
	return ""
}

// collMember names the member that holds a collection document's entries.
func collMember(doc map[string]interface{}) string {
	switch doc["type"] {
	case "OrderedCollection", "OrderedCollectionPage":
		return "orderedItems"
	case "Collection", "CollectionPage":
		return "items"
	}
	return ""
}

// normDoc prepares a stored document for comparison: the top-level @context is dropped (C01 judges
// contexts) and single-element lists are scalars.
func normDoc(m map[string]interface{}) map[string]interface{} {
	if m == nil {
		return nil
	}
	o := collapse(deepCopy(m)).(map[string]interface{})
	delete(o, "@context")
	return o
}

// collapse writes one-element arrays as scalars and drops members holding empty arrays (the
// encoder does the former; the latter is how an emptied list property may or may not appear).
func collapse(v interface{}) interface{} {
	switch x := v.(type) {
	case map[string]interface{}:
		for k, e := range x {
			c := collapse(e)
			if l, ok := c.([]interface{}); ok && len(l) == 0 {
				delete(x, k)
				continue
			}
			x[k] = c
		}
		return x
	case []interface{}:
		for i := range x {
			x[i] = collapse(x[i])
		}
		if len(x) == 1 {
			return x[0]
		}
		return x
	}
	return v
}

// setView replaces every items/orderedItems and addressing array by a sorted list, for
// comparisons where order and duplicates inside one list are not specified.
func setView(v interface{}, keys map[string]bool) interface{} {
	switch x := v.(type) {
	case map[string]interface{}:
		o := map[string]interface{}{}
		for k, e := range x {
			if keys[k] {
				l := asList(e)
				strs := make([]string, 0, len(l))
				seen := map[string]bool{}
				for _, el := range l {
					b, _ := json.Marshal(el)
					if !seen[string(b)] {
						seen[string(b)] = true
						strs = append(strs, string(b))
					}
				}
				sort.Strings(strs)
				o[k] = strs
			} else {
				o[k] = setView(e, keys)
			}
		}
		return o
	case []interface{}:
		var l []interface{}
		for _, e := range x {
			l = append(l, setView(e, keys))
		}
		return l
	}
	return v
}

// Diff lists the differences between the expected state r and the real final state.
// unordered names members compared as sets.
func (r *Ref) Diff(a *ap.App, unordered map[string]bool) []string {
	var d []string
	real := RefOf(a)
	ids := map[string]bool{}
	for k := range r.Store {
		ids[k] = true
	}
	for k := range real.Store {
		ids[k] = true
	}
	var keys []string
	for k := range ids {
		keys = append(keys, k)
	}
	sort.Strings(keys)
	for _, k := range keys {
		e, g := normDoc(r.Store[k]), normDoc(real.Store[k])
		var ev, gv interface{} = e, g
		if unordered != nil {
			if e != nil {
				ev = setView(e, unordered)
			}
			if g != nil {
				gv = setView(g, unordered)
			}
		}
		if !reflect.DeepEqual(ev, gv) {
			switch {
			case e == nil:
				d = append(d, fmt.Sprintf("unexpected stored value %s = %s", k, shortJSON(g)))
			case g == nil:
				d = append(d, fmt.Sprintf("missing stored value %s (expected %s)", k, shortJSON(e)))
			default:
				d = append(d, fmt.Sprintf("stored value %s is %s, expected %s", k, shortJSON(g), shortJSON(e)))
			}
		}
	}
	for _, pair := range []struct {
		n      string
		e, got map[string][]string
	}{{"inbox", r.In, real.In}, {"outbox", r.Out, real.Out}} {
		bs := map[string]bool{}
		for k := range pair.e {
			bs[k] = true
		}
		for k := range pair.got {
			bs[k] = true
		}
		var bk []string
		for k := range bs {
			bk = append(bk, k)
		}
		sort.Strings(bk)
		for _, k := range bk {
			if strings.Join(pair.e[k], " ") != strings.Join(pair.got[k], " ") {
				d = append(d, fmt.Sprintf("%s %s lists %v, expected %v", pair.n, shortID(k), shortIDs(pair.got[k]), shortIDs(pair.e[k])))
			}
		}
	}
	return d
}

func shortIDs(l []string) []string {
	o := make([]string, len(l))
	for i, s := range l {
		o[i] = shortID(s)
	}
	return o
}

// diffClass turns a diff line into a short class for violation keys.
func diffClass(line string) string {
	f := strings.Fields(line)
	if len(f) < 3 {
		return line
	}
	switch f[0] {
	case "unexpected", "missing":
		return f[0] + "-" + collClass(f[3])
	case "stored":
		return "wrong-" + collClass(f[2])
	}
	return f[0] + "-list"
}
