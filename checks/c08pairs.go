package checks

import (
	"fmt"

	"github.com/go-fed/activity/pub"

	ap "verif/apmodel"
)

// reqKind is one kind of request on the shared world; slot (0 or 1) selects the activity id, the
// remote actor and the remote note it uses, so that two requests of one kind are two different
// activities that still collide on the same local objects and collections.
type reqKind struct {
	name string
	mk   func(slot int) *Scenario
}

// pairKinds is the alphabet of the pairwise concurrency exploration: every inbox and outbox
// activity type with a default side effect, forwarding, and the read-only entry points, all aimed
// at the same few local objects (Note1, Col1, OCol1, Alice's own collections).
func pairKinds() []reqKind {
	act := func(s int) string { return []string{RAct, RAct2}[s] }
	who := func(s int) string { return []string{Carol, Dave}[s] }
	rn := func(s int) string { return []string{RNote, RNote2}[s] }
	in := func(n string, s int, body M) *Scenario { return inReq(fmt.Sprintf("%s#%d", n, s), inbox(Alice), body) }
	out := func(n string, s int, body M) *Scenario {
		return outReq(fmt.Sprintf("%s#%d", n, s), outbox(Alice), body)
	}
	get := func(n, entry, url string, s int) *Scenario {
		return &Scenario{Name: fmt.Sprintf("%s#%d", n, s), Kind: ap.Both, Entry: entry, URL: url}
	}
	return []reqKind{
		{"in-like", func(s int) *Scenario { return in("in-like", s, like(act(s), who(s), Note1)) }},
		{"in-announce", func(s int) *Scenario {
			return in("in-announce", s, Doc("Announce", act(s), "actor", who(s), "object", Note1))
		}},
		{"in-follow", func(s int) *Scenario {
			return in("in-follow", s, Doc("Follow", act(s), "actor", who(s), "object", Alice))
		}},
		{"in-accept", func(s int) *Scenario {
			return in("in-accept", s, Doc("Accept", act(s), "actor", Carol, "object", Follow1))
		}},
		{"in-add", func(s int) *Scenario {
			return in("in-add", s, Doc("Add", act(s), "actor", who(s), "object", rn(s), "target", Col1))
		}},
		{"in-add-six-objects", func(s int) *Scenario {
			var objs L
			for i := 0; i < 6; i++ {
				objs = append(objs, fmt.Sprintf("https://r1.example/n/six-%d-%d", s, i))
			}
			return in("in-add-six-objects", s, Doc("Add", act(s), "actor", who(s), "object", objs, "target", Col1))
		}},
		{"in-add-two-targets", func(s int) *Scenario {
			return in("in-add-two-targets", s, Doc("Add", act(s), "actor", who(s), "object", rn(s), "target", []L{{Col1, OCol1}, {OCol1, Col1}}[s]))
		}},
		{"in-remove", func(s int) *Scenario {
			return in("in-remove", s, Doc("Remove", act(s), "actor", who(s), "object", Dave, "target", Col1))
		}},
		{"in-create-forwarded", func(s int) *Scenario {
			return in("in-create-forwarded", s, Doc("Create", act(s), "actor", who(s), "to", L{Col1}, "object",
				Emb("Note", act(s)+"/n", "attributedTo", who(s), "content", "x", "inReplyTo", Note1)))
		}},
		{"in-update", func(s int) *Scenario {
			return in("in-update", s, Doc("Update", act(s), "actor", Carol, "object", Emb("Note", RNote, "attributedTo", Carol, "content", fmt.Sprintf("edited by %d", s))))
		}},
		{"in-delete", func(s int) *Scenario {
			return in("in-delete", s, Doc("Delete", act(s), "actor", Carol, "object", RNote))
		}},
		{"out-note", func(s int) *Scenario {
			return out("out-note", s, Doc("Note", "", "content", fmt.Sprintf("note %d", s), "to", who(s)))
		}},
		{"out-like", func(s int) *Scenario { return out("out-like", s, Doc("Like", "", "actor", Alice, "object", rn(s))) }},
		{"out-update", func(s int) *Scenario {
			return out("out-update", s, Doc("Update", "", "actor", Alice, "object", Emb("Note", Note1, "content", fmt.Sprintf("edited %d", s))))
		}},
		{"out-delete", func(s int) *Scenario { return out("out-delete", s, Doc("Delete", "", "actor", Alice, "object", Note1)) }},
		{"out-add", func(s int) *Scenario {
			return out("out-add", s, Doc("Add", "", "actor", Alice, "object", rn(s), "target", Col1))
		}},
		{"out-remove", func(s int) *Scenario {
			return out("out-remove", s, Doc("Remove", "", "actor", Alice, "object", Dave, "target", Col1))
		}},
		{"out-follow", func(s int) *Scenario {
			return out("out-follow", s, Doc("Follow", "", "actor", Alice, "object", who(s), "to", who(s)))
		}},
		{"out-block", func(s int) *Scenario { return out("out-block", s, Doc("Block", "", "actor", Alice, "object", who(s))) }},
		{"get-inbox", func(s int) *Scenario { return get("get-inbox", "GetInbox", inbox(Alice), s) }},
		{"get-outbox", func(s int) *Scenario { return get("get-outbox", "GetOutbox", outbox(Alice), s) }},
		{"get-object", func(s int) *Scenario { return get("get-object", "Handler", Note1, s) }},
	}
}

// PairCorpus is every unordered pair of request kinds (a kind also paired with itself) as a
// two-thread scenario on one Actor.
func PairCorpus() []*ConcScenario {
	ks := pairKinds()
	var out []*ConcScenario
	for i := range ks {
		for j := i; j < len(ks); j++ {
			hooks := ks[i].name == "out-block" || ks[j].name == "out-block"
			out = append(out, &ConcScenario{Name: "pair/" + ks[i].name + "+" + ks[j].name,
				Tweak: func(a *ap.App) {
					a.OnFollow = pub.OnFollowAutomaticallyAccept
					a.PutDoc(Doc("Note", RNote, "attributedTo", Carol, "content", "cached copy"))
					if hooks {
						// with application hooks the Block callback is a scheduling point of its own: another
						// request may run while a Block is inside it
						a.Callbacks = ap.CBWrapped
					}
				},
				Reqs: []*Scenario{ks[i].mk(0), ks[j].mk(1)}})
		}
	}
	return out
}

// TripleCorpus is every unordered triple (with repetition of at most two equal kinds excluded: all
// three distinct, or the first two equal) of the state-changing request kinds; the third request
// reuses slot 0's actor with its own activity id.
func TripleCorpus() []*ConcScenario { return tripleCorpus(nil) }

// QuickTripleCorpus: the triples over four kinds that all change the same local note / collection.
func QuickTripleCorpus() []*ConcScenario {
	return tripleCorpus(map[string]bool{"in-like": true, "in-announce": true, "in-add": true, "out-update": true})
}

func tripleCorpus(only map[string]bool) []*ConcScenario {
	var ks []reqKind
	for _, k := range pairKinds() {
		switch k.name {
		case "get-inbox", "get-outbox", "get-object", "out-block", "out-follow", "in-add-two-targets", "in-add-six-objects", "in-delete", "out-remove":
			continue
		}
		if only != nil && !only[k.name] {
			continue
		}
		ks = append(ks, k)
	}
	third := func(k reqKind) *Scenario {
		sc := *k.mk(0)
		sc.Name += "-third"
		if sc.Body != nil {
			b := M{}
			for kk, v := range sc.Body {
				b[kk] = v
			}
			if _, has := b["id"]; has {
				b["id"] = "https://r1.example/a/3"
			}
			sc.Body = b
		}
		return &sc
	}
	var out []*ConcScenario
	for i := range ks {
		for j := i; j < len(ks); j++ {
			for l := j + 1; l < len(ks); l++ {
				out = append(out, &ConcScenario{Name: "triple/" + ks[i].name + "+" + ks[j].name + "+" + ks[l].name,
					Tweak: func(a *ap.App) {
						a.OnFollow = pub.OnFollowAutomaticallyAccept
						a.PutDoc(Doc("Note", RNote, "attributedTo", Carol, "content", "cached copy"))
					},
					Reqs: []*Scenario{ks[i].mk(0), ks[j].mk(1), third(ks[l])}})
			}
		}
	}
	return out
}

// OrderCorpus: for every request kind that can name several objects / targets / actors, two
// concurrent requests naming the same two local values in OPPOSITE order (a lock kept across loop
// iterations then deadlocks or loses an update), each also paired with the single-valued request of
// the same type.
func OrderCorpus() []*ConcScenario {
	act := func(s int) string { return []string{RAct, RAct2}[s] }
	who := func(s int) string { return []string{Carol, Dave}[s] }
	ord := func(s int, a, b interface{}) L {
		if s == 0 {
			return L{a, b}
		}
		return L{b, a}
	}
	in := func(n string, s int, body M) *Scenario { return inReq(fmt.Sprintf("%s#%d", n, s), inbox(Alice), body) }
	out := func(n string, s int, body M) *Scenario {
		return outReq(fmt.Sprintf("%s#%d", n, s), outbox(Alice), body)
	}
	rNoteA, rNoteB := "https://r1.example/n/new-a", "https://r1.example/n/new-b"
	kinds := []reqKind{
		{"in-like-2", func(s int) *Scenario {
			return in("in-like-2", s, Doc("Like", act(s), "actor", who(s), "object", ord(s, Note1, Note2)))
		}},
		{"in-announce-2", func(s int) *Scenario {
			return in("in-announce-2", s, Doc("Announce", act(s), "actor", who(s), "object", ord(s, Note1, Note2)))
		}},
		{"in-like-announce-2", func(s int) *Scenario {
			return in("in-like-announce-2", s, Doc([]string{"Like", "Announce"}[s], act(s), "actor", who(s), "object", ord(s, Note1, Note2)))
		}},
		{"in-remove-2-targets", func(s int) *Scenario {
			return in("in-remove-2-targets", s, Doc("Remove", act(s), "actor", who(s), "object", Dave, "target", ord(s, Col1, OCol1)))
		}},
		{"in-add-remove-2-targets", func(s int) *Scenario {
			return in("in-add-remove-2-targets", s, Doc([]string{"Add", "Remove"}[s], act(s), "actor", who(s), "object", Dave, "target", ord(s, Col1, OCol1)))
		}},
		{"in-add-2-objects", func(s int) *Scenario {
			return in("in-add-2-objects", s, Doc("Add", act(s), "actor", who(s), "object", ord(s, RNote, RNote2), "target", Col1))
		}},
		{"in-follow-2-objects", func(s int) *Scenario {
			return in("in-follow-2-objects", s, Doc("Follow", act(s), "actor", who(s), "object", ord(s, Alice, Bob)))
		}},
		{"in-accept-2-actors", func(s int) *Scenario {
			return in("in-accept-2-actors", s, Doc("Accept", act(s), "actor", ord(s, Carol, Dave), "object", "https://l.example/f/2"))
		}},
		{"in-create-2-objects", func(s int) *Scenario {
			return in("in-create-2-objects", s, Doc("Create", act(s), "actor", Carol, "object", ord(s,
				Emb("Note", rNoteA, "attributedTo", Carol, "content", "a"), Emb("Note", rNoteB, "attributedTo", Carol, "content", "b"))))
		}},
		{"in-update-2-objects", func(s int) *Scenario {
			return in("in-update-2-objects", s, Doc("Update", act(s), "actor", Carol, "object", ord(s,
				Emb("Note", RNote, "attributedTo", Carol, "content", fmt.Sprintf("edit %d", s)), Emb("Note", RNote2, "attributedTo", Carol, "content", fmt.Sprintf("edit %d", s)))))
		}},
		{"in-delete-2-objects", func(s int) *Scenario {
			return in("in-delete-2-objects", s, Doc("Delete", act(s), "actor", Carol, "object", ord(s, RNote, RNote2)))
		}},
		{"out-like-2", func(s int) *Scenario {
			return out("out-like-2", s, Doc("Like", "", "actor", Alice, "object", ord(s, RNote, RNote2)))
		}},
		{"out-add-2-targets", func(s int) *Scenario {
			return out("out-add-2-targets", s, Doc("Add", "", "actor", Alice, "object", []string{RNote, RNote2}[s], "target", ord(s, Col1, OCol1)))
		}},
		{"out-remove-2-targets", func(s int) *Scenario {
			return out("out-remove-2-targets", s, Doc("Remove", "", "actor", Alice, "object", Dave, "target", ord(s, Col1, OCol1)))
		}},
		{"out-update-2-objects", func(s int) *Scenario {
			return out("out-update-2-objects", s, Doc("Update", "", "actor", Alice, "object", ord(s,
				Emb("Note", Note1, "content", fmt.Sprintf("edited %d", s)), Emb("Note", Note2, "content", fmt.Sprintf("edited %d", s)))))
		}},
		{"out-delete-2-objects", func(s int) *Scenario {
			return out("out-delete-2-objects", s, Doc("Delete", "", "actor", Alice, "object", ord(s, Note1, Note2)))
		}},
		{"out-create-2-objects", func(s int) *Scenario {
			return out("out-create-2-objects", s, Doc("Create", "", "actor", Alice, "to", who(s), "object", ord(s,
				Emb("Note", "", "content", "a"), Emb("Note", "", "content", "b"))))
		}},
	}
	tweak := func(a *ap.App) {
		a.OnFollow = pub.OnFollowAutomaticallyAccept
		a.PutDoc(Doc("Note", RNote, "attributedTo", Carol, "content", "cached copy"))
		a.PutDoc(Doc("Note", RNote2, "attributedTo", Carol, "content", "cached copy 2"))
		a.PutDoc(Doc("Follow", "https://l.example/f/2", "actor", Alice, "object", L{Carol, Dave}))
	}
	var outS []*ConcScenario
	for _, k := range kinds {
		outS = append(outS, &ConcScenario{Name: "order/" + k.name, Tweak: tweak, Reqs: []*Scenario{k.mk(0), k.mk(1)}})
	}
	return outS
}
