package checks

import (
	"crypto/sha256"
	"encoding/base64"
	"encoding/json"
	"fmt"
	"net/http"
	"reflect"
	"sort"
	"strings"
	"sync"
	"time"

	"github.com/go-fed/activity/pub"
	"github.com/go-fed/activity/streams/vocab"

	ap "verif/apmodel"
	"verif/mc"
	"verif/onto"
)

type pageItem struct {
	name string
	v    interface{}
	id   string // "" = no id
}

var pageAlphabet = []pageItem{
	{"iriA", "https://r1.example/a/A", "https://r1.example/a/A"},
	{"iriB", "https://r1.example/a/B", "https://r1.example/a/B"},
	{"noteA", M{"type": "Note", "id": "https://r1.example/a/A", "content": "embedded A"}, "https://r1.example/a/A"},
	{"noteB", M{"type": "Note", "id": "https://r1.example/a/B", "content": "embedded B"}, "https://r1.example/a/B"},
	{"createA", M{"type": "Create", "id": "https://r1.example/a/A", "actor": Carol, "object": "https://r1.example/n/1"}, "https://r1.example/a/A"},
	{"noId", M{"type": "Note", "content": "no id"}, ""},
}

// staleHeaders is what middleware or an authentication hook may have left on the ResponseWriter.
var staleHeaders = map[string][]string{"Content-Type": {"text/html; charset=utf-8"}, "Date": {"Thu, 01 Jan 1970 00:00:00 GMT"},
	"Digest": {"SHA-256=c3RhbGU="}, "X-Application": {"kept"}}

// headersOK checks Content-Type, Date and Digest against the bytes written.
func headersOK(w *ap.Writer, now time.Time) string {
	h := w.HeaderAtWH
	if h == nil {
		return "no headers at WriteHeader time"
	}
	for _, k := range []string{"Content-Type", "Date", "Digest"} {
		if n := len(h.Values(k)); n != 1 {
			return fmt.Sprintf("%s has %d values %q (exactly one expected, whatever the ResponseWriter held before)", k, n, h.Values(k))
		}
	}
	if ct := h.Get("Content-Type"); ct != ap.APType {
		return fmt.Sprintf("Content-Type %q", ct)
	}
	if d := h.Get("Date"); d != now.UTC().Format(http.TimeFormat) {
		return fmt.Sprintf("Date %q, clock says %q", d, now.UTC().Format(http.TimeFormat))
	}
	sum := sha256.Sum256(w.Body())
	if dg := h.Get("Digest"); dg != "SHA-256="+base64.StdEncoding.EncodeToString(sum[:]) {
		return fmt.Sprintf("Digest %q does not match the %d bytes written", dg, len(w.Body()))
	}
	return ""
}

func jsonEqualModCtx(a, b map[string]interface{}) bool {
	norm := func(m map[string]interface{}) map[string]interface{} {
		o := map[string]interface{}{}
		for k, v := range m {
			if k == "@context" {
				var l []string
				switch c := v.(type) {
				case string:
					l = []string{c}
				case []interface{}:
					for _, e := range c {
						l = append(l, fmt.Sprint(e))
					}
				}
				sort.Strings(l)
				o[k] = l
				continue
			}
			o[k] = v
		}
		return o
	}
	return reflect.DeepEqual(norm(a), norm(b))
}

// C20 — served ActivityStreams bodies are faithful, de-duplicated and integrity-tagged.
func C20(tier string) int {
	res := NewResult("C20", tier, "exploration")
	maxLen := 5
	if res.Thorough() {
		maxLen = 6
	}
	// clock instants: boundaries x zones
	var clocks []time.Time
	zones := []*time.Location{time.UTC, time.FixedZone("a", 3600), time.FixedZone("b", -8*3600), time.FixedZone("c", 5*3600+1800), time.FixedZone("d", 14*3600)}
	for _, z := range zones {
		for _, t := range []time.Time{
			time.Date(2020, 2, 29, 23, 59, 59, 0, z), time.Date(2019, 12, 31, 23, 59, 59, 0, z), time.Date(2021, 1, 1, 0, 0, 0, 0, z),
			time.Date(2020, 6, 7, 8, 9, 5, 0, z), time.Date(1999, 3, 1, 0, 0, 0, 0, z)} {
			clocks = append(clocks, t)
		}
	}
	// ids that differ from one another in exactly one URL component: all distinct, none is a duplicate
	nearBase := "https://r1.example/a/A"
	nearAlphabet := []pageItem{{"base", nearBase, nearBase}}
	for _, v := range []struct{ n, id string }{{"other-host", "https://r2.example/a/A"}, {"other-scheme", "http://r1.example/a/A"}, {"fragment", nearBase + "#x"},
		{"query", nearBase + "?v=2"}, {"port", "https://r1.example:8443/a/A"}, {"trailing-slash", nearBase + "/"}, {"path-case", "https://r1.example/a/a"}, {"sub-path", nearBase + "/A"},
		{"query-case", nearBase + "?V=2"}, {"fragment-case", nearBase + "#X"}, {"empty-query", nearBase + "?"}} {
		nearAlphabet = append(nearAlphabet, pageItem{v.n, v.id, v.id})
	}
	nearAlphabet = append(nearAlphabet, pageItem{"embedded-other-host", M{"type": "Note", "id": "https://r2.example/a/A", "content": "r2"}, "https://r2.example/a/A"},
		pageItem{"embedded-base", M{"type": "Note", "id": nearBase, "content": "r1"}, nearBase})
	totalPages := 0
	runPages := func(pageAlphabet []pageItem, maxLen int, explicit ...[]int) {
		// all item sequences
		var seqsI [][]int
		var gen func(cur []int)
		gen = func(cur []int) {
			seqsI = append(seqsI, append([]int(nil), cur...))
			if len(cur) == maxLen {
				return
			}
			for i := range pageAlphabet {
				gen(append(cur, i))
			}
		}
		if len(explicit) > 0 {
			seqsI = explicit
		} else {
			gen(nil)
		}
		totalPages += len(seqsI)
		res.Rule = fmt.Sprintf("ordered-collection pages whose items are every sequence of length 0..%d over {IRI a, IRI b, embedded Note a, embedded Note b, embedded Create a, embedded value without id} (%d pages), and every sequence of length 0..3 over 14 items whose ids differ in exactly one URL component (host, scheme, fragment, query, port, trailing slash, case of path / query / fragment, sub-path, an empty query; IRI and embedded), and 24 long pages (8 / 16 / 30 items in 8 duplicate patterns), served through GetInbox and GetOutbox; every pair of {GetInbox, GetOutbox, handler x 2 values} handled concurrently on one Actor under the cooperative scheduler (all interleavings of seam calls and clock reads): each response carries the Digest of its own bytes and equals the one served alone; handler values of every vocabulary type (hidden recipients embedded / in lists / nested, and 4, 6, 9 and 17 object levels deep), Tombstone, missing value, Get error; %d clock instants at second/day/year boundaries in 5 time zones; a third of the pages and half of the handler values served on a ResponseWriter that already carries stale Content-Type / Date / Digest values (each must end with exactly one, correct value); every sequence of 2-3 (thorough 4) read requests over 8 request kinds on ONE application and one handler value, each answered exactly as when served alone; oracle: body JSON-equal to the supplied value with (inbox) later duplicates of an id removed and order kept, Content-Type constant, Date = clock in RFC 7231 GMT form, Digest = base64 SHA-256 of the bytes written, 410 for a Tombstone, ErrNotFound with nothing written for a missing value; non-trivial = pages with at least one duplicate id or a handler value", maxLen, len(seqsI), len(clocks))
		var mu sync.Mutex
		chunk := 400
		parallel((len(seqsI)+chunk-1)/chunk, func(ci int) {
			lo, hi := ci*chunk, (ci+1)*chunk
			if hi > len(seqsI) {
				hi = len(seqsI)
			}
			type viol struct {
				key, what string
				rep       M
			}
			var vs []viol
			classes := map[string]struct{}{}
			outc := map[string]int{}
			evals := 0
			for si, seq := range seqsI[lo:hi] {
				items := L{}
				var names []string
				hasNoID := false
				for _, i := range seq {
					items = append(items, pageAlphabet[i].v)
					names = append(names, pageAlphabet[i].name)
					if pageAlphabet[i].id == "" {
						hasNoID = true
					}
				}
				for _, entry := range []string{"GetInbox", "GetOutbox"} {
					box := inbox(Alice)
					if entry == "GetOutbox" {
						box = outbox(Alice)
					}
					pageDoc := Doc("OrderedCollectionPage", box, "partOf", box+"?all")
					if len(items) > 0 {
						pageDoc["orderedItems"] = items
					}
					now := clocks[(lo+si)%len(clocks)]
					sc := &Scenario{Name: fmt.Sprintf("%s items=%v", entry, names), Kind: ap.Both, Entry: entry, URL: box, Tweak: func(a *ap.App) {
						a.Now = now
						a.ServePage = func(iri string) (vocab.ActivityStreamsOrderedCollectionPage, error) {
							t, err := ap.Decode(ap.MustJSON(pageDoc))
							if err != nil {
								return nil, err
							}
							return t.(vocab.ActivityStreamsOrderedCollectionPage), nil
						}
					}}
					if (lo+si)%3 == 1 {
						sc.PreHeaders = staleHeaders
						sc.Name += " stale-headers-on-writer"
					}
					out := sc.Exec(mc.NewExec(nil), false)
					evals++
					rep := M{"check": "C20", "entry": entry, "items": names}
					bad := func(kind, what string) {
						vs = append(vs, viol{kind + "|" + entry, sc.Name + ": " + what, rep})
					}
					if out.Panic != nil {
						outc["panic(C11)"]++
						continue
					}
					// expected items
					var want L
					seen := map[string]bool{}
					dup := false
					for _, i := range seq {
						it := pageAlphabet[i]
						if entry == "GetInbox" {
							if seen[it.id] {
								dup = true
								continue
							}
							seen[it.id] = true
						}
						want = append(want, it.v)
					}
					if dup {
						classes[sc.Name] = struct{}{}
					}
					if entry == "GetInbox" && hasNoID {
						if out.Err == nil || out.W.Wrote() {
							bad("element-without-id-served", fmt.Sprintf("a page element without id must yield an error and nothing written; err=%v statuses=%v", out.Err, out.W.Statuses))
						}
						outc["error-no-id"]++
						continue
					}
					if out.Err != nil || !out.Handled {
						bad("serve-failed", fmt.Sprintf("err=%v handled=%v", out.Err, out.Handled))
						continue
					}
					outc["served"]++
					if len(out.W.Statuses) != 1 || out.W.Statuses[0] != 200 {
						bad("status", fmt.Sprint(out.W.Statuses))
					}
					if msg := headersOK(out.W, now); msg != "" {
						bad("header|"+strings.SplitN(msg, " ", 2)[0], msg)
					}
					var got map[string]interface{}
					if err := json.Unmarshal(out.W.Body(), &got); err != nil {
						bad("body-not-json", err.Error())
						continue
					}
					exp := map[string]interface{}{}
					json.Unmarshal(ap.MustJSON(pageDoc), &exp)
					delete(exp, "orderedItems")
					if len(want) == 1 {
						exp["orderedItems"] = deepCopy(want[0])
					} else if len(want) > 1 {
						exp["orderedItems"] = deepCopy(want)
					}
					if !jsonEqualModCtx(exp, got) {
						kind := "body-differs"
						if entry == "GetInbox" && dup {
							kind = "dedupe-wrong"
						}
						bad(kind, fmt.Sprintf("served %s, expected %s", shortJSON(got["orderedItems"]), shortJSON(exp["orderedItems"])))
					}
				}
			}
			mu.Lock()
			defer mu.Unlock()
			res.Evaluations += evals
			for k := range classes {
				res.Nontrivial[k] = struct{}{}
			}
			for k, v := range outc {
				res.Outcomes[k] += v
			}
			for _, v := range vs {
				res.Violate(v.key, v.what, v.rep)
			}
		})
	}
	runPages(nearAlphabet, 3)
	// long pages (8, 16, 30 items) in structured duplicate patterns over 8 ids, each as IRI or embedded
	var longAlpha []pageItem
	for k := 0; k < 8; k++ {
		id := fmt.Sprintf("https://r1.example/long/%d", k)
		longAlpha = append(longAlpha, pageItem{fmt.Sprintf("iri%d", k), id, id}, pageItem{fmt.Sprintf("emb%d", k), M{"type": "Note", "id": id, "content": fmt.Sprint(k)}, id})
	}
	var longSeqs [][]int
	for _, n := range []int{8, 16, 30} {
		pat := map[string]func(i int) int{
			"all-distinct-then-wrap": func(i int) int { return (i % 8) * 2 },
			"all-the-same":           func(i int) int { return 0 },
			"alternating-two":        func(i int) int { return (i % 2) * 2 },
			"pairs":                  func(i int) int { return ((i / 2) % 8) * 2 },
			"iri-then-embedded-twin": func(i int) int { return ((i/2)%8)*2 + i%2 },
			"first-again-at-the-end": func(i int) int {
				if i == n-1 {
					return 0
				}
				return ((i % 7) + 1) * 2
			},
			"mirror": func(i int) int {
				if i < n/2 {
					return (i % 8) * 2
				}
				return ((n - 1 - i) % 8) * 2
			},
			"blocks-of-three-embedded": func(i int) int { return ((i/3)%8)*2 + 1 },
		}
		names := make([]string, 0, len(pat))
		for k := range pat {
			names = append(names, k)
		}
		sort.Strings(names)
		for _, k := range names {
			seq := make([]int, n)
			for i := range seq {
				seq[i] = pat[k](i)
			}
			longSeqs = append(longSeqs, seq)
		}
	}
	runPages(longAlpha, 30, longSeqs...)
	runPages(pageAlphabet, maxLen)
	// ---- concurrent GETs: every interleaving (scheduling points: seam calls and clock reads) of two
	// responses being produced at once; each must carry the Digest of its own bytes ----
	{
		pageFor := func(iri string) M {
			d := Doc("OrderedCollectionPage", iri, "partOf", iri+"?all")
			if strings.HasSuffix(iri, "/inbox") {
				d["orderedItems"] = L{"https://r1.example/a/A", M{"type": "Note", "id": "https://r1.example/a/B", "content": "in the inbox"}}
			} else {
				d["orderedItems"] = L{"https://l.example/id/1", "https://l.example/id/2", "https://l.example/id/3"}
			}
			return d
		}
		get := func(name, entry, url string) *Scenario {
			return &Scenario{Name: name, Kind: ap.Both, Entry: entry, URL: url}
		}
		kinds := []*Scenario{get("get-inbox", "GetInbox", inbox(Alice)), get("get-outbox", "GetOutbox", outbox(Alice)), get("get-note1", "Handler", Note1), get("get-note2", "Handler", Note2)}
		nConc, nExec := 0, 0
		for i := range kinds {
			for j := i; j < len(kinds); j++ {
				a0, b0 := *kinds[i], *kinds[j]
				cs := &ConcScenario{Name: "c20/" + a0.Name + "+" + b0.Name, Reqs: []*Scenario{&a0, &b0}, Tweak: func(a *ap.App) {
					a.Now = clocks[3]
					a.ServePage = func(iri string) (vocab.ActivityStreamsOrderedCollectionPage, error) {
						t, err := ap.Decode(ap.MustJSON(pageFor(iri)))
						if err != nil {
							return nil, err
						}
						return t.(vocab.ActivityStreamsOrderedCollectionPage), nil
					}
				}}
				seq := cs.runSeq([]int{0, 1})
				e := &mc.Explorer{Prune: true}
				e.Budget = [3]int{-1, 0, 0}
				e.Run = func(x *mc.Exec) bool {
					co := cs.runConc(x)
					nExec++
					if co.sched.Deadlock {
						res.Violate("concurrent-gets|deadlock", cs.Name+": "+co.sched.DeadlockInfo, M{"check": "C20", "scenario": cs.Name, "choices": x.Choices()})
						return true
					}
					for k, o := range co.outs {
						if o == nil || o.Panic != nil || o.Err != nil {
							continue
						}
						if msg := headersOK(o.W, clocks[3]); msg != "" {
							res.Violate("concurrent-gets|header|"+strings.SplitN(msg, " ", 2)[0], fmt.Sprintf("%s, schedule %v: response %d: %s", cs.Name, co.sched.Trace, k, msg),
								M{"check": "C20", "scenario": cs.Name, "choices": x.Choices(), "schedule": co.sched.Trace})
						}
						if string(o.W.Body()) != string(seq.outs[k].W.Body()) {
							res.Violate("concurrent-gets|body-differs-from-sequential", fmt.Sprintf("%s, schedule %v: response %d differs from the one served alone", cs.Name, co.sched.Trace, k),
								M{"check": "C20", "scenario": cs.Name, "choices": x.Choices(), "schedule": co.sched.Trace})
						}
					}
					return true
				}
				e.Explore()
				if !e.Exhaustive {
					res.Exhaustive = false
				}
				nConc++
				res.Nontrivial[cs.Name] = struct{}{}
			}
		}
		res.Evaluations += nExec
		res.Extra["concurrent_get_pairs"] = nConc
		res.Extra["concurrent_get_schedules"] = nExec
	}
	res.Extra["pages"] = totalPages
	res.Sample(M{"entry": "GetInbox", "items": []string{"iriA", "noteB", "createA", "iriB", "noteA"}, "expected_served": []string{"iriA", "noteB", "iriB"}})

	// ---- handler: values of every type ----
	o, err := onto.Load(onto.ShippedFiles(repoDir())...)
	if err != nil {
		fmt.Println("ontology:", err)
		return 2
	}
	for ti, tk := range o.TypeKeys() {
		t := o.Types[tk]
		if t.Typeless {
			continue
		}
		for ci, now := range clocks {
			if !res.Thorough() && ci != ti%len(clocks) {
				continue
			}
			id := "https://l.example/v/" + t.Name
			doc := M{"type": t.Name, "id": id}
			ctxs := L{}
			for _, v := range o.Vocabs {
				if v.Name == t.Vocab || v.Name == "ActivityStreams" && o.HasProp(tk, "ActivityStreams/name") {
					ctxs = append(ctxs, v.URI)
				}
			}
			if o.HasProp(tk, "ActivityStreams/name") {
				doc["name"] = "value of type " + t.Name
			}
			if len(ctxs) == 1 {
				doc["@context"] = ctxs[0]
			} else {
				doc["@context"] = ctxs
			}
			now := now
			sc := &Scenario{Name: "handler/" + tk, Kind: ap.Both, Entry: "Handler", URL: id, Tweak: func(a *ap.App) { a.PutDoc(doc); a.Now = now }}
			if len(tk)%2 == 1 || tk == "ActivityStreams/Tombstone" {
				sc.PreHeaders = staleHeaders
			}
			out := sc.Exec(mc.NewExec(nil), false)
			res.Case("handler|" + tk)
			rep := M{"check": "C20", "entry": "Handler", "stored": doc}
			if out.Panic != nil {
				continue
			}
			if out.Err != nil || !out.Handled {
				res.Violate("handler-serve-failed|"+tk, fmt.Sprintf("%s: err=%v handled=%v", sc.Name, out.Err, out.Handled), rep)
				continue
			}
			wantStatus := 200
			if tk == "ActivityStreams/Tombstone" {
				wantStatus = 410
			}
			if len(out.W.Statuses) != 1 || out.W.Statuses[0] != wantStatus {
				res.Violate(fmt.Sprintf("handler-status|want=%d", wantStatus), fmt.Sprintf("%s: statuses %v, want %d", sc.Name, out.W.Statuses, wantStatus), rep)
			}
			if msg := headersOK(out.W, now); msg != "" {
				res.Violate("header|"+strings.SplitN(msg, " ", 2)[0]+"|Handler", sc.Name+": "+msg, rep)
			}
			var got, exp map[string]interface{}
			json.Unmarshal(out.W.Body(), &got)
			json.Unmarshal(ap.MustJSON(doc), &exp)
			if !jsonEqualModCtx(exp, got) {
				res.Violate("handler-body-differs|"+tk, fmt.Sprintf("%s: served %s, stored %s", sc.Name, shortJSON(got), shortJSON(exp)), rep)
			}
			res.Outcome(fmt.Sprintf("handler-%d", wantStatus))
		}
	}
	// handler: bto/bcc removed (and nothing else), through every 'object' nesting shape
	stripHidden := func(v interface{}) interface{} { return nil }
	var strip func(v interface{}) interface{}
	strip = func(v interface{}) interface{} {
		switch x := v.(type) {
		case map[string]interface{}:
			o := map[string]interface{}{}
			for k, e := range x {
				if k == "bto" || k == "bcc" {
					continue
				}
				if k == "object" {
					o[k] = strip(e)
				} else {
					o[k] = e
				}
			}
			return o
		case []interface{}:
			var l []interface{}
			for _, e := range x {
				l = append(l, strip(e))
			}
			return l
		}
		return v
	}
	_ = stripHidden
	hiddenNote := func(id string) M {
		return M{"type": "Note", "id": id, "content": "c", "bto": "https://r2.example/u/erin", "bcc": L{"https://r2.example/u/dave", "https://r1.example/u/carol"}}
	}
	for _, tk := range o.TypeKeys() {
		if !o.HasProp(tk, "ActivityStreams/object") || !o.HasProp(tk, "ActivityStreams/bto") {
			continue
		}
		shapes := map[string]interface{}{
			"embedded":          hiddenNote("https://l.example/n/e1"),
			"iri-then-embedded": L{RNote, hiddenNote("https://l.example/n/e1")},
			"embedded-then-iri": L{hiddenNote("https://l.example/n/e1"), RNote},
			"nested":            M{"type": "Create", "id": "https://l.example/n/c1", "bcc": Erin, "object": L{RNote, hiddenNote("https://l.example/n/e2")}},
		}
		// deep chains: the hidden recipients sit 4, 6, 9 and 17 'object' levels below the served value
		for _, depth := range []int{4, 6, 9, 17} {
			var inner interface{} = hiddenNote("https://l.example/n/deepest")
			for lvl := depth - 1; lvl >= 1; lvl-- {
				inner = M{"type": []string{"Create", "Announce", "Like"}[lvl%3], "id": fmt.Sprintf("https://l.example/n/lvl%d", lvl), "bcc": Erin, "object": inner}
			}
			shapes[fmt.Sprintf("deep-%d", depth)] = inner
		}
		for sn, sv := range shapes {
			id := "https://l.example/v/hidden"
			doc := M{"@context": AS, "type": o.Types[tk].Name, "id": id, "bto": Erin, "to": Carol, "object": sv}
			if o.Types[tk].Vocab != "ActivityStreams" {
				doc["@context"] = L{AS, o.VocabOf(o.Types[tk].Vocab).URI}
			}
			sc := &Scenario{Name: "handler-hidden/" + tk + "/" + sn, Kind: ap.Both, Entry: "Handler", URL: id, Tweak: func(a *ap.App) { a.PutDoc(doc) }}
			out := sc.Exec(mc.NewExec(nil), false)
			res.Case("handler-hidden|" + tk + "|" + sn)
			if out.Panic != nil || out.Err != nil {
				continue
			}
			var got, stored map[string]interface{}
			json.Unmarshal(out.W.Body(), &got)
			json.Unmarshal(ap.MustJSON(doc), &stored)
			exp := strip(stored).(map[string]interface{})
			if !jsonEqualModCtx(exp, got) {
				res.Violate("handler-body-not-stored-minus-hidden|"+sn, fmt.Sprintf("%s: served %s, expected %s", sc.Name, shortJSON(got), shortJSON(exp)), M{"check": "C20", "stored": doc})
			}
			if msg := headersOK(out.W, out.App.Now); msg != "" {
				res.Violate("header|"+strings.SplitN(msg, " ", 2)[0]+"|Handler", sc.Name+": "+msg, M{"check": "C20", "stored": doc})
			}
		}
	}
	// missing value / Get error / Lock error
	for _, variant := range []string{"missing-nil", "get-error"} {
		variant := variant
		sc := &Scenario{Name: "handler/" + variant, Kind: ap.Both, Entry: "Handler", URL: "https://l.example/v/absent",
			Tweak: func(a *ap.App) { a.MissingAsNil = variant == "missing-nil" }}
		out := sc.Exec(mc.NewExec(nil), false)
		res.Case("handler|" + variant)
		if out.W.Wrote() {
			res.Violate("handler-wrote-on-"+variant, fmt.Sprintf("%s: wrote %v", sc.Name, out.W.Statuses), M{"check": "C20", "variant": variant})
		}
		if variant == "missing-nil" && out.Err != pub.ErrNotFound {
			res.Violate("handler-missing-not-ErrNotFound", fmt.Sprintf("%s: err=%v", sc.Name, out.Err), M{"check": "C20", "variant": variant})
		}
		if variant == "get-error" && out.Err == nil {
			res.Violate("handler-get-error-swallowed", sc.Name+": nil error", M{"check": "C20", "variant": variant})
		}
	}
	res.Extra["clock_instants"] = len(clocks)
	getHistories(res, "C20", map[bool]int{false: 3, true: 4}[res.Thorough()])
	return res.Finish()
}
