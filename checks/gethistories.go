package checks

import (
	"fmt"
	"net/http"
	"strings"
	"time"

	ap "verif/apmodel"
)

// getHistories: every sequence of 2..maxLen read requests over one application (one Actor, ONE
// ActivityStreams handler value, as an application builds them once), each compared with the same
// request served alone on a fresh application: status, outcome, body and Content-Type / Digest must
// not depend on what was served before.
func getHistories(res *Result, check string, maxLen int) int {
	tomb := "https://l.example/n/tomb"
	tweak := func(a *ap.App) {
		a.PutDoc(Doc("Tombstone", tomb, "formerType", "Note", "deleted", "2020-01-02T03:04:05Z"))
		a.PutDoc(Doc("Note", "https://l.example/n/hidden", "content", "h", "bto", Carol, "bcc", L{Dave}))
	}
	type rq struct {
		name string
		sc   Scenario
	}
	alpha := []rq{
		{"handler:live-note", Scenario{Kind: ap.Both, Entry: "Handler", URL: Note1}},
		{"handler:tombstone", Scenario{Kind: ap.Both, Entry: "Handler", URL: tomb}},
		{"handler:note-with-collections", Scenario{Kind: ap.Both, Entry: "Handler", URL: Note2}},
		{"handler:missing", Scenario{Kind: ap.Both, Entry: "Handler", URL: "https://l.example/n/absent"}},
		{"handler:hidden-recipients", Scenario{Kind: ap.Both, Entry: "Handler", URL: "https://l.example/n/hidden"}},
		{"handler:not-activitypub", Scenario{Kind: ap.Both, Entry: "Handler", URL: Note1, Accept: "text/html"}},
		{"get-inbox", Scenario{Kind: ap.Both, Entry: "GetInbox", URL: inbox(Alice)}},
		{"get-outbox", Scenario{Kind: ap.Both, Entry: "GetOutbox", URL: outbox(Alice)}},
	}
	sig := func(o *RunOut) string {
		if o.Panic != nil {
			return "panic"
		}
		h := o.W.HeaderAtWH
		return fmt.Sprintf("handled=%v err=%v statuses=%v ctype=%q digest=%q body=%s", o.Handled, o.Err != nil, o.W.Statuses, h.Get("Content-Type"), h.Get("Digest"), o.W.Body())
	}
	solo := make([]string, len(alpha))
	for i := range alpha {
		sc := alpha[i].sc
		sc.Name, sc.Tweak = check+"/get-history/solo/"+alpha[i].name, tweak
		a := sc.World()
		solo[i] = sig(sc.On(a, nil))
	}
	n := 0
	var rec func(seq []int)
	rec = func(seq []int) {
		if len(seq) >= 2 {
			base := alpha[seq[0]].sc
			base.Tweak = tweak
			a := base.World()
			var names []string
			for _, i := range seq {
				names = append(names, alpha[i].name)
			}
			for k, i := range seq {
				sc := alpha[i].sc
				sc.Name = check + "/get-history/" + strings.Join(names, ">")
				// the application's clock moves on by 600 ms per request, starting just before a
				// second (and day) boundary: every response carries the Date of its own instant
				a.Now = time.Date(2020, 12, 31, 23, 59, 59, 900_000_000, time.UTC).Add(time.Duration(k) * 600 * time.Millisecond)
				o := sc.On(a, nil)
				if o.Panic == nil && len(o.W.Statuses) > 0 && o.W.HeaderAtWH != nil {
					if d, want := o.W.HeaderAtWH.Get("Date"), a.Now.UTC().Format(http.TimeFormat); d != want {
						res.Violate("get-history|date-of-another-instant|"+alpha[i].name, fmt.Sprintf("requests %v, the clock moving on 600 ms per request: response %d carries Date %q, the clock said %q", names, k+1, d, want),
							M{"check": check, "part": "get-history", "requests": names})
						break
					}
				}
				got := sig(o)
				if got != solo[i] {
					res.Violate(fmt.Sprintf("get-history|response-depends-on-earlier-requests|%s-after-%s", alpha[i].name, alpha[seq[max(k-1, 0)]].name),
						fmt.Sprintf("requests %v on one application: request %d (%s) is answered %s; served alone it is answered %s", names, k+1, alpha[i].name, trunc(got, 300), trunc(solo[i], 300)),
						M{"check": check, "part": "get-history", "requests": names})
					break
				}
			}
			n++
			res.Case(check + "|get-history|" + strings.Join(names, ">"))
		}
		if len(seq) == maxLen {
			return
		}
		for i := range alpha {
			rec(append(append([]int(nil), seq...), i))
		}
	}
	rec(nil)
	res.Evaluations += n
	res.Extra["get_histories"] = n
	return n
}

func max(a, b int) int {
	if a > b {
		return a
	}
	return b
}

func trunc(s string, n int) string {
	if len(s) > n {
		return s[:n] + "..."
	}
	return s
}

// heldPayloads reports payloads that changed after they were handed to the transport (the application
// model keeps the very slice, as a queueing transport would).
func heldPayloads(res *Result, check string, a *ap.App, what string) {
	for _, d := range a.HeldPayloadsChanged() {
		res.Violate("payload-changed-after-hand-over", fmt.Sprintf("%s: %s", what, d), M{"check": check, "history": what})
	}
}
