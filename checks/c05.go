package checks

import (
	"encoding/json"
	"fmt"
	"sort"
	"strings"
	"sync"

	ap "verif/apmodel"
	"verif/mc"
)

var c05props = []string{"to", "bto", "cc", "bcc", "audience"}

const (
	rx = "https://r1.example/u/x"
	ry = "https://r1.example/u/y"
	rz = "https://r2.example/u/z"
)

func idSet(v interface{}) map[string]bool {
	s := map[string]bool{}
	for _, e := range asList(v) {
		if id := idOf(e); id != "" {
			s[id] = true
		}
	}
	return s
}

func union(sets ...map[string]bool) map[string]bool {
	o := map[string]bool{}
	for _, s := range sets {
		for k := range s {
			o[k] = true
		}
	}
	return o
}

func sameSet(a, b map[string]bool) bool {
	if len(a) != len(b) {
		return false
	}
	for k := range a {
		if !b[k] {
			return false
		}
	}
	return true
}

func subsetOf(a, b map[string]bool) bool {
	for k := range a {
		if !b[k] {
			return false
		}
	}
	return true
}

func keysRaw(s map[string]bool) []string {
	var o []string
	for k := range s {
		o = append(o, k)
	}
	sort.Strings(o)
	return o
}

func keys(s map[string]bool) []string {
	var o []string
	for k := range s {
		o = append(o, shortID(k))
	}
	sort.Strings(o)
	return o
}

type c05input struct {
	name  string
	entry string
	kind  ap.ActorKind
	body  M
	bare  bool
	nObj  int
}

// c05inputs enumerates bare objects and Creates with overlapping recipient / attribution sets.
func c05inputs(thorough bool) []c05input {
	var ins []c05input
	opts := []interface{}{nil, rx, L{ry, rz}}
	// one object: every assignment of {absent, {x}, {y,z}} to the five properties on the activity
	// and on the object (3^10), plus attribution variants
	var assign func(n int, f func(a []int))
	assign = func(n int, f func(a []int)) {
		a := make([]int, n)
		for {
			f(a)
			k := 0
			for k < n {
				a[k]++
				if a[k] < 3 {
					break
				}
				a[k] = 0
				k++
			}
			if k == n {
				return
			}
		}
	}
	cnt := 0
	assign(10, func(a []int) {
		cnt++
		if !thorough && cnt%4 != 1 && !(a[1] != 0 && a[8] != 0) && !(a[3] != 0 && a[6] != 0) {
			return // quick: a quarter of the product, plus everything pairing bto with bcc across activity and object
		}
		act := Doc("Create", "", "actor", Alice)
		obj := Emb("Note", "", "content", "c")
		for i, p := range c05props {
			if v := opts[a[i]]; v != nil {
				act[p] = v
			}
			if v := opts[a[5+i]]; v != nil {
				obj[p] = v
			}
		}
		switch cnt % 4 {
		case 1:
			obj["attributedTo"] = Bob
		case 2:
			obj["attributedTo"] = L{Alice, Bob}
			act["actor"] = L{Alice, Emb("Person", rx)}
		case 3:
			act["actor"] = L{Alice, Bob}
		}
		act["object"] = obj
		ins = append(ins, c05input{name: fmt.Sprintf("create-1 %v", a), entry: "PostOutbox", kind: ap.Both, body: act, nObj: 1})
	})
	// bare objects whose 'published' is a boundary instant (the zero time, the epoch, the last second of
	// year 9999, extreme zone offsets): copied to the wrapping Create like any other
	for _, pub := range []string{"0001-01-01T00:00:00Z", "1970-01-01T00:00:00Z", "9999-12-31T23:59:59Z", "2018-01-02T03:04:05+14:00", "2018-01-02T03:04:05-12:00", "2000-02-29T23:59:59Z"} {
		for _, en := range []struct {
			e string
			k ap.ActorKind
		}{{"PostOutbox", ap.Both}, {"Send", ap.Both}, {"PostOutbox", ap.SocialOnly}, {"Send", ap.FederatingOnly}} {
			obj := Doc("Note", "", "content", "c", "to", Carol, "published", pub)
			ins = append(ins, c05input{name: fmt.Sprintf("bare-Note published=%s %s/%s", pub, en.e, en.k), entry: en.e, kind: en.k, body: obj, bare: true, nObj: 1})
		}
	}
	// bare objects: the five properties + published
	assign(5, func(a []int) {
		for _, typ := range []string{"Note", "Article"} {
			for _, pub := range []interface{}{nil, "2018-01-02T03:04:05Z"} {
				obj := Doc(typ, "", "content", "c")
				for i, p := range c05props {
					if v := opts[a[i]]; v != nil {
						obj[p] = v
					}
				}
				if pub != nil {
					obj["published"] = pub
				}
				for _, en := range []struct {
					e string
					k ap.ActorKind
				}{{"PostOutbox", ap.Both}, {"Send", ap.Both}, {"PostOutbox", ap.SocialOnly}, {"Send", ap.FederatingOnly}} {
					if en.k != ap.Both && (a[0]+a[1]+a[2]+a[3]+a[4])%3 != 0 {
						continue
					}
					ins = append(ins, c05input{name: fmt.Sprintf("bare-%s %v pub=%v %s/%s", typ, a, pub != nil, en.e, en.k), entry: en.e, kind: en.k, body: obj, bare: true, nObj: 1})
				}
			}
		}
	})
	// Creates with 5, 6, 7, 9 and 13 embedded objects (every object must get an id and be stored)
	for _, n := range []int{5, 6, 7, 9, 13} {
		for _, en := range []struct {
			e string
			k ap.ActorKind
		}{{"PostOutbox", ap.Both}, {"Send", ap.Both}, {"PostOutbox", ap.SocialOnly}} {
			objs := L{}
			for i := 0; i < n; i++ {
				o := Emb([]string{"Note", "Article", "Image"}[i%3], "", "content", fmt.Sprintf("o%d", i))
				if i == n-1 {
					o["to"] = Dave
				}
				objs = append(objs, o)
			}
			ins = append(ins, c05input{name: fmt.Sprintf("create-%d objects %s/%s", n, en.e, en.k), entry: en.e, kind: en.k, nObj: n,
				body: Doc("Create", "", "actor", Alice, "to", Carol, "object", objs)})
		}
	}
	// two / three objects with every attribution pattern over {none, the actor, another actor, both} per object
	// (an actor that one object already names must still be added to the others)
	attrOpts := []interface{}{nil, Alice, Bob, L{Bob, Alice}}
	for _, n := range []int{2, 3} {
		assign4 := func(f func(a []int)) {
			idx := make([]int, n)
			for {
				f(append([]int(nil), idx...))
				k := 0
				for k < n {
					idx[k]++
					if idx[k] < len(attrOpts) {
						break
					}
					idx[k] = 0
					k++
				}
				if k == n {
					return
				}
			}
		}
		assign4(func(a []int) {
			objs := L{}
			for i := 0; i < n; i++ {
				o := Emb("Note", "", "content", fmt.Sprintf("o%d", i))
				if v := attrOpts[a[i]]; v != nil {
					o["attributedTo"] = v
				}
				objs = append(objs, o)
			}
			ins = append(ins, c05input{name: fmt.Sprintf("create-%d attribution %v", n, a), entry: "PostOutbox", kind: ap.Both, nObj: n,
				body: Doc("Create", "", "actor", Alice, "to", Carol, "object", objs)})
		})
	}
	// two / three objects: to, bto, bcc on the activity and on each object
	three := []string{"to", "bto", "bcc"}
	opts2 := []interface{}{nil, rx, ry}
	for _, n := range []int{2, 3} {
		if n == 3 && !thorough {
			continue
		}
		c2 := 0
		assign(3*(n+1), func(a []int) {
			c2++
			if n == 3 && c2%27 != 0 {
				return
			}
			if !thorough && c2%3 != 0 {
				return
			}
			act := Doc("Create", "", "actor", Alice)
			objs := L{}
			for s := 0; s <= n; s++ {
				var d M
				if s == 0 {
					d = act
				} else {
					d = Emb("Note", "", "content", fmt.Sprintf("o%d", s))
					if s == 2 {
						d["attributedTo"] = Bob
					}
				}
				for i, p := range three {
					if v := opts2[a[s*3+i]]; v != nil {
						d[p] = v
					}
				}
				if s > 0 {
					objs = append(objs, d)
				}
			}
			act["object"] = objs
			ins = append(ins, c05input{name: fmt.Sprintf("create-%d %v", n, a), entry: "PostOutbox", kind: ap.Both, body: act, nObj: n})
		})
	}
	// other activity types: id / store / outbox / deliver ordering only
	for _, d := range []M{
		Doc("Like", "", "actor", Alice, "object", RNote, "to", Carol), Doc("Follow", "", "actor", Alice, "object", Carol, "to", Carol, "bcc", Dave),
		Doc("Announce", "", "actor", Alice, "object", RNote, "to", RCol), Doc("Block", "", "actor", Alice, "object", Carol),
		Doc("Update", "", "actor", Alice, "object", Emb("Note", Note1, "content", "e"), "to", Carol), Doc("Delete", "", "actor", Alice, "object", Note2, "to", Carol),
		Doc("Add", "", "actor", Alice, "object", RNote, "target", Col1, "to", Carol), Doc("Listen", "", "actor", Alice, "object", RNote, "to", Carol),
		Doc("Undo", "", "actor", Alice, "object", "https://l.example/like/7", "to", Carol),
	} {
		for _, en := range []struct {
			e string
			k ap.ActorKind
		}{{"PostOutbox", ap.Both}, {"Send", ap.Both}, {"PostOutbox", ap.SocialOnly}, {"Send", ap.FederatingOnly}} {
			ins = append(ins, c05input{name: fmt.Sprintf("%s %s/%s", d["type"], en.e, en.k), entry: en.e, kind: en.k, body: d})
		}
	}
	// bare objects with an attribution of their own (every entry must end among the Create's actors)
	for ai, at := range []interface{}{Bob, L{Alice, rz}, Emb("Person", rz), L{Bob, Emb("Person", rx)}, M{"type": "Mention", "href": rz}, M{"type": "Link", "id": rz, "href": "https://r9.example/decoy"}} {
		for _, en := range []struct {
			e string
			k ap.ActorKind
		}{{"PostOutbox", ap.Both}, {"Send", ap.Both}, {"PostOutbox", ap.SocialOnly}} {
			obj := Doc("Note", "", "content", "c", "attributedTo", at, "to", rx, "bcc", L{ry, rz})
			ins = append(ins, c05input{name: fmt.Sprintf("bare-Note attribution-%d %s/%s", ai, en.e, en.k), entry: en.e, kind: en.k, body: obj, bare: true, nObj: 1})
		}
	}
	// reference spellings: the same inputs with every actor / attribution / addressing reference written
	// as an embedded actor, as an embedded Mention (href only), or alternately as IRI and as an embedded
	// Link with id and a decoy href (the oracle compares id sets, so the expectation is unchanged)
	n0 := len(ins)
	for i := 0; i < n0; i++ {
		in := ins[i]
		step := 5
		if thorough {
			step = 2
		}
		if i%step != 0 && !strings.Contains(in.name, "attribution-") {
			continue
		}
		mode := 1 + (i/step)%3
		b := deepCopy(in.body).(map[string]interface{})
		if !respellRefs(b, mode) {
			continue
		}
		in.body = b
		in.name += fmt.Sprintf(" spelling=%d", mode)
		ins = append(ins, in)
	}
	return ins
}

var refProps = []string{"actor", "attributedTo", "to", "bto", "cc", "bcc", "audience"}

// respellRefs rewrites the references held by the actor / attribution / addressing members of an
// activity and of the objects embedded under 'object'. It reports whether anything changed.
func respellRefs(doc map[string]interface{}, mode int) bool {
	changed := false
	n := 0
	one := func(v interface{}) interface{} {
		id, ok := v.(string)
		if !ok {
			return v
		}
		n++
		switch mode {
		case 1:
			changed = true
			return M{"type": "Person", "id": id}
		case 2:
			changed = true
			return M{"type": "Mention", "href": id}
		default:
			if n%2 == 1 {
				return v
			}
			changed = true
			return M{"type": "Link", "id": id, "href": "https://r9.example/decoy"}
		}
	}
	var walk func(d map[string]interface{})
	walk = func(d map[string]interface{}) {
		for _, p := range refProps {
			switch x := d[p].(type) {
			case string:
				d[p] = one(x)
			case []interface{}:
				for i := range x {
					x[i] = one(x[i])
				}
			}
		}
		for _, o := range asList(d["object"]) {
			if om, ok := o.(map[string]interface{}); ok {
				walk(om)
			}
		}
	}
	walk(doc)
	return changed
}

// checkOutboxRun judges one accepted post: ids, normalisation, storage, outbox, ordering.
func checkOutboxRun(in c05input, out *RunOut, outboxBefore []string) []string {
	var bad []string
	a := out.App
	box := outbox(Alice)
	ob := a.Outboxes[box]
	var newID string
	if in.entry == "Send" {
		if out.Act == nil || out.Act.GetJSONLDId() == nil {
			return []string{"no-id|Send returned no identified activity"}
		}
		newID = out.Act.GetJSONLDId().Get().String()
	} else {
		newID = out.W.HeaderAtWH.Get("Location")
		if len(out.W.Statuses) != 1 || out.W.Statuses[0] != 201 {
			return []string{fmt.Sprintf("status|%v", out.W.Statuses)}
		}
	}
	if len(ob) != len(outboxBefore)+1 || ob[0] != newID || strings.Join(ob[1:], " ") != strings.Join(outboxBefore, " ") {
		bad = append(bad, fmt.Sprintf("outbox|outbox is %v, expected the new id %s in front of %v", shortIDs(ob), shortID(newID), shortIDs(outboxBefore)))
	}
	for _, old := range outboxBefore {
		if old == newID {
			bad = append(bad, "id-not-fresh|the new id equals an older outbox entry")
		}
	}
	raw, ok := a.Store[newID]
	if !ok {
		bad = append(bad, "activity-not-stored|"+shortID(newID))
		return bad
	}
	var st map[string]interface{}
	json.Unmarshal(raw, &st)
	body := deepCopy(in.body).(map[string]interface{})
	// ordering: every persistence step of this request precedes the hand-over to the transport
	firstDeliver := -1
	for i, cl := range a.Log {
		if cl.Op == "T.BatchDeliver" && firstDeliver < 0 {
			firstDeliver = i
		}
		if firstDeliver >= 0 && (cl.Op == "DB.Create" || cl.Op == "DB.SetOutbox" || cl.Op == "DB.Update") {
			bad = append(bad, fmt.Sprintf("persisted-after-delivery|%s(%s) at call %d follows BatchDeliver at call %d", cl.Op, shortID(cl.Arg), i, firstDeliver))
		}
	}
	isCreate := in.bare || body["type"] == "Create"
	if !isCreate {
		return bad
	}
	// the Create (given or wrapped)
	if st["type"] != "Create" {
		bad = append(bad, fmt.Sprintf("not-wrapped|stored activity has type %v", st["type"]))
		return bad
	}
	var inAct map[string]interface{}
	var inObjs []interface{}
	if in.bare {
		inAct = map[string]interface{}{"actor": Alice}
		for _, p := range c05props {
			if v, ok := body[p]; ok {
				inAct[p] = v
			}
		}
		if v, ok := body["published"]; ok {
			inAct["published"] = v
		}
		inObjs = []interface{}{body}
		if !idSet(st["actor"])[Alice] {
			bad = append(bad, fmt.Sprintf("wrap-actor|wrapping Create has actor %v, the outbox owner is alice", keys(idSet(st["actor"]))))
		}
		if fmt.Sprint(st["published"]) != fmt.Sprint(body["published"]) && body["published"] != nil {
			bad = append(bad, fmt.Sprintf("wrap-published|wrapping Create has published %v, the object %v", st["published"], body["published"]))
		}
	} else {
		inAct = body
		inObjs = asList(body["object"])
	}
	stObjs := asList(st["object"])
	if len(stObjs) != len(inObjs) {
		bad = append(bad, fmt.Sprintf("objects|stored Create has %d objects, input %d", len(stObjs), len(inObjs)))
		return bad
	}
	seenIDs := map[string]bool{newID: true}
	social := in.kind != ap.FederatingOnly
	for i, so := range stObjs {
		som, ok := so.(map[string]interface{})
		if !ok {
			bad = append(bad, "object-not-embedded|")
			continue
		}
		oid := idOf(som)
		if oid == "" || seenIDs[oid] || !strings.HasPrefix(oid, "https://l.example/id/") {
			bad = append(bad, fmt.Sprintf("object-id|object %d has id %q (must be fresh and distinct)", i, oid))
		}
		seenIDs[oid] = true
		io := inObjs[i].(map[string]interface{})
		if !social {
			continue
		}
		// each object stored, with what the Create ends with
		sraw, ok := a.Store[oid]
		if !ok {
			bad = append(bad, fmt.Sprintf("object-not-stored|object %d (%s)", i, shortID(oid)))
			continue
		}
		var sobj map[string]interface{}
		json.Unmarshal(sraw, &sobj)
		for _, view := range []map[string]interface{}{som, sobj} {
			if !subsetOf(idSet(inAct["actor"]), idSet(view["attributedTo"])) || !subsetOf(idSet(io["attributedTo"]), idSet(view["attributedTo"])) {
				bad = append(bad, fmt.Sprintf("attributedTo|object %d is attributed to %v; input attribution %v, Create actors %v", i, keys(idSet(view["attributedTo"])), keys(idSet(io["attributedTo"])), keys(idSet(inAct["actor"]))))
			}
			for _, p := range c05props {
				want := union(idSet(io[p]), idSet(inAct[p]))
				if !sameSet(idSet(view[p]), want) {
					bad = append(bad, fmt.Sprintf("object-%s|object %d has %s %v, expected its own %v plus the activity's %v", p, i, p, keys(idSet(view[p])), keys(idSet(io[p])), keys(idSet(inAct[p]))))
				}
			}
		}
	}
	if social {
		wantActors := idSet(inAct["actor"])
		for _, o := range inObjs {
			wantActors = union(wantActors, idSet(o.(map[string]interface{})["attributedTo"]))
		}
		if !sameSet(idSet(st["actor"]), wantActors) {
			bad = append(bad, fmt.Sprintf("actor|stored Create has actors %v, expected %v", keys(idSet(st["actor"])), keys(wantActors)))
		}
		for _, p := range c05props {
			want := idSet(inAct[p])
			for _, o := range inObjs {
				want = union(want, idSet(o.(map[string]interface{})[p]))
			}
			if !sameSet(idSet(st[p]), want) {
				bad = append(bad, fmt.Sprintf("activity-%s|stored Create has %s %v, expected the union %v", p, p, keys(idSet(st[p])), keys(want)))
			}
		}
	}
	return bad
}

// C05 — outbox posts are identified, normalised, stored, then delivered.
func C05(tier string) int {
	res := NewResult("C05", tier, "model_checking")
	ins := c05inputs(res.Thorough())
	var mu sync.Mutex
	report := func(evals int, classes map[string]struct{}, outc map[string]int, vs []Violation) {
		mu.Lock()
		defer mu.Unlock()
		res.Evaluations += evals
		for k := range classes {
			res.Nontrivial[k] = struct{}{}
		}
		for k, v := range outc {
			res.Outcomes[k] += v
		}
		for _, v := range vs {
			res.Violate(v.Key, v.What, v.Replay)
		}
	}
	world := func(a *ap.App) {
		for _, id := range []string{rx, ry, rz} {
			a.PutRemote(id, person(id))
		}
	}
	// ---- part 1: inputs ----
	chunk := 500
	parallel((len(ins)+chunk-1)/chunk, func(ci int) {
		lo, hi := ci*chunk, (ci+1)*chunk
		if hi > len(ins) {
			hi = len(ins)
		}
		var vs []Violation
		classes := map[string]struct{}{}
		outc := map[string]int{}
		for _, in := range ins[lo:hi] {
			tw := world
			if in.nObj >= 5 {
				// many objects: the library may spread the work over goroutines; the application model then
				// runs in its synchronised form (every seam call under a mutex), as it does for the race passes
				tw = func(a *ap.App) { world(a); a.Sync = true }
			}
			sc := &Scenario{Name: in.name, Kind: in.kind, Entry: in.entry, URL: outbox(Alice), Body: in.body, Tweak: tw}
			a := sc.World()
			if (lo+len(classes)+len(outc))%6 == 0 || strings.Contains(in.name, "spelling=") {
				// the same Actor has just REFUSED a Create that carried recipients of its own (its object is a
				// Link): nothing of that request may show in this one
				refused := &Scenario{Name: "refused-create", Kind: in.kind, Entry: "PostOutbox", URL: outbox(Alice),
					Body: Doc("Create", "", "actor", Alice, "bcc", L{"https://r9.example/u/leak-bcc"}, "audience", "https://r9.example/u/leak-audience", "to", "https://r9.example/u/leak-to",
						"object", M{"type": "Mention", "href": "https://r9.example/x", "bto": "https://r9.example/u/leak-bto"})}
				refused.On(a, nil)
			}
			before := append([]string(nil), a.Outboxes[outbox(Alice)]...)
			out := sc.On(a, nil)
			if out.Panic != nil {
				outc["panic(C11)"]++
				continue
			}
			if out.Err != nil {
				outc["rejected"]++
				continue
			}
			outc["accepted"]++
			classes[in.name] = struct{}{}
			for _, b := range checkOutboxRun(in, out, before) {
				parts := strings.SplitN(b, "|", 2)
				vs = append(vs, Violation{Key: "input|" + parts[0], What: in.name + ": " + parts[1], Replay: M{"check": "C05", "part": "input", "case": in.name, "body": in.body}})
			}
		}
		report(hi-lo, classes, outc, vs)
	})
	res.Traces += len(ins)

	// ---- part 2: histories (explicit-state search over cloned application states) ----
	posts := []c05input{
		{name: "note->A", entry: "PostOutbox", kind: ap.Both, body: Doc("Note", "", "content", "n", "to", Carol), bare: true},
		{name: "create2->A", entry: "PostOutbox", kind: ap.Both, body: Doc("Create", "", "actor", Alice, "to", Dave, "object", L{Emb("Note", "", "content", "a"), Emb("Note", "", "content", "b")})},
		{name: "like->A", entry: "PostOutbox", kind: ap.Both, body: Doc("Like", "", "actor", Alice, "object", RNote, "to", Carol)},
		{name: "block->A", entry: "PostOutbox", kind: ap.Both, body: Doc("Block", "", "actor", Alice, "object", Carol)},
		{name: "note->B", entry: "PostOutbox", kind: ap.Both, body: Doc("Note", "", "content", "bob's", "to", Carol)},
		{name: "send-follow->A", entry: "Send", kind: ap.Both, body: Doc("Follow", "", "actor", Alice, "object", Carol, "to", Carol)},
		{name: "rejected->A", entry: "PostOutbox", kind: ap.Both, body: Doc("Like", "", "actor", Alice, "to", Carol)}, // no object: 400, must leave no trace
	}
	depth := 5
	if res.Thorough() {
		depth = 7
	}
	type hnode struct {
		app      *ap.App
		expected map[string][]string // outbox -> ids newest first
		hist     []string
	}
	root := &hnode{app: BaseWorld(), expected: map[string][]string{}}
	world(root.app)
	root.expected[outbox(Alice)] = append([]string(nil), root.app.Outboxes[outbox(Alice)]...)
	root.expected[outbox(Bob)] = nil
	states := map[uint64]struct{}{}
	transitions := 0
	var hv []Violation
	var hsample interface{}
	var rec func(n *hnode, d int)
	var smu sync.Mutex
	step := func(n *hnode, pi int) *hnode {
		p := posts[pi]
		app := n.app.Clone()
		app.ReqBase = n.app.ReqBase + 1
		box := outbox(Alice)
		if strings.HasSuffix(p.name, "->B") {
			box = outbox(Bob)
		}
		sc := &Scenario{Name: p.name, Kind: p.kind, Entry: p.entry, URL: box, Body: p.body}
		out := sc.On(app, nil)
		nn := &hnode{app: app, expected: map[string][]string{}, hist: append(append([]string(nil), n.hist...), p.name)}
		for k, v := range n.expected {
			nn.expected[k] = v
		}
		if out.Panic == nil && out.Err == nil {
			id := ""
			if p.entry == "Send" && out.Act != nil {
				id = out.Act.GetJSONLDId().Get().String()
			} else if len(out.W.Statuses) == 1 && out.W.Statuses[0] == 201 {
				id = out.W.HeaderAtWH.Get("Location")
			}
			if id != "" {
				nn.expected[box] = append([]string{id}, nn.expected[box]...)
			}
		}
		return nn
	}
	check := func(n *hnode) {
		for box, want := range n.expected {
			got := n.app.Outboxes[box]
			if strings.Join(got, " ") != strings.Join(want, " ") {
				smu.Lock()
				hv = append(hv, Violation{Key: "history|outbox-differs-from-returned-ids", What: fmt.Sprintf("after %v the outbox %s lists %v, the returned ids (newest first) are %v", n.hist, shortID(box), shortIDs(got), shortIDs(want)),
					Replay: M{"check": "C05", "part": "history", "posts": n.hist}})
				smu.Unlock()
			}
			seen := map[string]bool{}
			for _, id := range got {
				if seen[id] {
					smu.Lock()
					hv = append(hv, Violation{Key: "history|id-twice-in-outbox", What: fmt.Sprintf("after %v id %s is listed twice", n.hist, shortID(id)), Replay: M{"check": "C05", "part": "history", "posts": n.hist}})
					smu.Unlock()
				}
				seen[id] = true
				if _, ok := n.app.Store[id]; !ok && !strings.HasSuffix(id, "/old") {
					smu.Lock()
					hv = append(hv, Violation{Key: "history|listed-id-not-stored", What: fmt.Sprintf("after %v id %s is listed but not stored", n.hist, shortID(id)), Replay: M{"check": "C05", "part": "history", "posts": n.hist}})
					smu.Unlock()
				}
			}
		}
	}
	rec = func(n *hnode, d int) {
		smu.Lock()
		states[n.app.StateHash()] = struct{}{}
		if hsample == nil && d == depth {
			hsample = M{"part": "history", "posts": n.hist, "outbox_A": shortIDs(n.app.Outboxes[outbox(Alice)])}
		}
		smu.Unlock()
		check(n)
		if d == depth {
			return
		}
		for pi := range posts {
			smu.Lock()
			transitions++
			smu.Unlock()
			rec(step(n, pi), d+1)
		}
	}
	// shard on the first two posts
	var l2 []*hnode
	check(root)
	for pi := range posts {
		n1 := step(root, pi)
		check(n1)
		for pj := range posts {
			l2 = append(l2, step(n1, pj))
		}
	}
	transitions += len(posts) + len(posts)*len(posts)
	parallel(len(l2), func(i int) { rec(l2[i], 2) })
	res.States = len(states)
	res.Transitions = transitions
	res.Traces += transitions
	res.Evaluations += transitions
	for _, v := range hv {
		res.Violate(v.Key, v.What, v.Replay)
	}
	res.Sample(hsample)

	// ---- part 3: fault sequences ----
	bound := 1
	if res.Thorough() {
		bound = 2
	}
	var faultIns []c05input
	multi := map[int]int{}
	for i, in := range ins {
		if in.nObj >= 5 {
			continue // the many-object Creates run fault-free in the synchronised model (part 1)
		}
		if i%97 == 0 || !(in.bare || in.nObj > 0) {
			faultIns = append(faultIns, in)
		} else if in.nObj >= 2 && in.nObj < 5 && multi[in.nObj] < 3 {
			multi[in.nObj]++ // always some Creates with several objects (a fault on a non-last object)
			faultIns = append(faultIns, in)
		}
	}
	// a Create with three objects even in the quick tier
	faultIns = append(faultIns, c05input{name: "create-3 fixed", entry: "PostOutbox", kind: ap.Both, nObj: 3,
		body: Doc("Create", "", "actor", Alice, "to", Carol, "object", L{Emb("Note", "", "content", "a"), Emb("Note", "", "content", "b", "bcc", Dave), Emb("Article", "", "content", "c")})})
	// every post with and without application callbacks wrapped around the default effect
	nPlain := len(faultIns)
	for _, in := range faultIns[:nPlain] {
		in.name += " (application callbacks wrapped)"
		faultIns = append(faultIns, in)
	}
	parallel(len(faultIns), func(i int) {
		in := faultIns[i]
		tw := world
		if i >= nPlain {
			tw = func(a *ap.App) { world(a); a.Callbacks = ap.CBWrapped }
		}
		sc := &Scenario{Name: in.name, Kind: in.kind, Entry: in.entry, URL: outbox(Alice), Body: in.body, Tweak: tw}
		var vs []Violation
		classes := map[string]struct{}{}
		outc := map[string]int{}
		n := 0
		e := &mc.Explorer{}
		e.Budget = [3]int{0, bound, 0}
		if i%nPlain < 12 || in.nObj >= 3 {
			e.Budget = [3]int{0, 2, 0} // a dozen posts and the multi-object Creates: every PAIR of faults in the quick tier too
		}
		e.Run = func(x *mc.Exec) bool {
			a := sc.World()
			a.X, a.Faults = x, true
			before := append([]string(nil), a.Outboxes[outbox(Alice)]...)
			out := sc.On(a, nil)
			n++
			if out.Panic != nil {
				return true
			}
			f := faultOps(x)
			classes[fmt.Sprintf("%s|%v", in.name, x.Choices())] = struct{}{}
			rep := M{"check": "C05", "part": "fault", "case": in.name, "body": in.body, "choices": x.Choices(), "faults": f}
			failedPersist := -1
			for j, cl := range a.Log {
				if cl.Err && strings.HasPrefix(cl.Op, "DB.") && cl.Op != "DB.Unlock" && cl.Op != "DB.InboxForActor" && failedPersist < 0 {
					// a failed step of identifying / storing the post (delivery-side lookups excluded)
					if cl.Op == "DB.NewID" || cl.Op == "DB.Create" || cl.Op == "DB.Update" || cl.Op == "DB.SetOutbox" || cl.Op == "DB.GetOutbox" || (cl.Op == "DB.Lock" && !deliveryPhase(a.Log, j)) || cl.Op == "DB.Get" && !deliveryPhase(a.Log, j) {
						failedPersist = j
					}
				}
				if failedPersist >= 0 && (cl.Op == "T.BatchDeliver" || cl.Op == "T.Deliver") {
					vs = append(vs, Violation{Key: fmt.Sprintf("fault|delivered-after-failed-%s", a.Log[failedPersist].Op), What: fmt.Sprintf("%s faults %v: %s failed at call %d, yet the activity was handed to the transport at call %d", in.name, f, a.Log[failedPersist].Op, failedPersist, j), Replay: rep})
				}
			}
			if out.Err == nil && failedPersist >= 0 {
				vs = append(vs, Violation{Key: fmt.Sprintf("fault|success-reported-after-failed-%s", a.Log[failedPersist].Op), What: fmt.Sprintf("%s faults %v: %s failed, yet the post is reported accepted", in.name, f, a.Log[failedPersist].Op), Replay: rep})
			}
			if out.Err == nil && failedPersist < 0 {
				outc["accepted-under-fault"]++
				for _, b := range checkOutboxRun(in, out, before) {
					parts := strings.SplitN(b, "|", 2)
					vs = append(vs, Violation{Key: "fault|" + parts[0], What: fmt.Sprintf("%s faults %v: %s", in.name, f, parts[1]), Replay: rep})
				}
			} else {
				outc["failed-under-fault"]++
			}
			return true
		}
		e.Explore()
		report(n, classes, outc, vs)
		mu.Lock()
		res.Traces += n
		mu.Unlock()
	})
	// ---- part 4: the scheme the outbox is served under vs the scheme of the minted ids ----
	// (independent: plain http behind a proxy minting https ids, and the reverse); the Location must be
	// the id that was stored and put into the outbox, whatever the endpoint's scheme
	nMix := 0
	for _, body := range []M{Doc("Note", "", "content", "c", "to", Carol), Doc("Create", "", "actor", Alice, "to", Carol, "object", Emb("Note", "", "content", "c")),
		Doc("Like", "", "actor", Alice, "object", RNote, "to", Carol), Doc("Follow", "", "actor", Alice, "object", Carol, "to", Carol)} {
		for _, kind := range []ap.ActorKind{ap.Both, ap.SocialOnly} {
			for _, mix := range []struct{ endpoint, ids string }{{"http", "https"}, {"https", "http"}, {"http", "http"}} {
				mix := mix
				sc := &Scenario{Name: fmt.Sprintf("c05/%v endpoint-scheme=%s minted-ids=%s %s", body["type"], mix.endpoint, mix.ids, kind), Kind: kind, Entry: "PostOutbox",
					URL: outbox(Alice), Body: body, Scheme: mix.endpoint, Tweak: func(a *ap.App) { a.IDScheme = mix.ids }}
				out := sc.Exec(mc.NewExec(nil), false)
				nMix++
				res.Case(sc.Name)
				if out.Panic != nil || out.Err != nil || len(out.W.Statuses) != 1 || out.W.Statuses[0] != 201 {
					res.Violate("scheme|post-not-accepted", fmt.Sprintf("%s: err=%v statuses=%v", sc.Name, out.Err, out.W.Statuses), M{"check": "C05", "part": "scheme", "scenario": sc.Name})
					continue
				}
				if msg := locationOK(out, out.App.RewriteLocal(outbox(Alice))); msg != "" {
					res.Violate("scheme|location-is-not-the-stored-id", sc.Name+": "+msg, M{"check": "C05", "part": "scheme", "scenario": sc.Name})
				}
			}
		}
	}
	// one Actor serving the same outbox PATH under two schemes (https first, then plain http through the
	// ...Scheme entry point, or the reverse): the wrapping Create names the owner of THE outbox posted to
	for _, order := range [][2]string{{"https", "http"}, {"http", "https"}} {
		a := BaseWorld()
		httpAlice := strings.Replace(Alice, "https://", "http://", 1)
		a.PutDoc(person(httpAlice))
		a.Outboxes[httpAlice+"/outbox"] = nil
		var owners []string
		for _, scheme := range order {
			a.LocalScheme = scheme
			alice := Alice
			if scheme == "http" {
				alice = httpAlice
			}
			sc := &Scenario{Name: "c05/one-actor-two-schemes/" + scheme, Kind: ap.Both, Entry: "PostOutbox", URL: outbox(Alice), Body: Doc("Note", "", "content", "n", "to", Carol)}
			out := sc.On(a, nil)
			nMix++
			if out.Panic != nil || out.Err != nil || len(a.Outboxes[alice+"/outbox"]) == 0 {
				owners = nil
				break
			}
			var st map[string]interface{}
			json.Unmarshal(a.Store[a.Outboxes[alice+"/outbox"][0]], &st)
			owners = append(owners, strings.Join(keysRaw(idSet(st["actor"])), ","))
			if !idSet(st["actor"])[alice] || len(idSet(st["actor"])) != 1 {
				res.Violate("scheme|wrapping-create-names-another-outbox-owner", fmt.Sprintf("one Actor, outboxes %v in turn: the bare Note posted to the %s outbox is wrapped in a Create by %v, the outbox belongs to %s", order, scheme, keysRaw(idSet(st["actor"])), alice),
					M{"check": "C05", "part": "scheme", "order": order})
			}
		}
		res.Case(fmt.Sprintf("one-actor-two-schemes|%v|%v", order, owners))
	}
	// ---- part 5: outbox endpoints whose IRI is more than a path: routed by a query parameter, carrying a
	// percent-escape, an explicit port or an upper-case host. The library must work on THE outbox posted to ----
	for _, ep := range []struct{ name, url string }{{"query-routed", "https://l.example/box?u=alice&k=outbox"}, {"escaped-slash", "https://l.example/u/al%2Fice/outbox"},
		{"escaped-tilde", "https://l.example/%7Ealice/outbox"}, {"query-after-path", outbox(Alice) + "?format=as2"}, {"explicit-port", "https://l.example:8443/u/alice/outbox"}} {
		for _, body := range []M{Doc("Note", "", "content", "c", "to", Carol), Doc("Create", "", "actor", Alice, "to", Carol, "object", Emb("Note", "", "content", "c")),
			Doc("Like", "", "actor", Alice, "object", RNote, "to", Carol)} {
			for _, kind := range []ap.ActorKind{ap.Both, ap.SocialOnly} {
				ep := ep
				sc := &Scenario{Name: fmt.Sprintf("c05/%v outbox-endpoint=%s %s", body["type"], ep.name, kind), Kind: kind, Entry: "PostOutbox", URL: ep.url, Body: body,
					Tweak: func(a *ap.App) {
						a.Endpoints = map[string][2]string{ep.url: {Alice, "outbox"}}
						a.Outboxes[ep.url] = []string{"https://l.example/a/older"}
					}}
				out := sc.Exec(mc.NewExec(nil), false)
				nMix++
				res.Case(sc.Name)
				rep := M{"check": "C05", "part": "endpoint", "scenario": sc.Name, "endpoint": ep.url, "body": body}
				if out.Panic != nil {
					continue
				}
				if out.Err != nil || len(out.W.Statuses) != 1 || out.W.Statuses[0] != 201 {
					res.Violate("endpoint|post-not-accepted|"+ep.name, fmt.Sprintf("%s: err=%v statuses=%v", sc.Name, out.Err, out.W.Statuses), rep)
					continue
				}
				a := out.App
				ob := a.Outboxes[ep.url]
				loc := out.W.H.Get("Location")
				if len(ob) != 2 || ob[0] != loc || ob[1] != "https://l.example/a/older" {
					res.Violate("endpoint|outbox-posted-to-not-updated|"+ep.name, fmt.Sprintf("%s: the outbox %s lists %v, Location %s; other outboxes: %v", sc.Name, ep.url, shortIDs(ob), loc, a.Outboxes), rep)
					continue
				}
				var st map[string]interface{}
				json.Unmarshal(a.Store[ob[0]], &st)
				if !idSet(st["actor"])[Alice] || len(idSet(st["actor"])) != 1 {
					res.Violate("endpoint|activity-actor-is-not-the-outbox-owner|"+ep.name, fmt.Sprintf("%s: stored activity has actor %v, the outbox belongs to %s", sc.Name, keysRaw(idSet(st["actor"])), Alice), rep)
				}
			}
		}
	}
	res.Evaluations += nMix
	res.Extra["inputs"] = len(ins)
	res.Extra["history_depth_completed"] = depth
	res.Extra["history_alphabet"] = len(posts)
	res.Extra["fault_bound_completed"] = bound
	res.Extra["fault_scenarios"] = len(faultIns)
	res.Rule = fmt.Sprintf("(1) inputs: Create with one object and every assignment of {absent,{x},{y,z}} to the five addressing properties of activity and object (3^10, quick: a quarter plus all bto/bcc cross pairs) with 4 attribution variants, bare Note/Article over 3^5 assignments x published x 4 entry/actor combinations, bare Notes whose published is a boundary instant (zero time, epoch, end of year 9999, offsets +14:00 / -12:00, a leap day), Creates with 2 (thorough 3) objects over to/bto/bcc, Creates with 2 and 3 objects under every attribution pattern, Creates with 5, 6, 7, 9 and 13 objects, 9 other activity types: %d posts, judged with set semantics on the stored activity and stored objects (a sixth of them, and every re-spelled one, on an Actor that has just refused a Create carrying recipients of its own); (2) histories: explicit-state search, every sequence of up to %d posts over a %d-post alphabet (two outboxes, Send, a rejected post), each transition is a real request on a cloned application state, invariant in every state: each outbox lists exactly the returned ids, newest first, once, all stored; (3) fault sequences: %d posts (each with and without application callbacks wrapped around the default effect) x every choice of <= %d (a dozen posts and the multi-object Creates always: <= 2) failing seam calls: nothing is handed to the transport after a failed persistence step and success is not reported; (4) 4 posts x 2 actor kinds with the endpoint scheme and the scheme of the minted ids chosen independently: the Location is the stored id at the front of the outbox; (5) 3 posts x 2 actor kinds to outbox endpoints whose IRI carries a routing query, a percent-escape, a query after the path or an explicit port: accepted, the id is at the front of THAT outbox, the activity's actor is its owner; states = distinct application states of (2), transitions = requests applied", len(ins), depth, len(posts), len(faultIns), bound)
	res.Assumptions = []string{"order and duplicates inside addressing lists are not asserted (set semantics)", "objects are not required to gain each other's recipients", "application state is cloned between history steps (the model is ours, so it can be)"}
	return res.Finish()
}

// deliveryPhase reports whether call j lies after the outbox entry was written (SetOutbox) —
// i.e. in the recipient-resolution phase, whose lookups are not persistence steps.
func deliveryPhase(log []ap.Call, j int) bool {
	for i := 0; i < j; i++ {
		if log[i].Op == "DB.SetOutbox" && !log[i].Err {
			return true
		}
	}
	return false
}
