package checks

import (
	"fmt"
	"os"
	"strings"
	"sync"
	"time"

	ap "verif/apmodel"
)

type c16case struct {
	family    string
	name      string
	kind      ap.ActorKind
	body      M
	tweak     func(a *ap.App)
	model     func(r *Ref) // expected effect on the stored state (activity bookkeeping aside)
	want      string       // expected status: "201" or "400"
	liked     []string     // Like: ids expected at the front of liked (as a set)
	noDeliver bool
}

func c16cases(thorough bool) []c16case {
	var cs []c16case
	kinds := []ap.ActorKind{ap.Both, ap.SocialOnly}
	// ---- Update ----
	members := []string{"name", "content", "summary", "zzUnknown"}
	oldVal := func(m string) interface{} { return "old " + m }
	newVal := func(m string) interface{} {
		if m == "zzUnknown" {
			return M{"nested": "new"}
		}
		return "new " + m
	}
	target := "https://l.example/n/upd"
	target2 := "https://l.example/n/upd2"
	type updSpec struct {
		storedMask int
		assigns    []int // one base-3 assignment per object: digit 0 absent, 1 new value, 2 null
	}
	var specs []updSpec
	for storedMask := 0; storedMask < 16; storedMask++ {
		for assign := 0; assign < 81; assign++ {
			if !thorough && storedMask%3 != 0 && assign%5 != 0 {
				continue // quick: a third of the stored subsets in full, the others against every 5th update
			}
			specs = append(specs, updSpec{storedMask, []int{assign}})
		}
	}
	// two objects with independent assignments (what one object nulls or sets must not reach the other)
	for storedMask := 0; storedMask < 16; storedMask++ {
		if !thorough && storedMask != 15 && storedMask != 6 {
			continue
		}
		for a1 := 0; a1 < 81; a1++ {
			for a2 := 0; a2 < 81; a2++ {
				if !thorough && storedMask == 6 && (a1*81+a2)%7 != 0 {
					continue
				}
				specs = append(specs, updSpec{storedMask, []int{a1, a2}})
			}
		}
	}
	// three objects: the middle one nulls / sets, its neighbours do the opposite
	for _, tr := range [][]int{{80, 0, 40}, {0, 80, 0}, {40, 80, 40}, {80, 40, 0}, {2, 1, 0}, {0, 2, 1}, {26, 13, 0}} {
		specs = append(specs, updSpec{15, tr}, updSpec{0, tr})
	}
	targets3 := []string{target, target2, "https://l.example/n/upd3"}
	for si, sp := range specs {
		for _, kind := range kinds {
			if kind == ap.SocialOnly && si%7 != 0 {
				continue
			}
			sp := sp
			storedMask := sp.storedMask
			mkStored := func(id string) M {
				d := Doc("Note", id, "attributedTo", Alice, "published", "2019-01-02T03:04:05Z")
				for i, m := range members {
					if storedMask&(1<<uint(i)) != 0 {
						d[m] = oldVal(m)
					}
				}
				return d
			}
			upd := func(id string, assign int) M {
				o := Emb("Note", id)
				a := assign
				for _, m := range members {
					switch a % 3 {
					case 1:
						o[m] = newVal(m)
					case 2:
						o[m] = nil
					}
					a /= 3
				}
				return o
			}
			ids := targets3[:len(sp.assigns)]
			var obj interface{} = upd(target, sp.assigns[0])
			if len(ids) > 1 {
				l := L{}
				for i, id := range ids {
					l = append(l, upd(id, sp.assigns[i]))
				}
				obj = l
			}
			var as []string
			for _, a := range sp.assigns {
				as = append(as, fmt.Sprintf("%04d", base3(a)))
			}
			c := c16case{family: "update", kind: kind, want: "201",
				name: fmt.Sprintf("Update stored=%04b assign=%s objects=%d %s", storedMask, strings.Join(as, "/"), len(ids), kind),
				body: Doc("Update", "", "actor", Alice, "object", obj, "to", Carol)}
			c.tweak = func(a *ap.App) {
				for _, id := range ids {
					a.PutDoc(mkStored(id))
				}
			}
			c.model = func(r *Ref) {
				for i, id := range ids {
					doc := r.Store[id]
					a := sp.assigns[i]
					for _, m := range members {
						switch a % 3 {
						case 1:
							doc[m] = deepCopy(newVal(m))
						case 2:
							delete(doc, m)
						}
						a /= 3
					}
				}
			}
			cs = append(cs, c)
		}
	}
	// ---- Delete ----
	for _, nObj := range []int{1, 2, 3} {
		if nObj == 3 && !thorough {
			continue
		}
		for variant := 0; variant < 4; variant++ {
			for _, form := range []string{"iri", "embedded"} {
				for _, kind := range kinds {
					nObj, variant, form := nObj, variant, form
					ids := []string{"https://l.example/n/d1", "https://l.example/n/d2", "https://l.example/n/d3"}[:nObj]
					types := []string{"Note", "Article", "Image"}
					mk := func(i int) M {
						d := Doc(types[i], ids[i], "attributedTo", Alice, "content", "to be deleted")
						if variant&1 != 0 {
							d["published"] = "2018-05-06T07:08:09Z"
						}
						if variant&2 != 0 {
							d["updated"] = "2018-06-07T08:09:10Z"
						}
						return d
					}
					objs := L{}
					for i := range ids {
						if form == "iri" {
							objs = append(objs, ids[i])
						} else {
							objs = append(objs, Emb(types[i], ids[i]))
						}
					}
					now := time.Date(2021, 3, 4, 5, 6, 7, 0, time.UTC)
					c := c16case{family: "delete", kind: kind, want: "201", name: fmt.Sprintf("Delete objects=%d variant=%d %s %s", nObj, variant, form, kind),
						body: Doc("Delete", "", "actor", Alice, "object", val1(objs), "to", Carol)}
					c.tweak = func(a *ap.App) {
						a.Now = now
						for i := range ids {
							a.PutDoc(mk(i))
						}
					}
					c.model = func(r *Ref) {
						for i, id := range ids {
							t := map[string]interface{}{"type": "Tombstone", "id": id, "formerType": types[i], "deleted": "2021-03-04T05:06:07Z"}
							if variant&1 != 0 {
								t["published"] = "2018-05-06T07:08:09Z"
							}
							if variant&2 != 0 {
								t["updated"] = "2018-06-07T08:09:10Z"
							}
							r.Store[id] = t
						}
					}
					cs = append(cs, c)
				}
			}
		}
	}
	// ---- Delete: shapes of the original published / updated times (zone offsets, boundary instants, and
	// legal xsd:dateTime spellings that Go's parser refuses and the library keeps verbatim) ----
	for ti, ts := range []string{"2018-05-06T07:08:09+05:30", "2018-05-06T07:08:09-08:00", "0001-01-01T00:00:00Z", "9999-12-31T23:59:59Z", "2016-02-29T23:59:59Z",
		"2016-12-31T23:59:60Z", "2016-12-31T23:59:59", "1970-01-01T00:00:00Z", "2019-12-31T23:59:59.999Z", "2019-06-30T12:00:00.5+02:00"} {
		for _, member := range []string{"published", "updated", "both"} {
			ts, member := ts, member
			id := "https://l.example/n/dts"
			stored := Doc("Note", id, "attributedTo", Alice, "content", "to be deleted")
			tomb := map[string]interface{}{"type": "Tombstone", "id": id, "formerType": "Note", "deleted": "2021-03-04T05:06:07Z"}
			for _, m := range []string{"published", "updated"} {
				if member == m || member == "both" {
					stored[m], tomb[m] = ts, ts
					if i := strings.Index(ts, "."); i > 0 {
						// the encoder writes whole seconds: a fraction is dropped (never rounded up)
						j := i + 1
						for j < len(ts) && ts[j] >= '0' && ts[j] <= '9' {
							j++
						}
						tomb[m] = ts[:i] + ts[j:]
					}
				}
			}
			c := c16case{family: "delete", kind: ap.Both, want: "201", name: fmt.Sprintf("Delete timestamp-shape=%d %s", ti, member),
				body: Doc("Delete", "", "actor", Alice, "object", id, "to", Carol)}
			c.tweak = func(a *ap.App) {
				a.Now = time.Date(2021, 3, 4, 5, 6, 7, 0, time.UTC)
				a.PutDoc(stored)
			}
			c.model = func(r *Ref) { r.Store[id] = tomb }
			cs = append(cs, c)
		}
	}
	// ---- Add / Remove ----
	x, y, z := "https://r1.example/n/x", "https://r1.example/n/y", "https://r1.example/n/z"
	tOwnedC, tOwnedO, tForeign := "https://l.example/c/t1", "https://l.example/oc/t2", "https://r1.example/c/t3"
	// ownership is a per-IRI question: a collection on this server's host that it does not own, and one
	// on a foreign host that it does own
	tLocalForeign, tRemoteOwned := "https://l.example/c/t4-other-tenant", "https://r1.example/oc/t5-ours"
	notOwned := map[string]bool{tForeign: true, tLocalForeign: true}
	contents := map[string][]interface{}{tOwnedC: {x, "https://r9.example/keep", x, y}, tOwnedO: {y, x, "https://r9.example/keep2", x}, tForeign: {x, y},
		tLocalForeign: {x, y, x}, tRemoteOwned: {y, x}}
	targetAlpha := []string{tOwnedC, tOwnedO, tForeign, tLocalForeign, tRemoteOwned}
	objAlpha := []interface{}{x, y, Emb("Note", z, "content", "embedded z")}
	maxN := 2
	if thorough {
		maxN = 3
	}
	var tSeqs [][]string
	var genT func(cur []string)
	genT = func(cur []string) {
		if len(cur) > 0 {
			tSeqs = append(tSeqs, append([]string(nil), cur...))
		}
		if len(cur) == maxN {
			return
		}
		for _, t := range targetAlpha {
			dupe := false
			for _, c := range cur {
				if c == t {
					dupe = true // naming one owned collection twice is C09's known finding (re-entrant lock), not C16's
				}
			}
			if !dupe {
				genT(append(cur, t))
			}
		}
	}
	genT(nil)
	var oSeqs [][]interface{}
	var genO func(cur []interface{})
	genO = func(cur []interface{}) {
		if len(cur) > 0 {
			oSeqs = append(oSeqs, append([]interface{}(nil), cur...))
		}
		if len(cur) == maxN {
			return
		}
		for _, o := range objAlpha {
			genO(append(cur, o))
		}
	}
	genO(nil)
	// how the stored collections spell their entries: bare IRIs, or a mixture of IRIs, embedded objects
	// and an embedded Link named by href only
	contentsEmb := map[string][]interface{}{
		tOwnedC:  {Emb("Note", x, "content", "stored embedded x"), "https://r9.example/keep", x, Emb("Note", y)},
		tOwnedO:  {M{"type": "Link", "href": y}, Emb("Note", x), Emb("Note", "https://r9.example/keep2"), x},
		tForeign: {Emb("Note", x), y}, tLocalForeign: {Emb("Note", x), y, x}, tRemoteOwned: {Emb("Note", y), x}}
	for _, typ := range []string{"Add", "Remove", "Remove/stored-embedded", "Add/stored-embedded", "Add/pages", "Remove/pages"} {
		contents := contents
		if strings.HasSuffix(typ, "/stored-embedded") {
			typ = strings.TrimSuffix(typ, "/stored-embedded")
			contents = contentsEmb
		}
		// the owned targets stored as PAGES (CollectionPage / OrderedCollectionPage carry items too)
		page := ""
		if strings.HasSuffix(typ, "/pages") {
			typ = strings.TrimSuffix(typ, "/pages")
			page = "Page"
		}
		for _, ts := range tSeqs {
			for _, os := range oSeqs {
				for _, kind := range kinds {
					typ, ts, os := typ, ts, os
					if _, isStr := contents[tOwnedC][0].(string); typ == "Add" && !isStr && len(os) > 1 {
						continue
					}
					tl := L{}
					for _, t := range ts {
						tl = append(tl, t)
					}
					storedAs := ""
					if _, isStr := contents[tOwnedC][0].(string); !isStr {
						storedAs = " stored-entries=embedded"
					}
					if page != "" {
						storedAs += " stored-entries=targets-are-pages"
					}
					c := c16case{family: strings.ToLower(typ), kind: kind, want: "201", name: fmt.Sprintf("%s objects=%v targets=%v %s%s", typ, shortVals(os), shortIDs(ts), kind, storedAs),
						body: Doc(typ, "", "actor", Alice, "object", val1(os), "target", val1(tl), "to", Carol)}
					c.tweak = func(a *ap.App) {
						a.PutDoc(Doc("Collection"+page, tOwnedC, "items", L(contents[tOwnedC])))
						a.PutDoc(Doc("OrderedCollection"+page, tOwnedO, "orderedItems", L(contents[tOwnedO])))
						a.PutDoc(Doc("Collection", tForeign, "items", L(contents[tForeign]))) // cached foreign copy
						a.PutDoc(Doc("Collection", tLocalForeign, "items", L(contents[tLocalForeign])))
						a.PutDoc(Doc("OrderedCollection"+page, tRemoteOwned, "orderedItems", L(contents[tRemoteOwned])))
						a.NotOwned[tLocalForeign], a.OwnedExtra[tRemoteOwned] = true, true
					}
					c.model = func(r *Ref) {
						for _, t := range ts {
							if notOwned[t] {
								continue
							}
							doc := r.Store[t]
							member := collMember(doc)
							l := asList(doc[member])
							if typ == "Add" {
								for _, o := range os {
									l = append(l, idOf(deepCopy(o)))
								}
							} else {
								var keep []interface{}
								for _, e := range l {
									rm := false
									for _, o := range os {
										if idOf(e) == idOf(deepCopy(o)) {
											rm = true
										}
									}
									if !rm {
										keep = append(keep, e)
									}
								}
								l = keep
							}
							setOrDelete(doc, member, fromList(l))
						}
					}
					cs = append(cs, c)
				}
			}
		}
	}
	// ---- Add / Remove / Like / Update / Delete naming 5..9 and 12 objects (one owned target, and two) ----
	for _, n := range []int{5, 6, 7, 8, 9, 12} {
		n := n
		var os L
		var ids []string
		for i := 0; i < n; i++ {
			id := fmt.Sprintf("https://r1.example/n/m%d", i)
			ids = append(ids, id)
			if i%3 == 2 {
				os = append(os, Emb("Note", id, "content", "embedded"))
			} else {
				os = append(os, id)
			}
		}
		for _, typ := range []string{"Add", "Remove"} {
			for _, ts := range [][]string{{tOwnedC}, {tOwnedO, tOwnedC}} {
				typ, ts := typ, ts
				tl := L{}
				for _, t := range ts {
					tl = append(tl, t)
				}
				c := c16case{family: strings.ToLower(typ), kind: ap.Both, want: "201", name: fmt.Sprintf("%s %d objects targets=%v stored-entries=many", typ, n, shortIDs(ts)),
					body: Doc(typ, "", "actor", Alice, "object", os, "target", val1(tl), "to", Carol)}
				c.tweak = func(a *ap.App) {
					// the targets already hold every second of the objects, and something to keep
					var pre L
					for i := 0; i < n; i += 2 {
						pre = append(pre, ids[i])
					}
					pre = append(pre, "https://r9.example/keep")
					a.PutDoc(Doc("Collection", tOwnedC, "items", pre))
					a.PutDoc(Doc("OrderedCollection", tOwnedO, "orderedItems", pre))
				}
				c.model = func(r *Ref) {
					for _, t := range ts {
						doc := r.Store[t]
						member := collMember(doc)
						l := asList(doc[member])
						if typ == "Add" {
							for _, id := range ids {
								l = append(l, id)
							}
						} else {
							var keep []interface{}
							for _, e := range l {
								rm := false
								for _, id := range ids {
									if idOf(e) == id {
										rm = true
									}
								}
								if !rm {
									keep = append(keep, e)
								}
							}
							l = keep
						}
						setOrDelete(doc, member, fromList(l))
					}
				}
				cs = append(cs, c)
			}
		}
	}
	// ---- Like / Block ----
	for _, os := range oSeqs {
		for _, kind := range kinds {
			os := os
			var ids []string
			for _, o := range os {
				ids = append(ids, idOf(deepCopy(o)))
			}
			// the activity's 'actor' member may name the outbox owner, somebody else (another local actor
			// with a liked collection of its own, a remote actor), several actors, or be absent: the ids
			// go to the liked collection of the actor whose OUTBOX received the Like
			for ai, actor := range []interface{}{Alice, Bob, L{Bob, Alice}, Emb("Person", Carol), nil} {
				if ai > 0 && len(os) > 1 {
					continue
				}
				body := Doc("Like", "", "actor", actor, "object", val1(os), "to", Carol)
				an := ""
				if actor == nil {
					delete(body, "actor")
					an = " actor=absent"
				} else if ai > 0 {
					an = " actor=" + shortJSON(actor)
				}
				cs = append(cs, c16case{family: "like", kind: kind, want: "201", name: fmt.Sprintf("Like objects=%v %s%s", shortVals(os), kind, an),
					body: body, liked: ids,
					tweak: func(a *ap.App) {
						a.PutDoc(Doc("Collection", Alice+"/liked", "items", L{"https://r9.example/liked/old1", "https://r9.example/liked/old2"}))
						a.PutDoc(Doc("Collection", Bob+"/liked", "items", L{"https://r9.example/liked/bobs"}))
					},
					model: func(r *Ref) {}})
			}
			cs = append(cs, c16case{family: "block", kind: kind, want: "201", name: fmt.Sprintf("Block objects=%v %s", shortVals(os), kind),
				body: Doc("Block", "", "actor", Alice, "object", val1(os), "to", Carol, "bcc", Dave), noDeliver: true, model: func(r *Ref) {}})
		}
	}
	// ---- missing object / target ----
	for _, typ := range []string{"Update", "Delete", "Add", "Remove", "Like", "Block"} {
		for _, member := range []string{"object", "target"} {
			if member == "target" && typ != "Add" && typ != "Remove" {
				continue
			}
			for _, ab := range []string{"absent", "empty"} {
				for _, kind := range kinds {
					d := Doc(typ, "", "actor", Alice, "object", Emb("Note", Note1, "content", "x"), "target", Col1, "to", Carol)
					if typ != "Add" && typ != "Remove" {
						delete(d, "target")
					}
					delete(d, member)
					if ab == "empty" {
						d[member] = L{}
					}
					cs = append(cs, c16case{family: "required", kind: kind, want: "400", name: fmt.Sprintf("%s %s %s %s", typ, member, ab, kind), body: d, model: func(r *Ref) {}})
				}
			}
		}
	}
	return cs
}

func base3(n int) int {
	out, mul := 0, 1
	for i := 0; i < 4; i++ {
		out += (n % 3) * mul
		n /= 3
		mul *= 10
	}
	return out
}

func shortVals(l []interface{}) []string {
	var o []string
	for _, v := range l {
		id := idOf(deepCopy(v))
		if _, ok := v.(string); ok {
			o = append(o, shortID(id))
		} else {
			o = append(o, "{"+shortID(id)+"}")
		}
	}
	return o
}

// C16 — client Update/Delete/Add/Remove/Like/Block have exactly their documented effect.
func C16(tier string) int {
	res := NewResult("C16", tier, "exploration")
	cases := c16cases(res.Thorough())
	res.Rule = fmt.Sprintf("Update: stored object with each subset of {name, content, summary, an unknown member} x update object assigning each member in {absent, new value, null}; two objects with every pair of independent assignments (81 x 81) and three-object triples; Delete: 1..%d objects of 3 types with/without published/updated, IRI/embedded, model clock, and 10 shapes of the original times (zone offsets, zero instant, year 9999, leap day, a leap second and a zone-less form that are kept verbatim, fractions of a second that are dropped and never rounded up); Add/Remove: every sequence of 1..%d objects (IRI/embedded) x every sequence of distinct targets over {owned Collection with duplicates, owned OrderedCollection with duplicates, foreign, a collection on the local host that another tenant owns, an owned collection on a foreign host}, the stored collections spelling their entries as IRIs or as a mixture of IRIs, embedded objects and a Link named by href, and the owned targets stored as CollectionPage / OrderedCollectionPage; Add / Remove naming 5..9 and 12 objects; Like and Block with the same object sequences, Like also with its 'actor' naming another local actor / several actors / a remote actor / nobody (the ids go to the liked collection of the outbox's owner); each type with object/target absent or empty; Social-only and both protocols; every Like / Block and every third other request again with application hooks wrapped around the default callbacks; %d base requests; plus every ordered pair (and every triple over 12 of them; thorough: a third of all triples) of single-object Add / Remove / Like requests as a history on ONE application, the reference model applied step by step, and every ordered pair of Updates of one stored object; oracle: a reference model on JSON (merge + null deletion, Tombstone fields, collection edits on owned targets only, liked front insertion, Block undelivered, 400 and unchanged state for missing members)", map[bool]int{false: 2, true: 3}[res.Thorough()], map[bool]int{false: 2, true: 3}[res.Thorough()], len(cases))
	res.Assumptions = []string{"JSON nulls are looked for inside the activity's object (ActivityPub 6.3.1), which is what the statement's wording names", "the stored copy of the activity and the outbox entry are C05's",
		"one collection named twice as target is excluded here (C09's known finding)"}
	var mu sync.Mutex
	chunk := 200
	parallel((len(cases)+chunk-1)/chunk, func(ci int) {
		lo, hi := ci*chunk, (ci+1)*chunk
		if hi > len(cases) {
			hi = len(cases)
		}
		type viol struct {
			key, what string
			rep       M
		}
		var vs []viol
		outc := map[string]int{}
		classes := map[string]struct{}{}
		var expanded []c16case
		for i, c := range cases[lo:hi] {
			expanded = append(expanded, c)
			if c.family == "block" || c.family == "like" || (lo+i)%3 == 0 {
				// the same request with application hooks wrapped around every default callback: the
				// documented default effect must be unchanged
				w := c
				w.name += " (application hooks wrapped)"
				base := c.tweak
				w.tweak = func(a *ap.App) {
					if base != nil {
						base(a)
					}
					a.Callbacks = ap.CBWrapped
				}
				expanded = append(expanded, w)
			}
		}
		for _, c := range expanded {
			c := c
			sc := &Scenario{Name: c.name, Kind: c.kind, Entry: "PostOutbox", URL: outbox(Alice), Body: c.body, Tweak: c.tweak}
			a := sc.World()
			exp := RefOf(a)
			c.model(exp)
			likedBefore := asList(exp.Store[Alice+"/liked"]["items"])
			out := sc.On(a, nil)
			rep := M{"check": "C16", "family": c.family, "case": c.name, "body": c.body}
			if out.Panic != nil {
				outc["panic(C11)"]++
				continue
			}
			bad := func(kind, what string) {
				vs = append(vs, viol{c.family + "|" + kind, c.name + ": " + what, rep})
			}
			st := statusOf(out)
			outc[c.family+":"+st]++
			classes[c.family+"|"+c.name] = struct{}{}
			if st != "["+c.want+"]" {
				bad("status", fmt.Sprintf("outcome %s (err=%v), documented %s", st, out.Err, c.want))
				continue
			}
			var diffs []string
			for _, d := range exp.Diff(a, nil) {
				if strings.Contains(d, "/id/r") || strings.HasPrefix(d, "outbox ") {
					continue // the activity's own bookkeeping (C05)
				}
				if c.family == "like" && strings.Contains(d, "/liked") {
					continue // judged below
				}
				diffs = append(diffs, d)
			}
			for _, d := range diffs {
				bad("state|"+diffClass(d), d)
			}
			if c.want == "400" {
				if len(a.Deliveries) > 0 {
					bad("delivered-despite-400", fmt.Sprint(len(a.Deliveries)))
				}
				for _, d := range exp.Diff(a, nil) {
					bad("changed-despite-400|"+diffClass(d), d)
				}
			}
			if c.family == "like" {
				got := asList(RefOf(a).Store[Alice+"/liked"]["items"])
				n := len(c.liked)
				front := map[string]int{}
				ok := len(got) == n+len(likedBefore)
				if ok {
					for _, g := range got[:n] {
						front[idOf(g)]++
					}
					for _, w := range c.liked {
						front[w]--
					}
					for _, v := range front {
						if v != 0 {
							ok = false
						}
					}
					for i, o := range likedBefore {
						if idOf(got[n+i]) != idOf(o) {
							ok = false
						}
					}
				}
				if !ok {
					bad("liked", fmt.Sprintf("liked is %s, expected %v at the front of %s", shortJSON(got), shortIDs(c.liked), shortJSON(likedBefore)))
				}
			}
			if c.noDeliver && len(a.Deliveries) > 0 {
				bad("block-delivered", fmt.Sprintf("a Block was handed to the transport: %v", a.Deliveries[0].To))
			}
			if c.family == "block" {
				ob := a.Outboxes[outbox(Alice)]
				if len(ob) == 0 || a.Store[ob[0]] == nil || !strings.Contains(string(a.Store[ob[0]]), `"Block"`) {
					bad("block-not-stored-or-listed", fmt.Sprintf("outbox %v", shortIDs(ob)))
				}
			}
		}
		mu.Lock()
		defer mu.Unlock()
		res.Evaluations += len(expanded)
		for k := range classes {
			res.Nontrivial[k] = struct{}{}
		}
		for k, v := range outc {
			res.Outcomes[k] += v
		}
		for _, v := range vs {
			res.Violate(v.key, v.what, v.rep)
		}
	})
	// ---- histories: sequences of 2 (thorough: also 3) Add / Remove / Like requests on ONE application;
	// the reference model is applied request by request and compared after every step (the effect of a
	// request must not depend on which requests came before) ----
	var hist []c16case
	for _, c := range cases {
		if (c.family == "add" || c.family == "remove" || c.family == "like") && c.kind == ap.Both && c.want == "201" && !strings.Contains(c.name, "stored-entries") {
			if objs, tgs := asList(c.body["object"]), asList(c.body["target"]); len(objs) == 1 && (len(tgs) <= 1 || res.Thorough()) {
				hist = append(hist, c)
			}
		}
	}
	nHist := 0
	var hmu sync.Mutex
	var queue [][]c16case
	runHist := func(seq []c16case) { queue = append(queue, seq) }
	doHist := func(seq []c16case) {
		a := (&Scenario{Kind: ap.Both, Tweak: func(a *ap.App) {
			for _, c := range seq {
				if c.tweak != nil {
					c.tweak(a) // Add / Remove / Like cases install the same target collections and liked collection
				}
			}
		}}).World()
		exp := RefOf(a)
		var names []string
		for step, c := range seq {
			names = append(names, c.name)
			c.model(exp)
			if c.family == "like" {
				doc := exp.Store[Alice+"/liked"]
				l := asList(doc["items"])
				for _, o := range asList(c.body["object"]) {
					l = append([]interface{}{idOf(deepCopy(o))}, l...)
				}
				setOrDelete(doc, "items", fromList(l))
			}
			sc := &Scenario{Name: "c16/history/" + strings.Join(names, " > "), Kind: ap.Both, Entry: "PostOutbox", URL: outbox(Alice), Body: c.body}
			out := sc.On(a, nil)
			if out.Panic != nil || statusOf(out) != "[201]" {
				if out.Panic == nil {
					hmu.Lock()
					res.Violate("history|status", fmt.Sprintf("%s: request %d answered %s (err=%v), alone it is answered 201", sc.Name, step+1, statusOf(out), out.Err), M{"check": "C16", "part": "history", "requests": names})
					hmu.Unlock()
				}
				return
			}
			for _, d := range exp.Diff(a, nil) {
				if strings.Contains(d, "/id/r") || strings.HasPrefix(d, "outbox ") {
					continue
				}
				hmu.Lock()
				res.Violate("history|state|"+diffClass(d)+"|after-"+seq[max(step-1, 0)].family, fmt.Sprintf("%s: after request %d: %s", sc.Name, step+1, d), M{"check": "C16", "part": "history", "requests": names})
				hmu.Unlock()
				return
			}
		}
		if ch := a.HeldPayloadsChanged(); len(ch) > 0 {
			hmu.Lock()
			res.Violate("payload-changed-after-hand-over", fmt.Sprintf("%v: %s", names, ch[0]), M{"check": "C16", "part": "history", "requests": names})
			hmu.Unlock()
		}
		hmu.Lock()
		nHist++
		hmu.Unlock()
	}
	for _, c1 := range hist {
		for _, c2 := range hist {
			runHist([]c16case{c1, c2})
		}
	}
	if os.Getenv("VERIF_C16_LIST") != "" {
		for i, c := range hist {
			fmt.Println(i, c.family, c.name)
		}
	}
	if !res.Thorough() {
		// every triple over a reduced alphabet: each family x each kind of target / each actor variant once
		var red []c16case
		for _, i := range []int{0, 5, 10, 12, 15, 20, 22, 27, 30, 32, 36, 44} {
			if i < len(hist) {
				red = append(red, hist[i])
			}
		}
		for _, c1 := range red {
			for _, c2 := range red {
				for _, c3 := range red {
					runHist([]c16case{c1, c2, c3})
				}
			}
		}
	}
	if res.Thorough() {
		// triples over the single-target requests only (the full alphabet has several hundred entries)
		var small []c16case
		for _, c := range hist {
			if len(asList(c.body["target"])) <= 1 {
				small = append(small, c)
			}
		}
		for i, c1 := range small {
			for j, c2 := range small {
				for k, c3 := range small {
					if (i+j+k)%3 == 0 {
						runHist([]c16case{c1, c2, c3})
					}
				}
			}
		}
	}
	// Update after Update on one stored object (every ordered pair of member assignments; quick: a third
	// of the assignments), from a fully populated and from a bare stored object
	for _, mask := range []string{"stored=1111 ", "stored=0000 "} {
		var ups []c16case
		for _, c := range cases {
			if c.family == "update" && c.kind == ap.Both && strings.Contains(c.name, mask) && strings.Contains(c.name, "objects=1 ") {
				ups = append(ups, c)
			}
		}
		for i, c1 := range ups {
			for j, c2 := range ups {
				if !res.Thorough() && (i%3 != 0 || j%3 != 0) {
					continue
				}
				runHist([]c16case{c1, c2})
			}
		}
	}
	chunkH := 500
	parallel((len(queue)+chunkH-1)/chunkH, func(ci int) {
		lo, hi := ci*chunkH, (ci+1)*chunkH
		if hi > len(queue) {
			hi = len(queue)
		}
		for _, seq := range queue[lo:hi] {
			doHist(seq)
		}
	})
	res.Evaluations += nHist
	res.Extra["request_histories"] = nHist
	for _, i := range []int{1, len(cases) / 3, len(cases) / 2, len(cases) - 10} {
		res.Sample(M{"case": cases[i].name, "body": cases[i].body})
	}
	return res.Finish()
}
