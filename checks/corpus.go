package checks

import (
	"context"
	"fmt"
	"runtime"
	"strings"

	"github.com/go-fed/activity/pub"
	"github.com/go-fed/activity/streams/vocab"

	ap "verif/apmodel"
	"verif/mc"
)

// Well-known ids of the base world.
const (
	AS      = "https://www.w3.org/ns/activitystreams"
	Public  = "https://www.w3.org/ns/activitystreams#Public"
	Alice   = "https://l.example/u/alice"
	Bob     = "https://l.example/u/bob"
	Carol   = "https://r1.example/u/carol"
	Dave    = "https://r2.example/u/dave"
	Erin    = "https://r2.example/u/erin"
	Note1   = "https://l.example/n/1"
	Note2   = "https://l.example/n/2"
	Col1    = "https://l.example/c/1"
	OCol1   = "https://l.example/oc/1"
	RNote   = "https://r1.example/n/9"
	RNote2  = "https://r1.example/n/8"
	RCol    = "https://r1.example/c/9"
	ROCol   = "https://r1.example/oc/9"
	Follow1 = "https://l.example/f/1"
	RAct    = "https://r1.example/a/1"
	RAct2   = "https://r1.example/a/2"
)

// M is a JSON object literal.
type M = map[string]interface{}

// L is a JSON array literal.
type L = []interface{}

// Doc builds an ActivityStreams document with the standard context.
func Doc(typ, id string, kv ...interface{}) M {
	m := M{"@context": AS, "type": typ}
	if id != "" {
		m["id"] = id
	}
	for i := 0; i+1 < len(kv); i += 2 {
		m[kv[i].(string)] = kv[i+1]
	}
	return m
}

// Emb builds an embedded object (no @context).
func Emb(typ, id string, kv ...interface{}) M {
	m := Doc(typ, id, kv...)
	delete(m, "@context")
	return m
}

func person(id string) M {
	return Doc("Person", id, "inbox", id+"/inbox", "outbox", id+"/outbox", "followers", id+"/followers",
		"following", id+"/following", "liked", id+"/liked", "preferredUsername", id[strings.LastIndex(id, "/")+1:])
}

// Peer is the id of the i-th generated remote actor; ManyPeers registers n of them as dereferencable persons.
func Peer(i int) string { return fmt.Sprintf("https://r1.example/u/p%d", i) }

func ManyPeers(a *ap.App, n int) {
	for i := 0; i < n; i++ {
		a.PutRemote(Peer(i), person(Peer(i)))
	}
}

// BaseWorld builds the standard application state.
func BaseWorld() *ap.App {
	a := ap.New()
	a.PutDoc(person(Alice))
	a.PutDoc(person(Bob))
	a.PutDoc(Doc("Note", Note1, "attributedTo", Alice, "content", "hello", "published", "2019-01-02T03:04:05Z"))
	a.PutDoc(Doc("Note", Note2, "attributedTo", Alice, "content", "second", "likes", Emb("OrderedCollection", "", "orderedItems", L{"https://r9.example/l/0"}),
		"shares", Emb("Collection", "", "items", L{"https://r9.example/s/0"})))
	a.PutDoc(Doc("Collection", Col1, "items", L{Carol, Dave}))
	a.PutDoc(Doc("OrderedCollection", OCol1, "orderedItems", L{Dave}))
	a.PutDoc(Doc("Follow", Follow1, "actor", Alice, "object", Carol))
	a.Inboxes[Alice+"/inbox"] = []string{"https://r9.example/a/old"}
	a.Outboxes[Alice+"/outbox"] = []string{"https://l.example/id/old"}
	a.Inboxes[Bob+"/inbox"] = nil
	a.Outboxes[Bob+"/outbox"] = nil
	for _, p := range []string{Carol, Dave, Erin} {
		a.PutRemote(p, person(p))
	}
	a.PutRemote(RNote, Doc("Note", RNote, "attributedTo", Carol, "content", "remote", "inReplyTo", Note1))
	a.PutRemote(RNote2, Doc("Note", RNote2, "attributedTo", Carol, "content", "remote2", "inReplyTo", RNote))
	a.PutRemote(RCol, Doc("Collection", RCol, "items", L{Carol, ROCol}))
	a.PutRemote(ROCol, Doc("OrderedCollection", ROCol, "orderedItems", L{Dave, Erin}))
	a.PutRemote(Follow1, Doc("Follow", Follow1, "actor", Alice, "object", Carol))
	a.PutRemote("https://r1.example/like/1", Doc("Like", "https://r1.example/like/1", "actor", Carol, "object", Note1))
	a.PutRemote("https://l.example/like/7", Doc("Like", "https://l.example/like/7", "actor", Alice, "object", RNote))
	a.StoredInbox[Dave] = true
	return a
}

// Scenario is one request against a world.
type Scenario struct {
	Name  string
	Kind  ap.ActorKind
	Entry string // PostInbox PostOutbox GetInbox GetOutbox Handler Send
	URL   string
	Body  M
	Raw   []byte // raw body overriding Body
	Tweak func(a *ap.App)
	// request shape overrides
	Method, CType, Accept string
	// Scheme, if set to something other than https, runs the scenario in a world whose own IRIs use
	// that scheme, through the ...Scheme entry points (PostInboxScheme, PostOutboxScheme,
	// NewActivityStreamsHandlerScheme).
	Scheme string
	// DeclLen, if not zero, is the Content-Length the request DECLARES (the body itself is unchanged); -1 = unknown
	DeclLen int64
	// AltEndpoints: the local actors' inboxes / outboxes are moved to query-routed IRIs (App.UseAltEndpoints)
	AltEndpoints bool
	// PreHeaders are already on the ResponseWriter when the library is called (set by middleware or
	// by the application's authentication hook).
	PreHeaders map[string][]string
	// Prelude requests are served first (fault-free, each as a request of its own) on the same
	// application: the scenario then starts from a non-initial state.
	Prelude []*Scenario
}

// RunOut is what one request produced.
type RunOut struct {
	Handled   bool
	Err       error
	W         *ap.Writer
	Panic     interface{}
	PanicSite string
	PanicLine string
	Req       *ap.Req
	Act       pub.Activity
	App       *ap.App
}

// World builds the scenario's application.
func (sc *Scenario) World() *ap.App {
	a := BaseWorld()
	if sc.Tweak != nil {
		sc.Tweak(a)
	}
	if sc.Scheme != "" && sc.Scheme != "https" {
		a.UseScheme(sc.Scheme)
	}
	if sc.AltEndpoints {
		a.UseAltEndpoints()
	}
	return a
}

// Exec runs the scenario once on a fresh world under execution x.
func (sc *Scenario) Exec(x *mc.Exec, faults bool) *RunOut {
	a := sc.World()
	for _, p := range sc.Prelude {
		p.On(a, nil)
	}
	a.X = x
	a.Faults = faults
	return sc.On(a, nil)
}

// On runs the scenario's request on an existing application (t = controlling thread or nil).
func (sc *Scenario) On(a *ap.App, t *mc.T) *RunOut { return sc.OnReq(a, t, a.NewReq(t)) }

// OnReq is On with a request monitor created beforehand (fixed request numbering).
func (sc *Scenario) OnReq(a *ap.App, t *mc.T, req *ap.Req) *RunOut {
	out := &RunOut{App: a, W: ap.NewWriter()}
	for k, v := range sc.PreHeaders {
		out.W.H[k] = append([]string(nil), v...)
	}
	req.T = t
	out.Req = req
	ctx := ap.WithReq(context.Background(), req)
	body := sc.Raw
	if body == nil && sc.Body != nil {
		body = ap.MustJSON(sc.Body)
	}
	alt := a.LocalScheme != "" && a.LocalScheme != "https"
	if alt {
		body = []byte(a.RewriteLocal(string(body)))
	}
	reqURL := sc.URL
	if a.AltEndpoints {
		body = []byte(a.RewriteEndpoints(string(body)))
		reqURL = a.RewriteEndpoints(sc.URL)
	}
	call := func() {
		switch sc.Entry {
		case "PostInbox":
			r := ap.Request(def(sc.Method, "POST"), reqURL, def(sc.CType, ap.APType), sc.Accept, body)
			if sc.DeclLen != 0 {
				r.ContentLength = sc.DeclLen
				r.Header.Set("Content-Length", fmt.Sprint(sc.DeclLen))
			}
			if alt {
				out.Handled, out.Err = a.Actor(sc.Kind).PostInboxScheme(ctx, out.W, r, a.LocalScheme)
			} else {
				out.Handled, out.Err = a.Actor(sc.Kind).PostInbox(ctx, out.W, r)
			}
		case "PostOutbox":
			r := ap.Request(def(sc.Method, "POST"), reqURL, def(sc.CType, ap.APType), sc.Accept, body)
			if sc.DeclLen != 0 {
				r.ContentLength = sc.DeclLen
				r.Header.Set("Content-Length", fmt.Sprint(sc.DeclLen))
			}
			if alt {
				out.Handled, out.Err = a.Actor(sc.Kind).PostOutboxScheme(ctx, out.W, r, a.LocalScheme)
			} else {
				out.Handled, out.Err = a.Actor(sc.Kind).PostOutbox(ctx, out.W, r)
			}
		case "GetInbox":
			r := ap.Request(def(sc.Method, "GET"), reqURL, sc.CType, def(sc.Accept, ap.APType), nil)
			out.Handled, out.Err = a.Actor(sc.Kind).GetInbox(ctx, out.W, r)
		case "GetOutbox":
			r := ap.Request(def(sc.Method, "GET"), reqURL, sc.CType, def(sc.Accept, ap.APType), nil)
			out.Handled, out.Err = a.Actor(sc.Kind).GetOutbox(ctx, out.W, r)
		case "Handler":
			req.AuthOK = true // the handler's caller is responsible for authorization
			r := ap.Request(def(sc.Method, "GET"), reqURL, sc.CType, def(sc.Accept, ap.APType), nil)
			out.Handled, out.Err = a.Handler()(ctx, out.W, r)
		case "Send":
			req.AuthOK = true // programmatic
			fa, ok := a.Actor(sc.Kind).(pub.FederatingActor)
			if !ok {
				out.Err = fmt.Errorf("not a FederatingActor")
				return
			}
			var v vocab.Type
			v, out.Err = ap.Decode(body)
			if out.Err != nil {
				return
			}
			out.Handled = true
			out.Act, out.Err = fa.Send(ctx, ap.U(a.RewriteLocal(reqURL)), v)
		default:
			panic("unknown entry " + sc.Entry)
		}
	}
	wid := beginReq(sc)
	defer endReq(wid)
	if t != nil {
		call() // panics are recovered (and attributed) at the thread root
	} else {
		func() {
			defer func() {
				if r := recover(); r != nil {
					if _, ok := r.(mc.Nondeterminism); ok {
						panic(r)
					}
					out.Panic = r
					out.PanicSite, out.PanicLine = panicSite()
				}
			}()
			call()
		}()
	}
	a.Finish(req)
	return out
}

func def(s, d string) string {
	if s == "" {
		return d
	}
	return s
}

// panicSite finds the innermost go-fed/activity frame below the panic.
func panicSite() (string, string) {
	pcs := make([]uintptr, 64)
	n := runtime.Callers(3, pcs)
	fr := runtime.CallersFrames(pcs[:n])
	for {
		f, more := fr.Next()
		if strings.HasPrefix(f.Function, "github.com/go-fed/activity/") {
			return strings.TrimPrefix(f.Function, "github.com/go-fed/activity/"), fmt.Sprintf("%s:%d", f.File[strings.LastIndex(f.File, "/")+1:], f.Line)
		}
		if !more {
			break
		}
	}
	return "?", "?"
}

// ---------------------------------------------------------------------------------------

func inbox(of string) string  { return of + "/inbox" }
func outbox(of string) string { return of + "/outbox" }

func tw(fs ...func(a *ap.App)) func(a *ap.App) {
	return func(a *ap.App) {
		for _, f := range fs {
			f(a)
		}
	}
}
func onFollow(b pub.OnFollowBehavior) func(a *ap.App) { return func(a *ap.App) { a.OnFollow = b } }
func callbacks(m ap.CallbackMode) func(a *ap.App)     { return func(a *ap.App) { a.Callbacks = m } }

// CorpusWithHooks is the corpus plus every POST scenario again with application hooks wrapped around
// the default callbacks (unless the scenario already configures the callbacks itself).
func CorpusWithHooks() []*Scenario {
	base := Corpus()
	out := append([]*Scenario(nil), base...)
	for _, sc := range base {
		if sc.Entry != "PostInbox" && sc.Entry != "PostOutbox" {
			continue
		}
		probe := BaseWorld()
		if sc.Tweak != nil {
			sc.Tweak(probe)
		}
		if probe.Callbacks != ap.CBNone {
			continue
		}
		c := *sc
		c.Name += "+hooks"
		inner := sc.Tweak
		c.Tweak = func(a *ap.App) {
			if inner != nil {
				inner(a)
			}
			a.Callbacks = ap.CBWrapped
		}
		out = append(out, &c)
		// ... and with application callbacks that call back into the library (a Send in the same context)
		c2 := *sc
		c2.Name += "+reentrant-hooks"
		c2.Tweak = func(a *ap.App) {
			if inner != nil {
				inner(a)
			}
			a.Callbacks = ap.CBWrappedReenter
		}
		out = append(out, &c2)
		// ... and with application callbacks that fail AFTER the default effect succeeded
		c3 := *sc
		c3.Name += "+failing-hooks"
		c3.Tweak = func(a *ap.App) {
			if inner != nil {
				inner(a)
			}
			a.Callbacks = ap.CBWrappedFail
		}
		out = append(out, &c3)
	}
	return out
}

// TypeCorpus: an inbox POST, an outbox POST and a Send for every activity type of the shipped
// vocabularies that the library has NO default handling for (the intransitive ones - which lack the
// 'object' accessors - included), so that every type passes through the handlers at least once.
func TypeCorpus() []*Scenario {
	var out []*Scenario
	for _, t := range []string{"Activity", "IntransitiveActivity", "Arrive", "Travel", "Question", "Dislike", "Flag", "Ignore", "Invite", "Join", "Leave", "Listen", "Move", "Offer", "Read",
		"TentativeAccept", "TentativeReject", "View", "Push"} {
		intransitive := t == "IntransitiveActivity" || t == "Arrive" || t == "Travel" || t == "Question"
		mk := func(id, actor string) M {
			d := Doc(t, id, "actor", actor, "to", L{Col1, Carol}, "target", Col1, "origin", RCol, "inReplyTo", Note1)
			if t == "Push" {
				d["@context"] = L{AS, "https://forgefed.peers.community/ns"}
			}
			if !intransitive {
				d["object"] = Note1
			}
			if t == "Question" {
				d["oneOf"] = L{Emb("Note", "", "name", "a"), Emb("Note", "", "name", "b")}
			}
			return d
		}
		out = append(out,
			&Scenario{Name: "types/in-" + t, Kind: ap.Both, Entry: "PostInbox", URL: inbox(Alice), Body: mk(RAct, Carol)},
			&Scenario{Name: "types/out-" + t, Kind: ap.Both, Entry: "PostOutbox", URL: outbox(Alice), Body: mk("", Alice)},
			&Scenario{Name: "types/send-" + t, Kind: ap.FederatingOnly, Entry: "Send", URL: outbox(Alice), Body: mk("", Alice)})
	}
	return out
}

// HistoryCorpus: every POST scenario of the corpus again, started from the state an EARLIER request of
// the same kind left behind (the same body under another activity id; for the outbox simply posted
// twice): a second Follow from a peer who already follows, a second Like of a liked object, ...
func HistoryCorpus() []*Scenario {
	var out []*Scenario
	for _, sc := range Corpus() {
		if (sc.Entry != "PostInbox" && sc.Entry != "PostOutbox") || sc.Body == nil {
			continue
		}
		earlier := *sc
		earlier.Name += "/earlier"
		if id, ok := sc.Body["id"].(string); ok {
			b := M{}
			for k, v := range sc.Body {
				b[k] = v
			}
			b["id"] = id + "-earlier"
			earlier.Body = b
		}
		c := *sc
		c.Name += "+after-the-same-request-under-another-id"
		c.Prelude = []*Scenario{&earlier}
		out = append(out, &c)
	}
	return out
}

// PairHistoryCorpus: every ordered pair (earlier request, scenario) of POST scenarios of the corpus on
// one application and one long-lived Actor (state a library change keeps on the Actor, or leaves in
// the application, shows in the second request).
func PairHistoryCorpus() []*Scenario {
	var posts []*Scenario
	for _, sc := range Corpus() {
		if (sc.Entry == "PostInbox" || sc.Entry == "PostOutbox") && sc.Body != nil {
			posts = append(posts, sc)
		}
	}
	var out []*Scenario
	for _, p := range posts {
		earlier := *p
		earlier.Name += "/earlier"
		if id, ok := p.Body["id"].(string); ok {
			b := M{}
			for k, v := range p.Body {
				b[k] = v
			}
			b["id"] = id + "-earlier"
			earlier.Body = b
		}
		for _, sc := range posts {
			if sc == p {
				continue // HistoryCorpus has the same-kind pairs (also under faults)
			}
			c := *sc
			c.Name = sc.Name + "+after+" + p.Name
			e := earlier
			c.Prelude = []*Scenario{&e}
			out = append(out, &c)
		}
	}
	return out
}

// Corpus returns the scenarios covering every default side-effect path of both protocols.
func Corpus() []*Scenario {
	var s []*Scenario
	in := func(name string, body M, tweak ...func(a *ap.App)) {
		s = append(s, &Scenario{Name: "in/" + name, Kind: ap.Both, Entry: "PostInbox", URL: inbox(Alice), Body: body, Tweak: tw(tweak...)})
	}
	out := func(name string, body M, tweak ...func(a *ap.App)) {
		s = append(s, &Scenario{Name: "out/" + name, Kind: ap.Both, Entry: "PostOutbox", URL: outbox(Alice), Body: body, Tweak: tw(tweak...)})
	}
	rnote := func(id string, kv ...interface{}) M {
		return Emb("Note", id, append([]interface{}{"attributedTo", Carol, "content", "x"}, kv...)...)
	}
	// ---- federating (inbox) ----
	in("create-embedded", Doc("Create", RAct, "actor", Carol, "object", rnote("https://r1.example/n/10"), "to", Alice))
	in("create-iri", Doc("Create", RAct, "actor", Carol, "object", RNote, "to", Alice))
	in("create-two", Doc("Create", RAct, "actor", Carol, "object", L{rnote("https://r1.example/n/10"), RNote}))
	in("update-embedded", Doc("Update", RAct, "actor", Carol, "object", rnote("https://r1.example/n/10", "content", "edited")))
	in("update-two", Doc("Update", RAct, "actor", Carol, "object", L{rnote("https://r1.example/n/10"), rnote("https://r1.example/n/11")}))
	in("delete-iri", Doc("Delete", RAct, "actor", Carol, "object", "https://r1.example/n/10"))
	in("delete-embedded", Doc("Delete", RAct, "actor", Carol, "object", L{rnote("https://r1.example/n/10"), "https://r1.example/n/11"}))
	in("follow-accept", Doc("Follow", RAct, "actor", Carol, "object", Alice), onFollow(pub.OnFollowAutomaticallyAccept))
	in("follow-accept-2actors", Doc("Follow", RAct, "actor", L{Carol, Dave}, "object", Alice), onFollow(pub.OnFollowAutomaticallyAccept))
	in("follow-reject", Doc("Follow", RAct, "actor", Carol, "object", Alice), onFollow(pub.OnFollowAutomaticallyReject))
	in("follow-nothing", Doc("Follow", RAct, "actor", Carol, "object", Alice))
	in("follow-other", Doc("Follow", RAct, "actor", Carol, "object", Bob), onFollow(pub.OnFollowAutomaticallyAccept))
	in("accept-embedded", Doc("Accept", RAct, "actor", Carol, "object", Emb("Follow", Follow1, "actor", Alice, "object", Carol)))
	in("accept-iri", Doc("Accept", RAct, "actor", Carol, "object", Follow1))
	in("accept-nonfollow", Doc("Accept", RAct, "actor", Carol, "object", rnote("https://r1.example/n/10")))
	in("reject", Doc("Reject", RAct, "actor", Carol, "object", Follow1))
	in("add-owned", Doc("Add", RAct, "actor", Carol, "object", RNote, "target", L{Col1, OCol1}))
	in("add-foreign", Doc("Add", RAct, "actor", Carol, "object", L{RNote, rnote("https://r1.example/n/10")}, "target", L{RCol, Col1}))
	in("remove-owned", Doc("Remove", RAct, "actor", Carol, "object", Dave, "target", L{Col1, OCol1}))
	in("remove-foreign", Doc("Remove", RAct, "actor", Carol, "object", Dave, "target", RCol))
	in("like-owned", Doc("Like", RAct, "actor", Carol, "object", Note1))
	in("like-owned-ordered", Doc("Like", RAct, "actor", Carol, "object", L{Note2, Note1}))
	in("like-foreign", Doc("Like", RAct, "actor", Carol, "object", L{RNote, Note1}))
	in("announce-owned", Doc("Announce", RAct, "actor", Carol, "object", L{Note1, Note2}))
	in("announce-foreign", Doc("Announce", RAct, "actor", Carol, "object", RNote))
	in("undo-embedded", Doc("Undo", RAct, "actor", Carol, "object", Emb("Like", "https://r1.example/like/1", "actor", Carol, "object", Note1)))
	in("undo-iri", Doc("Undo", RAct, "actor", Carol, "object", "https://r1.example/like/1"))
	in("block", Doc("Block", RAct, "actor", Carol, "object", Alice))
	in("default-callback", Doc("Listen", RAct, "actor", Carol, "object", RNote))
	in("wrapped-callbacks-like", Doc("Like", RAct, "actor", Carol, "object", Note1), callbacks(ap.CBWrapped))
	in("wrapped-callbacks-create", Doc("Create", RAct, "actor", Carol, "object", rnote("https://r1.example/n/10")), callbacks(ap.CBWrapped))
	in("other-callbacks-like", Doc("Like", RAct, "actor", Carol, "object", Note1), callbacks(ap.CBOther))
	in("duplicate", Doc("Like", "https://r9.example/a/old", "actor", Carol, "object", Note1))
	in("blocked", Doc("Like", RAct, "actor", Carol, "object", Note1), func(a *ap.App) { a.BlockedSet[Carol] = true })
	// inbox forwarding
	in("forward-two-collections", Doc("Create", RAct, "actor", Carol, "to", L{Col1, OCol1, Carol}, "cc", RCol,
		"object", rnote("https://r1.example/n/10", "inReplyTo", Note1)))
	in("forward-chain-iri", Doc("Create", RAct, "actor", Carol, "to", Col1, "object", rnote("https://r1.example/n/10", "inReplyTo", RNote2)))
	in("forward-no-owned-reply", Doc("Create", RAct, "actor", Carol, "audience", OCol1, "object", rnote("https://r1.example/n/10", "inReplyTo", "https://r9.example/n/404")))
	in("forward-owned-noncollection", Doc("Announce", RAct, "actor", Carol, "to", L{Note1, Alice}, "object", Note1))
	in("forward-tag-target", Doc("Add", RAct, "actor", Carol, "to", OCol1, "object", RNote, "target", RCol, "tag", Emb("Mention", "", "href", Alice)))
	// ---- social (outbox) ----
	out("note-bare", Doc("Note", "", "content", "hi", "to", L{Carol, Public}, "cc", Dave, "bto", Erin))
	out("create-two", Doc("Create", "", "actor", Alice, "to", RCol, "bcc", Erin, "object", L{
		Emb("Note", "", "content", "a", "to", Carol), Emb("Article", "", "content", "b", "attributedTo", Bob, "audience", Dave)}))
	out("update", Doc("Update", "", "actor", Alice, "to", Carol, "object", Emb("Note", Note1, "content", "edited", "summary", nil)))
	out("delete", Doc("Delete", "", "actor", Alice, "to", Carol, "object", L{Note1, Emb("Note", Note2)}))
	out("follow", Doc("Follow", "", "actor", Alice, "object", Carol, "to", Carol))
	out("add", Doc("Add", "", "actor", Alice, "object", L{Note1, RNote}, "target", L{Col1, OCol1, RCol}, "to", Dave))
	out("remove", Doc("Remove", "", "actor", Alice, "object", Dave, "target", L{Col1, OCol1, RCol}))
	out("like", Doc("Like", "", "actor", Alice, "object", L{RNote, Note2}, "to", Carol))
	out("undo", Doc("Undo", "", "actor", Alice, "object", Emb("Like", "https://l.example/like/7", "actor", Alice, "object", RNote), "to", Carol))
	out("block", Doc("Block", "", "actor", Alice, "object", Carol))
	out("default-callback", Doc("Listen", "", "actor", Alice, "object", RNote, "to", L{Carol, Alice}))
	out("wrapped-callbacks-like", Doc("Like", "", "actor", Alice, "object", RNote, "to", Carol), callbacks(ap.CBWrapped))
	out("other-callbacks-create", Doc("Note", "", "content", "hi", "to", Carol), callbacks(ap.CBOther))
	out("deliver-nested", Doc("Announce", "", "actor", Alice, "object", RNote, "to", L{RCol, Carol, Alice}, "audience", L{"https://r9.example/u/404", Dave}))
	// social-only / federating-only actors
	s = append(s, &Scenario{Name: "out/social-only-note", Kind: ap.SocialOnly, Entry: "PostOutbox", URL: outbox(Alice),
		Body: Doc("Note", "", "content", "hi", "to", Carol, "bcc", Dave)})
	s = append(s, &Scenario{Name: "send/follow", Kind: ap.FederatingOnly, Entry: "Send", URL: outbox(Alice),
		Body: Doc("Follow", "", "actor", Alice, "object", Carol, "to", Carol, "bto", Dave)})
	s = append(s, &Scenario{Name: "send/note-both", Kind: ap.Both, Entry: "Send", URL: outbox(Alice),
		Body: Doc("Note", "", "content", "programmatic", "to", L{Carol, RCol}, "bcc", Erin)})
	s = append(s, &Scenario{Name: "in/federating-only-like", Kind: ap.FederatingOnly, Entry: "PostInbox", URL: inbox(Alice),
		Body: Doc("Like", RAct, "actor", Carol, "object", Note1)})
	// GET endpoints
	s = append(s, &Scenario{Name: "get/inbox", Kind: ap.Both, Entry: "GetInbox", URL: inbox(Alice)})
	s = append(s, &Scenario{Name: "get/outbox", Kind: ap.Both, Entry: "GetOutbox", URL: outbox(Alice)})
	s = append(s, &Scenario{Name: "get/handler-note", Kind: ap.Both, Entry: "Handler", URL: Note1})
	s = append(s, &Scenario{Name: "get/handler-missing", Kind: ap.Both, Entry: "Handler", URL: "https://l.example/n/404",
		Tweak: func(a *ap.App) { a.MissingAsNil = true }})
	s = append(s, &Scenario{Name: "get/handler-tombstone", Kind: ap.Both, Entry: "Handler", URL: "https://l.example/n/dead",
		Tweak: func(a *ap.App) {
			a.PutDoc(Doc("Tombstone", "https://l.example/n/dead", "formerType", "Note", "deleted", "2019-01-02T03:04:05Z"))
		}})
	return s
}
