package checks

import (
	"fmt"
	"strings"
	"sync"

	"github.com/go-fed/activity/pub"

	ap "verif/apmodel"
	"verif/mc"
)

// trichotomy checks "exactly one of: not handled & nothing written; handled & error & nothing
// written by the library; handled & nil error & exactly one status written".
// appWrote = number of statuses the application's own Authenticate* wrote.
func trichotomy(out *RunOut, appWrote int) string {
	w := out.W
	lib := len(w.Statuses) - appWrote
	switch {
	case !out.Handled:
		if w.Wrote() || out.Err != nil {
			return fmt.Sprintf("not handled but wrote=%v err=%v", w.Statuses, out.Err)
		}
	case out.Err != nil:
		if lib > 0 || len(w.Writes) > 0 {
			return fmt.Sprintf("handled with error %q but the library wrote statuses=%v bodies=%d", out.Err, w.Statuses, len(w.Writes))
		}
	default:
		if len(w.Statuses) != 1 {
			return fmt.Sprintf("handled without error but %d statuses written: %v", len(w.Statuses), w.Statuses)
		}
		if w.WriteBeforeH {
			return "body written before the status"
		}
	}
	return ""
}

func statusOf(out *RunOut) string {
	if !out.Handled {
		return "not-handled"
	}
	if out.Err != nil {
		return "error"
	}
	return fmt.Sprint(out.W.Statuses)
}

// locationOK checks the 201 contract: Location == new activity id == newest outbox entry, and stored.
func locationOK(out *RunOut, box string) string {
	loc := out.W.HeaderAtWH.Get("Location")
	if loc == "" {
		return "201 without Location header at WriteHeader time"
	}
	items := out.App.Outboxes[box]
	if len(items) == 0 || items[0] != loc {
		return fmt.Sprintf("Location %q is not the newest outbox entry %v", loc, items)
	}
	if _, ok := out.App.Store[loc]; !ok {
		return fmt.Sprintf("Location %q is not stored", loc)
	}
	return ""
}

type c10viol struct {
	key, what string
	rep       M
}

// C10 — handlers report each outcome exactly once, with the documented status.
func C10(tier string) int {
	res := NewResult("C10", tier, "fault_enumeration")
	var mu sync.Mutex
	add := func(evals int, classes map[string]struct{}, outs map[string]int, viols []c10viol, samples []interface{}) {
		mu.Lock()
		defer mu.Unlock()
		res.Evaluations += evals
		for k := range classes {
			res.Nontrivial[k] = struct{}{}
		}
		for k, v := range outs {
			res.Outcomes[k] += v
		}
		for _, v := range viols {
			res.Violate(v.key, v.what, v.rep)
		}
		for _, s := range samples {
			res.Sample(s)
		}
	}

	// ---- part 1: the request product of C07 -------------------------------------------------
	var cases []reqCase
	warmUpOddCaseHeaders()
	forEachReqCase(func(c reqCase) { cases = append(cases, c) })
	chunk := 2000
	parallel((len(cases)+chunk-1)/chunk, func(ci int) {
		var viols []c10viol
		classes := map[string]struct{}{}
		outs := map[string]int{}
		evals := 0
		lo, hi := ci*chunk, (ci+1)*chunk
		if hi > len(cases) {
			hi = len(cases)
		}
		for _, c := range cases[lo:hi] {
			sc := c.scenario(true)
			a := sc.World()
			out := sc.On(a, nil)
			evals++
			if out.Panic != nil {
				outs["panic(C11)"]++
				continue
			}
			bad := func(kind, what string) {
				viols = append(viols, c10viol{kind + "|" + c.entry, c.String() + ": " + what, M{"check": "C10", "case": c.String()}})
			}
			appWrote := 0
			for _, cl := range a.Log {
				if strings.HasPrefix(cl.Op, "Auth.") && c.auth == ap.Denied {
					appWrote = 1
				}
			}
			if msg := trichotomy(out, appWrote); msg != "" {
				bad("outcome-not-exactly-once", msg)
			}
			isAP := c.method == wantMethod(c.entry) && c.hdr.want == 1
			st := statusOf(out)
			outs[st]++
			classes[fmt.Sprintf("%s|%s|%d|%d|%v|%s|%s", c.entry, c.kind, c.auth, c.block, isAP, c.body.class, st)] = struct{}{}
			if isAP && out.Err == nil && !out.Handled {
				// an ActivityPub request is never "not handled": the documented status applies to it
				bad("activitypub-request-not-handled", "an ActivityPub request ended as not handled with nothing written")
			}
			if !isAP || out.Err != nil || !out.Handled {
				continue
			}
			want := ""
			switch {
			case !enabled(c.entry, c.kind):
				want = "[405]"
			case c.entry != "Handler" && c.auth == ap.Denied:
				want = "[401]" // written by the application, not the library
			case c.entry == "PostInbox" || c.entry == "PostOutbox":
				switch {
				case c.body.class == "unknown":
					want = "[400]"
				case c.entry == "PostInbox" && c.block == ap.Denied:
					want = "[403]"
				case c.entry == "PostInbox":
					want = "[200]"
				default:
					want = "[201]"
				}
			default:
				want = "[200]"
			}
			if st != want {
				bad("wrong-status", fmt.Sprintf("status %s, documented %s", st, want))
			}
			if st == "[201]" {
				if msg := locationOK(out, outbox(Alice)); msg != "" {
					bad("bad-location", msg)
				}
			}
		}
		add(evals, classes, outs, viols, nil)
	})

	// ---- part 2: usable id / required object / required target ---------------------------------
	type fam struct {
		name  string
		sc    *Scenario
		want  string
		class string
	}
	var fams []fam
	ids := []struct {
		name string
		v    interface{}
		set  bool
		ok   bool
	}{{"absent", nil, false, false}, {"null", nil, true, false}, {"empty-string", "", true, false}, {"number", 5, true, false},
		{"object", M{"a": 1}, true, false}, {"array", L{RAct}, true, false}, {"relative", "a/1", true, false}, {"abs-path", "/a/1", true, false}, {"network-path", "//r1.example/a/1", true, false}, {"query-only", "?a=1", true, false}, {"fragment-only", "#a1", true, false},
		{"absolute", RAct, true, true}}
	for _, idv := range ids {
		d := Doc("Like", "", "actor", Carol, "object", Note1)
		if idv.set {
			d["id"] = idv.v
		}
		want := "[400]"
		if idv.ok {
			want = "[200]"
		}
		fams = append(fams, fam{"inbox-id-" + idv.name, &Scenario{Name: "id/" + idv.name, Kind: ap.Both, Entry: "PostInbox", URL: inbox(Alice), Body: d}, want, "usable-id"})
	}
	// multi-valued 'type': a body is of a known type if ANY entry names one
	for ti, tv := range []struct {
		v    interface{}
		want string
	}{{L{"https://ext.example/ns#Boosted", "Like"}, "ok"}, {L{"Like", "https://ext.example/ns#Boosted"}, "ok"}, {L{"zz:Unknown", "https://ext.example/ns#Boosted", "Like"}, "ok"},
		{L{"https://ext.example/ns#Boosted", "zz:Other"}, "[400]"}, {L{}, "[400]"}, {L{5.0, "Like"}, "ok"}, {"https://ext.example/ns#Boosted", "[400]"}} {
		for _, side := range []string{"PostInbox", "PostOutbox"} {
			d := Doc("Like", RAct, "actor", Carol, "object", Note1)
			url, want := inbox(Alice), "[200]"
			if side == "PostOutbox" {
				d = Doc("Like", "", "actor", Alice, "object", RNote, "to", Carol)
				url, want = outbox(Alice), "[201]"
			}
			d["type"] = tv.v
			if tv.want != "ok" {
				want = tv.want
			}
			fams = append(fams, fam{fmt.Sprintf("%s-type-member-%d", side, ti), &Scenario{Name: "type-array", Kind: ap.Both, Entry: side, URL: url, Body: d}, want, "known-type-among-several"})
		}
	}
	// several actors of which the application blocks a subset: 403 iff one of them is blocked, whatever
	// its position and however often the others are repeated (every sequence of 1..3 (thorough 4) actors)
	{
		alpha := []string{Carol, Dave, Erin}
		maxA := 3
		if res.Thorough() {
			maxA = 4
		}
		var seqs [][]string
		var gen func(cur []string)
		gen = func(cur []string) {
			if len(cur) > 0 {
				seqs = append(seqs, append([]string(nil), cur...))
			}
			if len(cur) == maxA {
				return
			}
			for _, a := range alpha {
				gen(append(cur, a))
			}
		}
		gen(nil)
		for _, blocked := range [][]string{{Erin}, {Dave, Erin}, {Carol}} {
			blocked := blocked
			for _, sq := range seqs {
				hit := false
				acts := L{}
				for i, a := range sq {
					for _, b := range blocked {
						if a == b {
							hit = true
						}
					}
					switch (i + len(sq)) % 3 {
					case 1:
						acts = append(acts, Emb("Person", a))
					case 2:
						acts = append(acts, M{"type": "Mention", "href": a, "name": "@x"}) // an embedded Link-derived value named by href only
					default:
						acts = append(acts, a)
					}
				}
				want := "[200]"
				if hit {
					want = "[403]"
				}
				d := Doc("Like", RAct, "actor", val1(acts), "object", Note1)
				fams = append(fams, fam{fmt.Sprintf("inbox-actors-%v-blocked-%v", shortIDs(sq), shortIDs(blocked)),
					&Scenario{Name: "blocked-among-several", Kind: ap.Both, Entry: "PostInbox", URL: inbox(Alice), Body: d, Tweak: func(a *ap.App) {
						for _, b := range blocked {
							a.BlockedSet[b] = true
						}
					}}, want, "blocked-among-several"})
			}
		}
	}
	// long actor lists: 5..9, 12 and 17 distinct actors, exactly one blocked, at every position -> 403; nobody
	// blocked -> 200
	for _, n := range []int{5, 6, 7, 8, 9, 12, 17} {
		for p := -1; p < n; p++ {
			if n > 9 && p > 0 && p != n-1 && p%4 != 0 {
				continue
			}
			acts := L{}
			blocked := ""
			for i := 0; i < n; i++ {
				id := fmt.Sprintf("https://r1.example/u/p%d", i)
				if i == p {
					blocked = id
				}
				if i%2 == 1 {
					acts = append(acts, Emb("Person", id))
				} else {
					acts = append(acts, id)
				}
			}
			want := "[200]"
			if blocked != "" {
				want = "[403]"
			}
			b := blocked
			fams = append(fams, fam{fmt.Sprintf("inbox-%d-actors-blocked-#%d", n, p),
				&Scenario{Name: "blocked-among-many", Kind: ap.Both, Entry: "PostInbox", URL: inbox(Alice), Body: Doc("Like", RAct, "actor", acts, "object", Note1), Tweak: func(a *ap.App) {
					if b != "" {
						a.BlockedSet[b] = true
					}
				}}, want, "blocked-among-many"})
		}
	}
	rn := Emb("Note", "https://r1.example/n/10", "attributedTo", Carol, "content", "x")
	objTypes := []string{"Create", "Update", "Delete", "Follow", "Add", "Remove", "Like", "Undo", "Block"}
	absent := []struct {
		name string
		v    interface{}
		set  bool
	}{{"absent", nil, false}, {"empty-list", L{}, true}}
	for _, side := range []string{"PostInbox", "PostOutbox"} {
		for _, t := range objTypes {
			for _, ab := range absent {
				for _, member := range []string{"object", "target"} {
					if member == "target" && t != "Add" && t != "Remove" {
						continue
					}
					var d M
					if side == "PostInbox" {
						d = Doc(t, RAct, "actor", Carol, "object", rn, "target", Col1)
					} else {
						d = Doc(t, "", "actor", Alice, "object", Emb("Note", Note1, "content", "y"), "target", Col1)
					}
					if t != "Add" && t != "Remove" {
						delete(d, "target")
					}
					delete(d, member)
					if ab.set {
						d[member] = ab.v
					}
					url := inbox(Alice)
					if side == "PostOutbox" {
						url = outbox(Alice)
					}
					fams = append(fams, fam{fmt.Sprintf("%s-%s-%s-%s", side, t, member, ab.name),
						&Scenario{Name: "req/" + t, Kind: ap.Both, Entry: side, URL: url, Body: d}, "[400]", "required-" + member})
				}
			}
		}
	}
	// activity types the library has no default handling for: the APPLICATION's callback decides that
	// an object / target is required by returning the documented sentinel error
	for _, side := range []string{"PostInbox", "PostOutbox"} {
		for _, t := range []string{"Invite", "Offer", "Listen", "Like", "Add"} {
			for _, sentinel := range []error{pub.ErrObjectRequired, pub.ErrTargetRequired} {
				for _, mode := range []ap.CallbackMode{ap.CBNone, ap.CBWrapped, ap.CBOther} {
					if (t == "Like" || t == "Add") == (mode == ap.CBNone) {
						continue // handled types need an application hook to reach the application; unhandled ones reach DefaultCallback
					}
					sentinel, mode := sentinel, mode
					var d M
					url := inbox(Alice)
					if side == "PostInbox" {
						d = Doc(t, RAct, "actor", Carol, "to", Alice, "object", Note1, "target", Col1)
					} else {
						d = Doc(t, "", "actor", Alice, "to", Carol, "object", Note1, "target", Col1)
						url = outbox(Alice)
					}
					if t != "Like" && t != "Add" {
						delete(d, "object")
						delete(d, "target")
					}
					fams = append(fams, fam{fmt.Sprintf("%s-%s-application-says-%v-mode%d", side, t, sentinel == pub.ErrObjectRequired, mode),
						&Scenario{Name: "req-app/" + t, Kind: ap.Both, Entry: side, URL: url, Body: d, Tweak: func(a *ap.App) { a.CBError, a.Callbacks = sentinel, mode }}, "[400]", "required-by-application"})
				}
			}
		}
	}
	{
		var viols []c10viol
		classes := map[string]struct{}{}
		outs := map[string]int{}
		var samples []interface{}
		for _, f := range fams {
			out := f.sc.Exec(mc.NewExec(nil), false)
			if out.Panic != nil {
				outs["panic(C11)"]++
				continue
			}
			st := statusOf(out)
			outs[st]++
			classes[f.name] = struct{}{}
			if msg := trichotomy(out, 0); msg != "" {
				viols = append(viols, c10viol{"outcome-not-exactly-once|" + f.class, f.name + ": " + msg, M{"check": "C10", "family": f.name, "body": f.sc.Body}})
			}
			if st != f.want {
				key := fmt.Sprintf("wrong-status|%s|%s", f.class, strings.TrimPrefix(f.name, "inbox-id-"))
				if f.class != "usable-id" {
					key = fmt.Sprintf("wrong-status|%s|%s", f.class, f.name)
				}
				viols = append(viols, c10viol{key, fmt.Sprintf("%s: outcome %s (err=%v), documented %s", f.name, st, out.Err, f.want),
					M{"check": "C10", "family": f.name, "body": f.sc.Body}})
			}
			if len(samples) < 2 {
				samples = append(samples, M{"family": f.name, "body": f.sc.Body, "outcome": st})
			}
		}
		add(len(fams), classes, outs, viols, samples)
	}

	// ---- part 3: the corpus with single (thorough: double) faults -------------------------------
	bound := 1
	if res.Thorough() {
		bound = 2
	}
	corpus := append(append(CorpusWithHooks(), HistoryCorpus()...), TypeCorpus()...)
	// (and every corpus request with one body node replaced by an unusual but legal value, single faults)
	nPlain := len(corpus)
	faulted := append(append([]*Scenario(nil), corpus...), MutatedCorpus()...)
	parallel(len(faulted), func(i int) {
		sc := faulted[i]
		bound := bound
		if i >= nPlain {
			bound = 1
		}
		var viols []c10viol
		classes := map[string]struct{}{}
		outs := map[string]int{}
		var samples []interface{}
		evals := 0
		free := sc.Exec(mc.NewExec(nil), false)
		freeSt := statusOf(free)
		e := &mc.Explorer{}
		e.Budget = [3]int{0, bound, 0}
		e.Run = func(x *mc.Exec) bool {
			out := sc.Exec(x, true)
			evals++
			if out.Panic != nil {
				outs["panic(C11)"]++
				return true
			}
			f := faultOps(x)
			st := statusOf(out)
			outs[st]++
			classes[fmt.Sprintf("%s|%v", sc.Name, x.Choices())] = struct{}{}
			rep := M{"check": "C10", "scenario": sc.Name, "choices": x.Choices(), "faults": f}
			if msg := trichotomy(out, 0); msg != "" && sc.Entry != "Send" { // Send is programmatic: no ResponseWriter
				viols = append(viols, c10viol{fmt.Sprintf("outcome-not-exactly-once|%s|faults=%s", sc.Entry, strings.Join(f, ",")),
					fmt.Sprintf("scenario %s faults %v: %s", sc.Name, f, msg), rep})
			}
			if out.Err == nil && out.Handled && st != freeSt && freeSt != "error" {
				viols = append(viols, c10viol{fmt.Sprintf("wrong-status-under-fault|%s|faults=%s", sc.Entry, strings.Join(f, ",")),
					fmt.Sprintf("scenario %s faults %v: status %s but fault-free run gives %s", sc.Name, f, st, freeSt), rep})
			}
			if out.Err == nil && st == "[201]" {
				if msg := locationOK(out, sc.URL); msg != "" {
					viols = append(viols, c10viol{fmt.Sprintf("bad-location|faults=%s", strings.Join(f, ",")), fmt.Sprintf("scenario %s faults %v: %s", sc.Name, f, msg), rep})
				}
			}
			if len(samples) < 1 && len(f) == 1 && i%12 == 0 {
				samples = append(samples, M{"scenario": sc.Name, "fault_at": f, "outcome": st})
			}
			return true
		}
		e.Explore()
		add(evals, classes, outs, viols, samples)
	})
	// ---- part 4: the ...Scheme entry points ------------------------------------------------------
	// Every corpus scenario again in a world whose own IRIs are http://..., through PostInboxScheme /
	// PostOutboxScheme / NewActivityStreamsHandlerScheme with scheme "http": outcome, status, Location
	// and final state must be those of the https run (modulo the scheme), also under single faults.
	nScheme := 0
	parallel(len(corpus), func(i int) {
		base := corpus[i]
		if base.Entry == "Send" {
			return
		}
		alt := *base
		alt.Name += " [scheme=http]"
		alt.Scheme = "http"
		var viols []c10viol
		classes := map[string]struct{}{}
		outs := map[string]int{}
		evals := 0
		ref := base.Exec(mc.NewExec(nil), false)
		got := alt.Exec(mc.NewExec(nil), false)
		evals += 2
		rep := M{"check": "C10", "scenario": alt.Name, "part": "scheme"}
		if ref.Panic == nil && got.Panic == nil {
			norm := func(s string) string { return strings.ReplaceAll(s, "http://l.example", "https://l.example") }
			if statusOf(ref) != statusOf(got) {
				viols = append(viols, c10viol{"scheme-variant-differs|outcome|" + base.Entry, fmt.Sprintf("scenario %s: through the Scheme entry point (http world) the outcome is %s (err=%v), through the default entry point (https world) %s", base.Name, statusOf(got), got.Err, statusOf(ref)), rep})
			} else if ref.App.Canonical() != norm(got.App.Canonical()) {
				viols = append(viols, c10viol{"scheme-variant-differs|state|" + base.Entry, fmt.Sprintf("scenario %s: the final state reached through the Scheme entry point differs from the default entry point's (modulo the scheme)", base.Name), rep})
			} else if string(ref.W.Body()) != norm(string(got.W.Body())) {
				viols = append(viols, c10viol{"scheme-variant-differs|body|" + base.Entry, fmt.Sprintf("scenario %s: served body differs: %s vs %s", base.Name, got.W.Body(), ref.W.Body()), rep})
			}
			if got.Err == nil && statusOf(got) == "[201]" {
				if msg := locationOK(got, got.App.RewriteLocal(alt.URL)); msg != "" {
					viols = append(viols, c10viol{"bad-location|scheme", fmt.Sprintf("scenario %s: %s", alt.Name, msg), rep})
				}
			}
			classes[alt.Name] = struct{}{}
			outs["scheme:"+statusOf(got)]++
		}
		// the same scenario in a world whose local inboxes / outboxes live at query-routed IRIs
		// (https://l.example/box?inbox-of=alice): same outcome, status, body and final state modulo the renaming
		{
			ep := *base
			ep.Name += " [query-routed endpoints]"
			ep.AltEndpoints = true
			g2 := ep.Exec(mc.NewExec(nil), false)
			evals++
			rep2 := M{"check": "C10", "scenario": ep.Name, "part": "endpoints"}
			if ref.Panic == nil && g2.Panic == nil {
				id := func(s string) string { return s }
				if statusOf(ref) != statusOf(g2) {
					viols = append(viols, c10viol{"endpoint-variant-differs|outcome|" + base.Entry, fmt.Sprintf("scenario %s: with query-routed inbox / outbox IRIs the outcome is %s (err=%v), with plain ones %s", base.Name, statusOf(g2), g2.Err, statusOf(ref)), rep2})
				} else if ref.App.CanonicalLines(id) != g2.App.CanonicalLines(g2.App.PlainEndpoints) {
					viols = append(viols, c10viol{"endpoint-variant-differs|state|" + base.Entry, fmt.Sprintf("scenario %s: the final state with query-routed inbox / outbox IRIs differs from the one with plain IRIs (modulo the renaming)", base.Name), rep2})
				} else if string(ref.W.Body()) != g2.App.PlainEndpoints(string(g2.W.Body())) {
					viols = append(viols, c10viol{"endpoint-variant-differs|body|" + base.Entry, fmt.Sprintf("scenario %s: served body differs: %s vs %s", base.Name, g2.W.Body(), ref.W.Body()), rep2})
				}
				classes[ep.Name] = struct{}{}
				outs["endpoints:"+statusOf(g2)]++
			}
		}
		// the scheme an outbox is served under and the scheme of the ids the application mints are
		// independent: http endpoint minting https ids, https endpoint minting http ids
		if base.Entry == "PostOutbox" && ref.Panic == nil {
			for _, mix := range []struct{ endpoint, ids string }{{"http", "https"}, {"https", "http"}} {
				mix := mix
				m := *base
				m.Name += fmt.Sprintf(" [endpoint scheme=%s, minted ids=%s]", mix.endpoint, mix.ids)
				m.Scheme = mix.endpoint
				inner := base.Tweak
				m.Tweak = func(a *ap.App) {
					if inner != nil {
						inner(a)
					}
					a.IDScheme = mix.ids
				}
				o := m.Exec(mc.NewExec(nil), false)
				evals++
				if o.Panic != nil {
					continue
				}
				classes[m.Name] = struct{}{}
				if statusOf(o) != statusOf(ref) {
					viols = append(viols, c10viol{"scheme-variant-differs|outcome|mixed-schemes", fmt.Sprintf("scenario %s: outcome %s (err=%v), with matching schemes %s", m.Name, statusOf(o), o.Err, statusOf(ref)), M{"check": "C10", "scenario": m.Name, "part": "scheme"}})
				} else if o.Err == nil && statusOf(o) == "[201]" {
					if msg := locationOK(o, o.App.RewriteLocal(m.URL)); msg != "" {
						viols = append(viols, c10viol{"bad-location|mixed-schemes", fmt.Sprintf("scenario %s: %s", m.Name, msg), M{"check": "C10", "scenario": m.Name, "part": "scheme"}})
					}
				}
			}
		}
		e := &mc.Explorer{}
		e.Budget = [3]int{0, 1, 0}
		e.Run = func(x *mc.Exec) bool {
			out := alt.Exec(x, true)
			evals++
			if out.Panic != nil {
				return true
			}
			f := faultOps(x)
			if msg := trichotomy(out, 0); msg != "" {
				viols = append(viols, c10viol{fmt.Sprintf("outcome-not-exactly-once|%s|scheme|faults=%s", alt.Entry, strings.Join(f, ",")),
					fmt.Sprintf("scenario %s faults %v: %s", alt.Name, f, msg), M{"check": "C10", "scenario": alt.Name, "choices": x.Choices(), "faults": f}})
			}
			return true
		}
		e.Explore()
		mu.Lock()
		nScheme++
		mu.Unlock()
		add(evals, classes, outs, viols, nil)
	})
	getHistories(res, "C10", map[bool]int{false: 3, true: 4}[res.Thorough()])
	res.Extra["scheme_variant_scenarios"] = nScheme
	res.Extra["fault_bound_completed"] = bound
	res.Extra["request_product"] = len(cases)
	res.Extra["id_and_required_member_cases"] = len(fams)
	res.Rule = fmt.Sprintf("(1) C07's request product (%d requests); (2) %d inbox/outbox bodies varying 'id' over {absent,null,\"\",number,object,array,relative,absolute-path,absolute IRI} and object/target over {absent,[]} for every type that requires them, multi-valued 'type' members mixing unknown extension types with a known one (400 only if no entry names a known type), every sequence of 1..3 (thorough 4) actors - IRI / embedded Person / Mention named by href only in turn - over three peers of which the application blocks a subset (403 iff one of them is blocked), lists of 5..9, 12 and 17 distinct actors with exactly one blocked at every position, and activities whose application callback (DefaultCallback for unhandled types, a wrapped or 'other' hook for handled ones) answers with the documented ErrObjectRequired / ErrTargetRequired sentinel; (3) each of %d corpus scenarios (incl. application hooks that log / fail / re-enter, and every POST scenario started from the state an earlier request of the same kind left behind) fault-free and with every choice of <= %d failing seam calls, and every corpus request with one body node removed, emptied or replaced by a value of another legal shape, fault-free and under every single fault; (4) each corpus scenario again through PostInboxScheme / PostOutboxScheme / NewActivityStreamsHandlerScheme in a world whose own IRIs are http://: same outcome, status, Location, body and final state as the default entry point (modulo the scheme), trichotomy under single faults; each corpus scenario again in a world whose local inboxes / outboxes live at query-routed IRIs (…/box?inbox-of=alice): same outcome, served body and final state modulo the renaming; every outbox scenario also with the endpoint scheme and the scheme of the minted ids differing (http / https and https / http): same status, Location = newest outbox entry = stored id; (5) every sequence of 2-3 (thorough 4) read requests over {handler: live value, Tombstone, value with collections, missing, value with hidden recipients, non-ActivityPub; GetInbox; GetOutbox} on ONE application and one handler value, each answered as when served alone; oracle = counting ResponseWriter + return values; distinct = (case class, outcome) or (scenario, choice list)", len(cases), len(fams), len(corpus), bound)
	res.Assumptions = []string{"a denying Authenticate* writes its own 401 (counted as the one status of that request)", "ResponseWriter itself never fails",
		"Announce/Accept/Reject without object are not asserted (neither code nor documentation requires one)"}
	return res.Finish()
}
