package checks

import (
	"context"
	"encoding/json"
	"fmt"
	"github.com/go-fed/activity/streams/vocab"
	"os"
	"runtime"
	"sort"
	"strings"
	"sync"
	"time"

	"github.com/go-fed/activity/streams"

	ap "verif/apmodel"
	"verif/mc"
	"verif/onto"
)

// ---- JSON node enumeration and mutation ----------------------------------------------------

type jpath []interface{} // string = member name, int = array index

func (p jpath) String() string {
	var sb strings.Builder
	for _, e := range p {
		switch x := e.(type) {
		case string:
			sb.WriteString("/" + x)
		case int:
			sb.WriteString("/#") // index positions are not part of the key
			_ = x
		}
	}
	return sb.String()
}

func walkNodes(v interface{}, cur jpath, out *[]jpath) {
	switch x := v.(type) {
	case map[string]interface{}:
		keys := make([]string, 0, len(x))
		for k := range x {
			keys = append(keys, k)
		}
		sort.Strings(keys)
		for _, k := range keys {
			np := append(append(jpath{}, cur...), k)
			*out = append(*out, np)
			walkNodes(x[k], np, out)
		}
	case []interface{}:
		for i := range x {
			np := append(append(jpath{}, cur...), i)
			*out = append(*out, np)
			walkNodes(x[i], np, out)
		}
	}
}

func deepCopy(v interface{}) interface{} {
	b, _ := json.Marshal(v)
	var o interface{}
	json.Unmarshal(b, &o)
	return o
}

type mutOp struct {
	name string
	val  interface{}
	del  bool
}

const (
	iriMissing    = "https://r9.example/missing"
	iriIllTyped   = "https://r9.example/ill-typed"
	iriIncomplete = "https://r9.example/incomplete"
	iriUnknown    = "https://r9.example/unknown-type"
	iriGarbled    = "https://r9.example/garbled"
	iriCycle      = "https://r9.example/cycle"
	iriBareActor  = "https://r9.example/actor-without-anything"
	iriReplyA     = "https://r9.example/reply-cycle/a"
	iriReplyB     = "https://r9.example/reply-cycle/b"
)

var mutOps = []mutOp{
	{name: "remove", del: true},
	{name: "null", val: nil},
	{name: "empty-string", val: ""},
	{name: "empty-list", val: []interface{}{}},
	{name: "empty-object", val: map[string]interface{}{}},
	{name: "number", val: 7.0},
	{name: "bool", val: true},
	{name: "list-of-null", val: []interface{}{nil}},
	{name: "object-without-id", val: map[string]interface{}{"type": "Note"}},
	{name: "object-unknown-type", val: map[string]interface{}{"type": "Frob", "id": "https://r9.example/f"}},
	{name: "typeless-object", val: map[string]interface{}{"name": "x"}},
	{name: "iri-missing", val: iriMissing},
	{name: "iri-ill-typed", val: iriIllTyped},
	{name: "iri-incomplete", val: iriIncomplete},
	{name: "iri-unknown-type", val: iriUnknown},
	{name: "iri-garbled", val: iriGarbled},
	{name: "iri-cycle", val: iriCycle},
	{name: "iri-reply-cycle", val: iriReplyA},
	{name: "relative-iri", val: "just/a/path"},
	{name: "public", val: "Public"},
	{name: "link-href-only", val: map[string]interface{}{"type": "Link", "href": "https://r1.example/n/linked"}},
	{name: "mention-href-only", val: map[string]interface{}{"type": "Mention", "href": "https://r1.example/u/carol", "name": "@carol"}},
	{name: "link-id-and-href", val: map[string]interface{}{"type": "Link", "id": "https://r1.example/l/1", "href": "https://r2.example/n/elsewhere"}},
	{name: "list-of-two", val: []interface{}{"https://r1.example/n/one", map[string]interface{}{"type": "Note", "id": "https://r1.example/n/two"}}},
}

// legalOps are the operators that put an unusual but LEGAL value in place of a node; they are combined
// with seam faults (a failure path that meets an unusual value).
var legalOps = map[string]bool{"remove": true, "empty-list": true, "object-without-id": true, "typeless-object": true, "iri-missing": true,
	"link-href-only": true, "mention-href-only": true, "link-id-and-href": true, "list-of-two": true}

// mutate applies op at path to a copy of doc.
func mutate(doc interface{}, p jpath, op mutOp) interface{} {
	c := deepCopy(doc)
	if len(p) == 0 {
		return c
	}
	var parent interface{} = c
	for _, e := range p[:len(p)-1] {
		switch x := e.(type) {
		case string:
			parent = parent.(map[string]interface{})[x]
		case int:
			parent = parent.([]interface{})[x]
		}
	}
	switch last := p[len(p)-1].(type) {
	case string:
		m := parent.(map[string]interface{})
		if op.del {
			delete(m, last)
		} else {
			m[last] = deepCopy(op.val)
		}
	case int:
		l := parent.([]interface{})
		if op.del {
			// removing an array element: replace the array in the grandparent is awkward; null it instead
			l[last] = nil
		} else {
			l[last] = deepCopy(op.val)
		}
	}
	return c
}

// hostileRemotes registers the special documents the IRI operators point at.
func hostileRemotes(a *ap.App) {
	a.PutRemote(iriIllTyped, Doc("Note", iriIllTyped, "content", "not what you expected"))
	a.PutRemote(iriIncomplete, Doc("Person", iriIncomplete))
	a.PutRemote(iriBareActor, M{"type": "Person"})
	a.PutRemote(iriUnknown, Doc("Frobnicate", iriUnknown, "inbox", "https://r9.example/inbox"))
	a.Remote[iriGarbled] = []byte("{\"type\": \"Person\", \"inbox\": ")
	a.PutRemote(iriCycle, Doc("Collection", iriCycle, "items", L{iriCycle, iriIncomplete, iriMissing}))
	// two foreign notes replying to each other: a reply chain that never ends
	a.PutRemote(iriReplyA, Doc("Note", iriReplyA, "content", "a", "inReplyTo", iriReplyB, "tag", iriReplyB))
	a.PutRemote(iriReplyB, Doc("Create", iriReplyB, "actor", Carol, "object", iriReplyA, "target", iriReplyA))
}

// ---- panic attribution -----------------------------------------------------------------------

var srcCache sync.Map

// sourceLine returns the trimmed text of a "file.go:NN" position inside /repo.
func sourceLine(fn, fileLine string) string {
	// fn is like "pub.(*sideEffectActor).prepare" or "streams/values/duration.DeserializeDuration"
	dir := fn
	if i := strings.LastIndex(dir, "/"); i >= 0 {
		dir = dir[:i+1] + strings.SplitN(dir[i+1:], ".", 2)[0]
	} else {
		dir = strings.SplitN(dir, ".", 2)[0]
	}
	parts := strings.SplitN(fileLine, ":", 2)
	if len(parts) != 2 {
		return ""
	}
	var line int
	fmt.Sscan(parts[1], &line)
	path := repoDir() + "/" + dir + "/" + parts[0]
	var lines []string
	if c, ok := srcCache.Load(path); ok {
		lines = c.([]string)
	} else {
		b, err := os.ReadFile(path)
		if err != nil {
			return ""
		}
		lines = strings.Split(string(b), "\n")
		srcCache.Store(path, lines)
	}
	if line < 1 || line > len(lines) {
		return ""
	}
	return strings.TrimSpace(lines[line-1])
}

func repoDir() string {
	if r := os.Getenv("VERIF_REPO"); r != "" {
		return r
	}
	return "/repo"
}

func panicKey(site, fileLine string) string {
	return fmt.Sprintf("panic|%s|%s", NormSite(site), sourceLine(site, fileLine))
}

// ---- decoder part ------------------------------------------------------------------------------

var junk = []interface{}{nil, "", "-", "P", " ", ":", "%zz", "a:b", "http://", "https://x.example/ok", 0.0, -1.0, 1e308, 1.5, true, false,
	[]interface{}{}, []interface{}{[]interface{}{}}, []interface{}{nil}, []interface{}{""}, map[string]interface{}{}, map[string]interface{}{"type": 5.0},
	map[string]interface{}{"type": []interface{}{}}, map[string]interface{}{"@context": 5.0}, map[string]interface{}{"en": 5.0}, map[string]interface{}{"en": "x"},
	map[string]interface{}{"type": "Note", "id": 5.0}, map[string]interface{}{"id": "https://x.example/i"}, "2020-13-45T99:99:99Z", "PT", "P1", "-P", "PTS", "T", "P-1Y"}

func deepNest(n int) interface{} {
	var v interface{} = "leaf"
	for i := 0; i < n; i++ {
		if i%2 == 0 {
			v = []interface{}{v}
		} else {
			v = map[string]interface{}{"type": "Note", "object": v}
		}
	}
	return v
}

type decOut struct {
	Evals  int               `json:"evals"`
	Panics map[string]string `json:"panics"` // key -> what
	Reps   map[string]M      `json:"reps"`
	Sample interface{}       `json:"sample"`
}

// rt4 runs decode -> encode -> decode -> encode and reports a panic.
func rt4(m map[string]interface{}) (site, line string, val interface{}) {
	defer func() {
		if r := recover(); r != nil {
			val = r
			site, line = panicSiteHere()
		}
	}()
	cur := m
	for i := 0; i < 2; i++ {
		t, err := streams.ToType(context.Background(), cur)
		if err != nil || t == nil {
			return
		}
		out, err := streams.Serialize(t)
		if err != nil {
			return
		}
		b, err := json.Marshal(out)
		if err != nil {
			return
		}
		cur = nil
		json.Unmarshal(b, &cur)
	}
	return
}

func panicSiteHere() (string, string) {
	pcs := make([]uintptr, 64)
	n := runtime.Callers(3, pcs)
	fr := runtime.CallersFrames(pcs[:n])
	for {
		f, more := fr.Next()
		if strings.HasPrefix(f.Function, "github.com/go-fed/activity/") {
			return strings.TrimPrefix(f.Function, "github.com/go-fed/activity/"), fmt.Sprintf("%s:%d", f.File[strings.LastIndex(f.File, "/")+1:], f.Line)
		}
		if !more {
			break
		}
	}
	return "?", "?"
}

func decoderPart(o *onto.Onto, thorough bool) *decOut {
	out := &decOut{Panics: map[string]string{}, Reps: map[string]M{}}
	var ctxs []interface{}
	for _, v := range o.Vocabs {
		ctxs = append(ctxs, v.URI)
	}
	members := map[string]bool{"type": true, "id": true, "@context": true}
	for _, pk := range o.PropKeys() {
		members[o.Props[pk].Name] = true
		members[o.Props[pk].Name+"Map"] = true
	}
	var names []string
	for k := range members {
		names = append(names, k)
	}
	sort.Strings(names)
	alphabet := append([]interface{}{}, junk...)
	alphabet = append(alphabet, deepNest(200))
	var mu sync.Mutex
	types := o.TypeKeys()
	parallel(len(types), func(ti int) {
		tk := types[ti]
		evals := 0
		local := map[string]string{}
		reps := map[string]M{}
		for _, name := range names {
			for _, j := range alphabet {
				for _, shape := range []string{"scalar", "list"} {
					doc := map[string]interface{}{"@context": ctxs, "type": o.Types[tk].Name, "id": "https://x.example/d"}
					var v interface{} = deepCopy(j)
					if shape == "list" {
						v = []interface{}{v, "https://x.example/second"}
					}
					doc[name] = v
					evals++
					if site, line, val := rt4(doc); val != nil {
						k := panicKey(site, line)
						if _, ok := local[k]; !ok {
							local[k] = fmt.Sprintf("decoding %s panics: %v (at %s %s)", shortJSON(doc), val, site, line)
							reps[k] = M{"check": "C11", "part": "decoder", "doc": doc}
						}
					}
				}
			}
		}
		mu.Lock()
		out.Evals += evals
		for k, v := range local {
			out.Panics[k] = v
			out.Reps[k] = reps[k]
		}
		mu.Unlock()
	})
	// every example of the vocabulary files with one (thorough: two) members mutated
	for ei, ex := range o.Examples {
		var paths []jpath
		walkNodes(ex, nil, &paths)
		tryDoc := func(d interface{}, what string) {
			m, ok := d.(map[string]interface{})
			if !ok {
				return
			}
			out.Evals++
			if site, line, val := rt4(m); val != nil {
				k := panicKey(site, line)
				if _, ok := out.Panics[k]; !ok {
					out.Panics[k] = fmt.Sprintf("decoding vocabulary example %d with %s panics: %v (at %s %s)", ei, what, val, site, line)
					out.Reps[k] = M{"check": "C11", "part": "decoder-example", "doc": m}
				}
			}
		}
		tryDoc(deepCopy(ex), "no change")
		for pi, p := range paths {
			for _, op := range mutOps {
				d1 := mutate(ex, p, op)
				tryDoc(d1, p.String()+" "+op.name)
				if thorough && ei%4 == 0 {
					for _, p2 := range paths[pi+1:] {
						if len(p2) > len(p) && fmt.Sprint(p2[:len(p)]) == fmt.Sprint(p) {
							continue // inside the node just replaced
						}
						for _, op2 := range []mutOp{mutOps[1], mutOps[4], mutOps[5]} {
							func() {
								defer func() { recover() }()
								tryDoc(mutate(d1, p2, op2), p.String()+" "+op.name+" + "+p2.String()+" "+op2.name)
							}()
						}
					}
				}
			}
		}
	}
	out.Sample = M{"part": "decoder", "type": "Note", "member": "duration", "junk": "-", "shape": "scalar"}
	return out
}

func shortJSON(v interface{}) string {
	b, _ := json.Marshal(v)
	s := string(b)
	if len(s) > 260 {
		s = s[:260] + "..."
	}
	return s
}

// ---- handler part ------------------------------------------------------------------------------

type shardAbort struct{}

// watchdog bounds one request (normal requests take well under a millisecond).
var watchdog = 60 * time.Second

// spinningSite finds, in a dump of all goroutines, the innermost and the outermost library frame
// of the goroutine that is executing a scenario request (the outermost one - the entry point the
// request went through - is stable from sample to sample and is used in violation keys).
func spinningSite() (inner, outer string) {
	inner, outer = "?", "?"
	buf := make([]byte, 1<<20)
	n := runtime.Stack(buf, true)
	for _, g := range strings.Split(string(buf[:n]), "\n\n") {
		if !strings.Contains(g, "checks.(*Scenario).OnReq") {
			continue
		}
		first := true
		for _, line := range strings.Split(g, "\n") {
			if strings.HasPrefix(line, "github.com/go-fed/activity/") {
				f := strings.TrimPrefix(line, "github.com/go-fed/activity/")
				if i := strings.LastIndex(f, "("); i > 0 {
					f = f[:i]
				}
				if first {
					inner, first = f, false
				}
				outer = f
			}
		}
		if !first {
			return
		}
	}
	return
}

type hOut struct {
	Inexhaustive bool              `json:"inexhaustive"`
	Aborted      bool              `json:"aborted"`
	Scenario     string            `json:"scenario"`
	Evals        int               `json:"evals"`
	Classes      int               `json:"classes"`
	Viols        map[string]string `json:"viols"`
	Reps         map[string]M      `json:"reps"`
	Outcomes     map[string]int    `json:"outcomes"`
	Sample       interface{}       `json:"sample"`
}

// docsRead lists the stored / remote documents a fault-free run reads.
func docsRead(a *ap.App) (store, remote []string) {
	seenS, seenR := map[string]bool{}, map[string]bool{}
	for _, c := range a.Log {
		switch c.Op {
		case "DB.Get":
			if !seenS[c.Arg] {
				seenS[c.Arg] = true
				store = append(store, c.Arg)
			}
		case "DB.Followers", "DB.Following", "DB.Liked":
			id := c.Arg + "/" + strings.ToLower(strings.TrimPrefix(c.Op, "DB."))
			if !seenS[id] {
				seenS[id] = true
				store = append(store, id)
			}
		case "T.Dereference":
			if !seenR[c.Arg] {
				seenR[c.Arg] = true
				remote = append(remote, c.Arg)
			}
		}
	}
	return
}

func handlerPart(sc *Scenario, thorough bool) (out *hOut) {
	out = &hOut{Scenario: sc.Name, Viols: map[string]string{}, Reps: map[string]M{}, Outcomes: map[string]int{}}
	classes := map[string]struct{}{}
	defer func() {
		if r := recover(); r != nil {
			if _, ok := r.(shardAbort); !ok {
				panic(r)
			}
			out.Classes = len(classes)
		}
	}()
	var runX func(target, where, opname string, tweak func(a *ap.App), body []byte, x *mc.Exec)
	run := func(target, where, opname string, tweak func(a *ap.App), body []byte) {
		runX(target, where, opname, tweak, body, nil)
	}
	runX = func(target, where, opname string, tweak func(a *ap.App), body []byte, x *mc.Exec) {
		s2 := *sc
		base := sc.Tweak
		s2.Tweak = func(a *ap.App) {
			if base != nil {
				base(a)
			}
			hostileRemotes(a)
			a.MaxCalls = 3000
			if tweak != nil {
				tweak(a)
			}
		}
		if body != nil {
			s2.Raw = body
			s2.Body = nil
		}
		var o *RunOut
		done := make(chan struct{})
		go func() {
			defer close(done)
			if x != nil {
				o = s2.Exec(x, true)
			} else {
				o = s2.Exec(mc.NewExec(nil), false)
			}
		}()
		select {
		case <-done:
		case <-time.After(watchdog):
			// the request spins without making a seam call: it cannot be stopped, so the shard
			// reports what it has and ends here
			site, entryFrame := spinningSite()
			k := fmt.Sprintf("no-return|%s|%s", sc.Entry, NormSite(entryFrame))
			out.Viols[k] = fmt.Sprintf("scenario %s, %s %s -> %s: the request did not return within %v and makes no further seam call (spinning in %s)", sc.Name, target, where, opname, watchdog, site)
			rep := M{"check": "C11", "part": "handler", "scenario": sc.Name, "target": target, "path": where, "operator": opname}
			if body != nil {
				rep["body"] = json.RawMessage(body)
			}
			out.Reps[k] = rep
			out.Outcomes["no-return"]++
			out.Aborted = true
			panic(shardAbort{})
		}
		out.Evals++
		rep := M{"check": "C11", "part": "handler", "scenario": sc.Name, "target": target, "path": where, "operator": opname}
		if x != nil {
			f := faultOps(x)
			if len(f) == 0 {
				out.Evals--
				return // the fault-free run of this input is counted where it is made without the explorer
			}
			opname += "+fault:" + strings.Join(f, ",")
			rep["choices"], rep["faults"] = x.Choices(), f
		}
		classes[target+"|"+where+"|"+opname] = struct{}{}
		if body != nil {
			rep["body"] = json.RawMessage(body)
		}
		if o.Panic != nil {
			if h, ok := o.Panic.(ap.HorizonExceeded); ok {
				k := fmt.Sprintf("no-return|%s|%s", sc.Entry, lastLibOp(o.App))
				out.Viols[k] = fmt.Sprintf("scenario %s, %s %s -> %s: more than %d seam calls, the request does not return", sc.Name, target, where, opname, h.Calls)
				out.Reps[k] = rep
				out.Outcomes["no-return"]++
				return
			}
			k := panicKey(o.PanicSite, o.PanicLine)
			if _, ok := out.Viols[k]; !ok {
				out.Viols[k] = fmt.Sprintf("scenario %s, %s %s -> %s: panic %v at %s %s", sc.Name, target, where, opname, o.Panic, o.PanicSite, o.PanicLine)
				out.Reps[k] = rep
			}
			out.Outcomes["panic"]++
			return
		}
		switch {
		case o.Err != nil:
			out.Outcomes["error"]++
		case len(o.W.Statuses) > 0:
			out.Outcomes[fmt.Sprint(o.W.Statuses[0])]++
		default:
			out.Outcomes["ok"]++
		}
	}
	// fault-free run to learn which documents are read
	free := sc.Exec(mc.NewExec(nil), false)
	store, remote := docsRead(free.App)
	run("none", "", "none", nil, nil)
	// the Content-Length a POST declares (the body is the ordinary one): unknown, zero, off by one, absurdly large
	if sc.Entry == "PostInbox" || sc.Entry == "PostOutbox" {
		for _, dl := range []int64{-1, 1, int64(len(ap.MustJSON(sc.Body))) - 1, int64(len(ap.MustJSON(sc.Body))) + 1, 1 << 20, 1 << 31, 1 << 40, 1 << 62, 9223372036854775807} {
			if sc.Body == nil {
				break
			}
			dl := dl
			func() {
				saved := sc.DeclLen
				sc.DeclLen = dl
				defer func() { sc.DeclLen = saved }()
				run("request", "Content-Length", fmt.Sprint(dl), nil, nil)
			}()
		}
	}
	// recursion limits
	for _, lim := range []int{1, 2, 4} {
		lim := lim
		run("config", "recursion-limits", fmt.Sprint(lim), func(a *ap.App) { a.MaxFwdDepth, a.MaxDeliverDepth = lim, lim }, nil)
	}
	type target struct {
		name string
		doc  interface{}
		put  func(a *ap.App, mutated interface{})
	}
	var targets []target
	if sc.Body != nil {
		targets = append(targets, target{name: "body", doc: deepCopy(sc.Body)})
	}
	w := sc.World()
	for _, id := range store {
		id := id
		if b, ok := w.Store[id]; ok {
			var d interface{}
			json.Unmarshal(b, &d)
			targets = append(targets, target{name: "stored:" + collClass(id), doc: d, put: func(a *ap.App, m interface{}) { a.Store[id] = ap.MustJSON(m) }})
		}
	}
	for _, id := range remote {
		id := id
		if b, ok := w.Remote[id]; ok {
			var d interface{}
			json.Unmarshal(b, &d)
			targets = append(targets, target{name: "remote:" + remoteClass(id), doc: d, put: func(a *ap.App, m interface{}) { a.Remote[id] = ap.MustJSON(m) }})
		}
	}
	if sc.Entry == "GetInbox" || sc.Entry == "GetOutbox" {
		// the page the application supplies is a stored value too: hostile items inside it
		page := Doc("OrderedCollectionPage", sc.URL+"?page=1", "partOf", sc.URL, "orderedItems", L{
			"https://r1.example/act/a",
			Emb("Create", "https://r1.example/act/b", "actor", Carol, "object", Emb("Note", "https://r1.example/n/b", "content", "b")),
			Emb("Note", "https://r1.example/n/c", "content", "c"),
			"https://r1.example/act/a",
			Emb("Link", "", "href", "https://r1.example/act/b"),
			Emb("Create", "https://r1.example/act/b", "actor", Carol, "object", "https://r1.example/n/b"),
		})
		var d interface{}
		json.Unmarshal(ap.MustJSON(page), &d)
		targets = append(targets, target{name: "served-page", doc: d, put: func(a *ap.App, m interface{}) {
			t, err := ap.Decode(ap.MustJSON(m))
			if err != nil {
				return
			}
			pg, ok := t.(vocab.ActivityStreamsOrderedCollectionPage)
			if !ok {
				return // the application cannot supply this value as a page
			}
			a.ServePage = func(string) (vocab.ActivityStreamsOrderedCollectionPage, error) { return pg, nil }
		}})
	}
	for _, tg := range targets {
		tg := tg
		var paths []jpath
		walkNodes(tg.doc, nil, &paths)
		for pi, p := range paths {
			for _, op := range mutOps {
				m1 := mutate(tg.doc, p, op)
				apply := func(m interface{}) {
					if tg.put == nil {
						run(tg.name, p.String(), op.name, nil, ap.MustJSON(m))
					} else {
						run(tg.name, p.String(), op.name, func(a *ap.App) { tg.put(a, m) }, nil)
					}
				}
				apply(m1)
				if thorough {
					for _, p2 := range paths[pi+1:] {
						if len(p2) > len(p) && fmt.Sprint(p2[:len(p)]) == fmt.Sprint(p) {
							continue
						}
						for _, op2 := range []mutOp{mutOps[0], mutOps[1], mutOps[8]} {
							func() {
								defer func() { recover() }()
								m2 := mutate(m1, p2, op2)
								if tg.put == nil {
									run(tg.name, p.String()+"+"+p2.String(), op.name+"+"+op2.name, nil, ap.MustJSON(m2))
								} else {
									run(tg.name, p.String()+"+"+p2.String(), op.name+"+"+op2.name, func(a *ap.App) { tg.put(a, m2) }, nil)
								}
							}()
						}
					}
				}
			}
		}
		// whole-document replacements
		for _, whole := range []struct {
			n string
			b []byte
		}{{"not-json", []byte("{nope")}, {"json-array", []byte("[1,2]")}, {"json-string", []byte("\"x\"")}, {"empty", []byte("")}, {"json-null", []byte("null")},
			{"no-type", []byte(`{"@context":"https://www.w3.org/ns/activitystreams","id":"https://r1.example/x"}`)}} {
			whole := whole
			if tg.put == nil {
				run(tg.name, "/", whole.n, nil, whole.b)
			} else if strings.HasPrefix(tg.name, "remote:") {
				id := remote[0]
				for _, rid := range remote {
					if "remote:"+remoteClass(rid) == tg.name {
						id = rid
					}
				}
				run(tg.name, "/", whole.n, func(a *ap.App) { a.Remote[id] = whole.b }, nil)
			}
		}
	}
	// faults x unusual-but-legal inputs: the unmutated request and every body node replaced by a legal
	// unusual value (thorough: every operator, and the documents read as well), each with every single
	// seam call failing - error paths are where a value of unexpected shape is touched without a check
	faultRuns := func(tg target, where, opname string, m interface{}) {
		e := &mc.Explorer{}
		e.Budget = [3]int{0, 1, 0}
		e.Run = func(x *mc.Exec) bool {
			if tg.put == nil {
				var b []byte
				if m != nil {
					b = ap.MustJSON(m)
				}
				runX(tg.name, where, opname, nil, b, x)
			} else {
				runX(tg.name, where, opname, func(a *ap.App) { tg.put(a, m) }, nil, x)
			}
			return true
		}
		e.Explore()
		if !e.Exhaustive {
			out.Inexhaustive = true
		}
	}
	faultRuns(target{name: "none"}, "", "none", nil)
	for _, tg := range targets {
		if tg.put != nil && !thorough {
			continue
		}
		var paths []jpath
		walkNodes(tg.doc, nil, &paths)
		for _, p := range paths {
			for _, op := range mutOps {
				if !legalOps[op.name] && !thorough {
					continue
				}
				faultRuns(tg, p.String(), op.name, mutate(tg.doc, p, op))
			}
		}
	}
	// aliased spellings: the same document with ActivityStreams imported under an alias (members
	// written "as:<name>", types "as:<Type>"), alone and with a stray UN-aliased member next to the
	// aliased one (and the reverse) - code that reads the raw JSON and code that reads the decoded
	// value may then disagree about which member is meant
	for _, tg := range targets {
		tg := tg
		top, ok := tg.doc.(map[string]interface{})
		if !ok {
			continue
		}
		apply := func(opName string, m interface{}) {
			if tg.put == nil {
				run(tg.name, "/", opName, nil, ap.MustJSON(m))
			} else {
				run(tg.name, "/", opName, func(a *ap.App) { tg.put(a, m) }, nil)
			}
		}
		al := aliasDoc(top, true).(map[string]interface{})
		apply("aliased-context", al)
		strays := []interface{}{L{}, L{M{}}, "https://r9.example/stray", nil, L{M{"type": "Note"}, M{"type": "Note"}, M{"type": "Note"}}}
		for _, member := range []string{"object", "target", "actor", "to", "tag", "inReplyTo", "orderedItems", "items", "id", "type"} {
			if _, has := top[member]; !has {
				continue
			}
			for si, st := range strays {
				m1 := deepCopy(al).(map[string]interface{})
				m1[member] = st
				apply(fmt.Sprintf("aliased+stray-plain-%s-%d", member, si), m1)
				if member != "id" && member != "type" {
					m2 := deepCopy(top).(map[string]interface{})
					m2["as:"+member] = st
					apply(fmt.Sprintf("plain+stray-aliased-%s-%d", member, si), m2)
				}
			}
		}
	}
	out.Classes = len(classes)
	out.Sample = M{"scenario": sc.Name, "targets": len(targets), "stored_read": store, "remote_read": remote}
	return out
}

// aliasDoc rewrites a document so that ActivityStreams is imported under the alias "as": member
// names become "as:<name>" (JSON-LD keywords id / type / @context keep their names), type names
// "as:<Type>"; nested objects are rewritten too.
func aliasDoc(v interface{}, top bool) interface{} {
	switch x := v.(type) {
	case map[string]interface{}:
		o := map[string]interface{}{}
		for k, e := range x {
			switch k {
			case "@context":
				continue
			case "id":
				o[k] = e
			case "type":
				if s, ok := e.(string); ok {
					o[k] = "as:" + s
				} else {
					o[k] = e
				}
			default:
				o["as:"+k] = aliasDoc(e, false)
			}
		}
		if top {
			o["@context"] = M{"https://www.w3.org/ns/activitystreams": "as"}
		}
		return o
	case []interface{}:
		l := make([]interface{}, len(x))
		for i, e := range x {
			l[i] = aliasDoc(e, false)
		}
		return l
	}
	return v
}

func remoteClass(id string) string {
	switch {
	case strings.Contains(id, "/u/"):
		return "actor"
	case strings.Contains(id, "/c/") || strings.Contains(id, "/oc/"):
		return "collection"
	case strings.Contains(id, "/n/"):
		return "object"
	case strings.Contains(id, "/like/") || strings.Contains(id, "/f/"):
		return "activity"
	}
	return "other"
}

func lastLibOp(a *ap.App) string {
	if len(a.Log) == 0 {
		return "?"
	}
	return a.Log[len(a.Log)-1].Op
}

// C11Worker runs one shard: "decoder" or a scenario name.
func C11Worker(args []string) int {
	thorough := args[1] == "thorough"
	if args[0] == "decoder" {
		o, err := onto.Load(onto.ShippedFiles(repoDir())...)
		if err != nil {
			fmt.Fprintln(os.Stderr, err)
			return 2
		}
		json.NewEncoder(os.Stdout).Encode(decoderPart(o, thorough))
		return 0
	}
	for _, sc := range append(Corpus(), ExtraC11Corpus()...) {
		if sc.Name == args[0] {
			json.NewEncoder(os.Stdout).Encode(handlerPart(sc, thorough))
			os.Stdout.Sync()
			os.Exit(0) // a spinning request goroutine may still be running
			return 0
		}
	}
	return 2
}

// ExtraC11Corpus adds entry points the main corpus lacks.
func ExtraC11Corpus() []*Scenario {
	var coll []*Scenario
	// the GET handler serving stored collections of every kind, with inline members and without any
	for _, typ := range []string{"Collection", "OrderedCollection", "CollectionPage", "OrderedCollectionPage"} {
		for _, shape := range []string{"inline-items", "no-items-member", "empty-items"} {
			typ, shape := typ, shape
			id := "https://l.example/served/" + typ + "-" + shape
			member := "items"
			if strings.HasPrefix(typ, "Ordered") {
				member = "orderedItems"
			}
			doc := Doc(typ, id, "totalItems", 2, "first", id+"?page=1")
			switch shape {
			case "inline-items":
				doc[member] = L{Note1, Emb("Note", "https://l.example/n/inline", "content", "x", "bto", Carol)}
			case "empty-items":
				doc[member] = L{}
			}
			coll = append(coll, &Scenario{Name: "c11/handler-serves-" + typ + "-" + shape, Kind: ap.Both, Entry: "Handler", URL: id, Tweak: func(a *ap.App) { a.PutDoc(doc) }})
		}
	}
	coll = append(coll, TypeCorpus()...)
	return append(coll, []*Scenario{
		{Name: "c11/social-only-get-inbox", Kind: ap.SocialOnly, Entry: "GetInbox", URL: inbox(Alice)},
		{Name: "c11/federating-only-get-outbox", Kind: ap.FederatingOnly, Entry: "GetOutbox", URL: outbox(Alice)},
		{Name: "c11/send-create-embedded-actor", Kind: ap.Both, Entry: "Send", URL: outbox(Alice),
			Body: Doc("Create", "", "actor", Alice, "to", L{Emb("Person", Carol, "inbox", Carol+"/inbox"), RCol}, "object", Emb("Note", "", "content", "x"))},
		{Name: "c11/out-undo-iri", Kind: ap.Both, Entry: "PostOutbox", URL: outbox(Alice),
			Body: Doc("Undo", "", "actor", Alice, "object", "https://l.example/like/7", "to", Carol)},
		{Name: "c11/in-accept-two-objects", Kind: ap.Both, Entry: "PostInbox", URL: inbox(Alice),
			Body: Doc("Accept", RAct, "actor", L{Carol, Emb("Person", Dave)}, "object", L{RNote, Emb("Follow", Follow1, "actor", Alice, "object", Carol)})},
	}...)
}

// C11 — hostile input cannot crash or hang the decoder or the handlers.
func C11(tier string) int {
	res := NewResult("C11", tier, "exploration")
	thorough := res.Thorough()
	scs := append(Corpus(), ExtraC11Corpus()...)
	type shard struct{ name string }
	shards := []string{"decoder"}
	for _, sc := range scs {
		shards = append(shards, sc.Name)
	}
	var mu sync.Mutex
	t0 := time.Now()
	parallel(len(shards), func(i int) {
		name := shards[i]
		if name == "decoder" {
			var d decOut
			err := workerN(&d, 0, "C11worker", name, tier)
			mu.Lock()
			defer mu.Unlock()
			if err != nil {
				res.Violate("worker-crashed|decoder", "the decoder shard died (fatal error / stack overflow?): "+err.Error(), M{"check": "C11", "part": "decoder"})
				return
			}
			res.Evaluations += d.Evals
			res.Nontrivial["decoder"] = struct{}{}
			res.Extra["decoder_documents"] = d.Evals
			for k, v := range d.Panics {
				res.Violate(k, v, d.Reps[k])
			}
			res.Sample(d.Sample)
			return
		}
		var h hOut
		err := workerN(&h, 0, "C11worker", name, tier)
		mu.Lock()
		defer mu.Unlock()
		if err != nil {
			res.Violate("worker-crashed|"+name, "the handler shard died (fatal error / stack overflow / hang?): "+err.Error(), M{"check": "C11", "scenario": name})
			return
		}
		res.Evaluations += h.Evals
		for j := 0; j < h.Classes; j++ {
			res.Nontrivial[fmt.Sprintf("%s|%d", name, j)] = struct{}{}
		}
		for k, v := range h.Viols {
			res.Violate(k, v, h.Reps[k])
		}
		for k, v := range h.Outcomes {
			res.Outcomes[k] += v
		}
		if h.Aborted || h.Inexhaustive {
			res.Exhaustive = false
		}
		if i%15 == 1 {
			res.Sample(h.Sample)
		}
	})
	_ = t0
	// (3) application configurations: every POST scenario with exactly one application hook configured
	// (wrapped, or as an 'other' override), for every hook; partially configured callback structs
	// must not crash the handlers either
	hookNames := []string{"Create", "Update", "Delete", "Follow", "Accept", "Reject", "Add", "Remove", "Like", "Announce", "Undo", "Block"}
	var cfgJobs []func()
	nCfg := 0
	for _, sc := range Corpus() {
		if sc.Entry != "PostInbox" && sc.Entry != "PostOutbox" && sc.Entry != "Send" {
			continue
		}
		for _, hk := range hookNames {
			for _, mode := range []ap.CallbackMode{ap.CBWrapped, ap.CBOther} {
				sc, hk, mode := sc, hk, mode
				cfgJobs = append(cfgJobs, func() {
					c := *sc
					inner := sc.Tweak
					c.Tweak = func(a *ap.App) {
						if inner != nil {
							inner(a)
						}
						a.Callbacks, a.CBKeep = mode, hk
					}
					c.Name = fmt.Sprintf("%s [only hook: %s, mode %d]", sc.Name, hk, mode)
					out := c.Exec(mc.NewExec(nil), false)
					mu.Lock()
					defer mu.Unlock()
					nCfg++
					if out.Panic != nil {
						res.Violate(panicKey(out.PanicSite, out.PanicLine), fmt.Sprintf("scenario %s: panic %v at %s %s", c.Name, out.Panic, out.PanicSite, out.PanicLine),
							M{"check": "C11", "part": "configuration", "scenario": sc.Name, "only_hook": hk, "mode": int(mode)})
					}
				})
			}
		}
	}
	parallel(len(cfgJobs), func(i int) { cfgJobs[i]() })
	res.Evaluations += nCfg
	res.Extra["single_hook_configurations"] = nCfg
	realTransportPart(res, thorough)
	selfDeadlockPart(res)
	if rf := os.Getenv("VERIF_C11_RACE"); rf != "" {
		b, _ := os.ReadFile(rf)
		txt := string(b)
		res.Extra["race_pass"] = tail(strings.TrimSpace(txt), 200)
		if strings.Contains(txt, "DATA RACE") || strings.Contains(txt, "fatal error: concurrent map") {
			res.Violate("race|decoder-shared-state", "concurrent decoding races on shared state inside the decoder: "+tail(txt, 1500), M{"check": "C11", "part": "race", "log": rf})
		} else if strings.Contains(txt, "FAIL") {
			res.Violate("race|concurrent-decoding-fails", "the concurrent decoding test fails: "+tail(txt, 1500), M{"check": "C11", "part": "race", "log": rf})
		}
	}
	res.Extra["scenarios"] = len(scs)
	res.Extra["mutation_operators"] = len(mutOps)
	bound := 1
	if thorough {
		bound = 2
	}
	res.Extra["mutation_bound_completed"] = bound
	res.Rule = fmt.Sprintf("(1) decoder: every type x every member name (all properties, their Map forms, type, id, @context) x %d junk JSON values x {scalar, list} through decode->encode->decode->encode, plus every example embedded in the vocabulary files with each node mutated by %d operators; (2) handlers: for each of %d scenarios (all entry points), every JSON node of the request body, of every stored / remote document the fault-free run reads and (GetInbox / GetOutbox) of the page the application supplies is, one at a time (thorough: two at a time), removed, nulled, emptied or replaced by a value of another kind (number, bool, array, object without id, unknown type, IRI to a missing / ill-typed / incomplete / unknown-type / garbled / cyclic document; an embedded Link / Mention named by href only, a Link with id and href, a two-element list), plus whole-document replacements, and POSTs declaring a Content-Length that is unknown, off by one or absurdly large (up to 2^63-1) for the ordinary body, (2b) the unmutated request and every body node replaced by an unusual but legal value (removed, [], object without id, typeless object, unreachable IRI, href-only Link / Mention, Link with id and href, two-element list; thorough: every operator, and the documents read too) each again with every single seam call failing (deviation bound: one mutation + one fault), every such document re-spelled with ActivityStreams imported under an alias (alone and with a stray un-aliased / aliased twin of each reference member holding [], [{}], an IRI, null or three objects) and recursion limits 1,2,4; (3) every POST / Send scenario with exactly one application hook configured (each of 12 hooks, wrapped or as 'other' override); (4) the delivering entry points (client POST, Send, auto-accepted Follow, inbox forwarding) with the library's own HttpSigTransport over a fake HTTP client: a remote collection of 1..65 (thorough: 257) actors of which 0, 1, 2 or all answer the delivery with 500 / 404 / a client error / a mixture; (5) every corpus scenario and the generated addressing family (same collection / target / object named twice) once more as a single request with the application's locks as real non-re-entrant blocking resources (a request waiting for a lock it holds never returns); oracle: no panic, returns within the seam-call horizon (a request still running after 60 s is reported by the process-wide watchdog); distinct = (target document, path, operator)", len(junk)+1, len(mutOps), len(scs))
	res.Assumptions = []string{"arbitrary byte strings are replaced by a bounded junk alphabet and grammar-based mutations; coverage-guided fuzzing (sampling) is deliberately not used",
		"a hang that makes no seam call is caught only by the worker timeout"}
	return res.Finish()
}
