package checks

import (
	"encoding/json"
	"fmt"
	"strings"
	"sync"

	"github.com/go-fed/activity/pub"

	ap "verif/apmodel"
	"verif/mc"
	"verif/onto"
)

// hidden-recipient options for one slot (activity or embedded object)
type hiddenOpt struct {
	name string
	kv   M
	ids  []string
}

var hiddenOpts = []hiddenOpt{
	{"none", M{}, nil},
	{"bto-iri", M{"bto": Erin}, []string{Erin}},
	{"bcc-iri", M{"bcc": Dave}, []string{Dave}},
	{"bto-embedded", M{"bto": Emb("Person", Carol, "inbox", Carol+"/inbox")}, []string{Carol}},
	{"bto+bcc-lists", M{"bto": L{Erin, Carol}, "bcc": L{Dave}}, []string{Erin, Carol, Dave}},
	{"bcc-mention-by-href", M{"bcc": M{"type": "Mention", "href": Dave}}, []string{Dave}},
	{"bto-link-with-id-and-decoy-href", M{"bto": M{"type": "Link", "id": Erin, "href": "https://r9.example/decoy"}}, []string{Erin}},
	{"bto-empty-list+bcc-iri", M{"bto": L{}, "bcc": Erin}, []string{Erin}},
}

// findHidden lists JSON paths holding a bto/bcc member: at depth 0 and on elements of 'object'
// (recursively through 'object' when deep is set).
func findHidden(v interface{}, path string, deep bool, depth int) []string {
	m, ok := v.(map[string]interface{})
	if !ok {
		return nil
	}
	var out []string
	for _, k := range []string{"bto", "bcc"} {
		if _, ok := m[k]; ok {
			out = append(out, path+"/"+k)
		}
	}
	if depth >= 1 && !deep {
		return out
	}
	switch o := m["object"].(type) {
	case map[string]interface{}:
		out = append(out, findHidden(o, path+"/object", deep, depth+1)...)
	case []interface{}:
		for i, e := range o {
			out = append(out, findHidden(e, fmt.Sprintf("%s/object[%d]", path, i), deep, depth+1)...)
		}
	}
	return out
}

type c03case struct {
	name   string
	kind   ap.ActorKind
	entry  string
	body   M
	hidden []string // actors that must still receive the delivery
	tweak  func(a *ap.App)
}

func withKV(d M, kv M) M {
	o := M{}
	for k, v := range d {
		o[k] = v
	}
	for k, v := range kv {
		o[k] = v
	}
	return o
}

// C03 — hidden recipients (bto/bcc) never leave the server.
func C03(tier string) int {
	res := NewResult("C03", tier, "exploration")
	var cases []c03case
	type shape struct {
		name    string
		nObj    int
		build   func(act M, objs []M) M
		bare    bool
		objHide bool // object-level hidden recipients become recipients (social Create / wrapped object)
	}
	obj := func(i int) M { return Emb("Note", "", "content", fmt.Sprintf("o%d", i)) }
	shapes := []shape{
		{"bare-note", 1, func(act M, o []M) M { d := withKV(o[0], M{"@context": AS}); return d }, true, true},
		{"bare-article", 1, func(act M, o []M) M { d := withKV(o[0], M{"@context": AS, "type": "Article"}); return d }, true, true},
		{"create-1", 1, func(act M, o []M) M { return withKV(act, M{"type": "Create", "object": o[0]}) }, false, true},
		{"create-2", 2, func(act M, o []M) M { return withKV(act, M{"type": "Create", "object": L{o[0], o[1]}}) }, false, true},
		{"like-embedded", 1, func(act M, o []M) M { return withKV(act, M{"type": "Like", "object": withKV(o[0], M{"id": RNote})}) }, false, false},
		{"announce-mixed", 1, func(act M, o []M) M {
			return withKV(act, M{"type": "Announce", "object": L{RNote2, withKV(o[0], M{"id": RNote})}})
		}, false, false},
		{"follow", 0, func(act M, o []M) M { return withKV(act, M{"type": "Follow", "object": Carol}) }, false, false},
		{"update-embedded", 1, func(act M, o []M) M { return withKV(act, M{"type": "Update", "object": withKV(o[0], M{"id": Note1})}) }, false, false},
		{"add-embedded", 1, func(act M, o []M) M {
			return withKV(act, M{"type": "Add", "object": withKV(o[0], M{"id": RNote}), "target": Col1})
		}, false, false},
	}
	if res.Thorough() {
		shapes = append(shapes, shape{"create-3", 3, func(act M, o []M) M { return withKV(act, M{"type": "Create", "object": L{o[0], o[1], o[2]}}) }, false, true})
	}
	entriesOf := []struct {
		kind  ap.ActorKind
		entry string
	}{{ap.Both, "PostOutbox"}, {ap.SocialOnly, "PostOutbox"}, {ap.Both, "Send"}, {ap.FederatingOnly, "Send"}}
	for _, sh := range shapes {
		slots := sh.nObj + 1
		if sh.bare {
			slots = 1
		}
		idx := make([]int, slots)
		for {
			for _, to := range []interface{}{nil, Carol} {
				for _, en := range entriesOf {
					act := M{"@context": AS, "actor": Alice}
					var hidden []string
					objs := make([]M, sh.nObj)
					for i := range objs {
						objs[i] = obj(i)
					}
					if sh.bare {
						objs[0] = withKV(objs[0], hiddenOpts[idx[0]].kv)
						hidden = append(hidden, hiddenOpts[idx[0]].ids...)
						if to != nil {
							objs[0]["to"] = to
						}
					} else {
						act = withKV(act, hiddenOpts[idx[0]].kv)
						hidden = append(hidden, hiddenOpts[idx[0]].ids...)
						if to != nil {
							act["to"] = to
						}
						for i := range objs {
							objs[i] = withKV(objs[i], hiddenOpts[idx[i+1]].kv)
							// object-level hidden recipients are copied to the activity only by the
							// Social Create normalisation
							if sh.objHide && en.kind != ap.FederatingOnly {
								hidden = append(hidden, hiddenOpts[idx[i+1]].ids...)
							}
						}
					}
					var names []string
					for _, i := range idx {
						names = append(names, hiddenOpts[i].name)
					}
					cases = append(cases, c03case{name: fmt.Sprintf("%s/%s/%s hidden=%v to=%v", en.entry, en.kind, sh.name, names, to != nil),
						kind: en.kind, entry: en.entry, body: sh.build(act, objs), hidden: hidden})
				}
			}
			// next combination
			k := 0
			for k < slots {
				idx[k]++
				if idx[k] < len(hiddenOpts) {
					break
				}
				idx[k] = 0
				k++
			}
			if k == slots {
				break
			}
		}
	}
	// many recipients: 4..9, 12 and 17 visible recipients and one hidden one (bto or bcc) that comes last in the
	// addressing order - it must still receive the delivery, on every entry point
	for _, n := range []int{4, 5, 6, 7, 8, 9, 12, 17} {
		for _, hk := range []string{"bto", "bcc"} {
			for _, en := range entriesOf {
				n := n
				var to L
				for i := 0; i < n; i++ {
					to = append(to, Peer(i))
				}
				for si, body := range []M{
					withKV(Emb("Note", "", "content", "many"), M{"@context": AS, "to": to[:n/2], "cc": to[n/2:], hk: Carol}),
					{"@context": AS, "type": "Create", "actor": Alice, "to": to, hk: Carol, "object": Emb("Note", "", "content", "many")},
					{"@context": AS, "type": "Like", "actor": Alice, "to": to[:1], "audience": to[1:], hk: L{Carol, Dave}, "object": RNote}} {
					hidden := []string{Carol}
					if si == 2 {
						hidden = []string{Carol} // (Dave's inbox is a stored one in the base world: not asserted here)
					}
					cases = append(cases, c03case{name: fmt.Sprintf("%s/%s/many-%d shape=%d hidden=%s-last", en.entry, en.kind, n, si, hk), kind: en.kind, entry: en.entry, body: body, hidden: hidden,
						tweak: func(a *ap.App) { ManyPeers(a, n) }})
				}
			}
		}
	}
	// automatic Accept / Reject of a Follow that carries hidden recipients
	for _, beh := range []pub.OnFollowBehavior{pub.OnFollowAutomaticallyAccept, pub.OnFollowAutomaticallyReject} {
		for _, h := range hiddenOpts {
			beh, h := beh, h
			body := withKV(Doc("Follow", RAct, "actor", Carol, "object", Alice), h.kv)
			cases = append(cases, c03case{name: fmt.Sprintf("PostInbox/auto-%d/follow hidden=%s", beh, h.name), kind: ap.Both, entry: "PostInbox", body: body,
				tweak: func(a *ap.App) { a.OnFollow = beh }})
		}
	}
	res.Rule = fmt.Sprintf("outbox inputs {bare Note, bare Article, Create with 1..%d objects, Like/Announce/Update/Add with an embedded object, Follow} x hidden-recipient option {none, bto IRI, bcc IRI, bto embedded actor, bto+bcc lists, bcc Mention by href, bto Link with id and decoy href, empty bto next to bcc} independently on the activity and on every embedded object x to {absent, IRI} x {client POST with both protocols, client POST social-only, Send with both, Send federating-only}; inbox Follow with each option under auto-accept / auto-reject; every input with hidden recipients again under 5 application-data variants (sender record without inbox / minimal, sender's or all recipients' inboxes stored by the application, hidden recipients unreachable); GET handler: stored values of every type that has 'object', bto/bcc at object depth 0..3 in every list shape and at depths 4, 5, 8, 9, 10, 16 and 33 in two of them, object given embedded / in a mixed list after an IRI / by IRI / after a sibling that itself embeds two objects / as the third of three / before further siblings; %d delivery runs; oracle: every payload handed to the transport and every handler body is parsed and searched for bto/bcc", 2+map[bool]int{true: 1, false: 0}[res.Thorough()], len(cases))
	res.Rule += "; plus inputs with 4..9, 12 and 17 visible recipients and a hidden one last in the addressing order; plus, for every input shape and hidden-recipient set (quick: the first two cases of each; thorough: all), every single seam call failing: whatever fails on the way, no payload handed to the transport carries bto/bcc"
	var mu sync.Mutex
	chunk := 300
	parallel((len(cases)+chunk-1)/chunk, func(ci int) {
		lo, hi := ci*chunk, (ci+1)*chunk
		if hi > len(cases) {
			hi = len(cases)
		}
		type viol struct {
			key, what string
			rep       M
		}
		var vs []viol
		classes := map[string]struct{}{}
		outc := map[string]int{}
		for _, c := range cases[lo:hi] {
			url := outbox(Alice)
			if c.entry == "PostInbox" {
				url = inbox(Alice)
			}
			sc := &Scenario{Name: c.name, Kind: c.kind, Entry: c.entry, URL: url, Body: c.body, Tweak: c.tweak}
			out := sc.Exec(mc.NewExec(nil), false)
			rep := M{"check": "C03", "case": c.name, "body": c.body}
			if out.Panic != nil {
				outc["panic(C11)"]++
				continue
			}
			if out.Err != nil {
				outc["error"]++
				continue
			}
			if len(out.App.Deliveries) == 0 {
				outc["no-delivery"]++
				continue
			}
			outc["delivered"]++
			classes[c.name] = struct{}{}
			for _, d := range out.App.Deliveries {
				var pm interface{}
				json.Unmarshal(d.Payload, &pm)
				if leaks := findHidden(pm, "", false, 0); len(leaks) > 0 {
					where := "activity"
					if strings.Contains(leaks[0], "object") {
						where = "embedded-object"
					}
					vs = append(vs, viol{fmt.Sprintf("hidden-recipient-in-payload|%s|%s", where, c.entry), fmt.Sprintf("%s: payload carries %v: %s", c.name, leaks, string(d.Payload)), rep})
				}
				to := map[string]bool{}
				for _, t := range d.To {
					to[t] = true
				}
				for _, h := range c.hidden {
					want := h + "/inbox"
					if !to[want] {
						vs = append(vs, viol{"hidden-recipient-not-delivered|" + c.entry, fmt.Sprintf("%s: hidden recipient %s is not among the recipients %v", c.name, shortID(h), d.To), rep})
					}
				}
			}
		}
		mu.Lock()
		defer mu.Unlock()
		res.Evaluations += hi - lo
		for k := range classes {
			res.Nontrivial[k] = struct{}{}
		}
		for k, v := range outc {
			res.Outcomes[k] += v
		}
		for _, v := range vs {
			res.Violate(v.key, v.what, v.rep)
		}
	})
	// ---- single faults: whatever fails on the way, nothing handed to the transport may carry bto/bcc ----
	var faultCases []c03case
	seenShape := map[string]int{}
	for _, c := range cases {
		if len(c.hidden) == 0 || c.kind == ap.SocialOnly {
			continue
		}
		shapeKey := strings.SplitN(c.name, " ", 2)[0]
		// quick: per shape, the first cases of every hidden-recipient spelling; thorough: all
		shapeKey += "|" + strings.Join(c.hidden, ",")
		if seenShape[shapeKey] >= 2 && !res.Thorough() {
			continue
		}
		seenShape[shapeKey]++
		faultCases = append(faultCases, c)
	}
	parallel(len(faultCases), func(i int) {
		c := faultCases[i]
		url := outbox(Alice)
		if c.entry == "PostInbox" {
			url = inbox(Alice)
		}
		sc := &Scenario{Name: c.name, Kind: c.kind, Entry: c.entry, URL: url, Body: c.body, Tweak: c.tweak}
		type viol struct {
			key, what string
			rep       M
		}
		var vs []viol
		n := 0
		e := &mc.Explorer{}
		e.Budget = [3]int{0, 1, 0}
		e.Run = func(x *mc.Exec) bool {
			out := sc.Exec(x, true)
			n++
			if out.Panic != nil {
				return true
			}
			f := faultOps(x)
			for _, d := range out.App.Deliveries {
				var pm interface{}
				json.Unmarshal(d.Payload, &pm)
				if leaks := findHidden(pm, "", false, 0); len(leaks) > 0 {
					vs = append(vs, viol{fmt.Sprintf("hidden-recipient-in-payload|under-fault|%s", strings.Join(f, ",")),
						fmt.Sprintf("%s with faults %v: payload carries %v: %s", c.name, f, leaks, string(d.Payload)), M{"check": "C03", "case": c.name, "body": c.body, "choices": x.Choices(), "faults": f}})
				}
			}
			return true
		}
		e.Explore()
		mu.Lock()
		defer mu.Unlock()
		res.Evaluations += n
		res.Nontrivial[fmt.Sprintf("fault|%s", c.name)] = struct{}{}
		for _, v := range vs {
			res.Violate(v.key, v.what, v.rep)
		}
	})
	// ---- configuration variants: whatever the application's data looks like, a payload that is handed
	// to the transport carries no bto/bcc (a run that fails and delivers nothing is fine) ----
	variants := []struct {
		name  string
		tweak func(a *ap.App)
	}{
		{"sender-record-without-inbox", func(a *ap.App) { d := person(Alice); delete(d, "inbox"); a.PutDoc(d) }},
		{"sender-record-is-a-service-with-inbox-only", func(a *ap.App) { a.PutDoc(Doc("Service", Alice, "inbox", Alice+"/inbox")) }},
		{"sender-inbox-stored-by-application", func(a *ap.App) { a.StoredInbox[Alice] = true }},
		{"all-recipient-inboxes-stored", func(a *ap.App) {
			for _, id := range []string{Carol, Dave, Erin} {
				a.StoredInbox[id] = true
			}
		}},
		{"hidden-recipients-unreachable", func(a *ap.App) { delete(a.Remote, Erin); delete(a.Remote, Dave) }},
	}
	var varCases []c03case
	for _, c := range cases {
		if len(c.hidden) > 0 && c.kind != ap.SocialOnly {
			varCases = append(varCases, c)
		}
	}
	nVar := 0
	parallel(len(variants), func(vi int) {
		v := variants[vi]
		type viol struct {
			key, what string
			rep       M
		}
		var vs []viol
		delivered := 0
		for _, c := range varCases {
			c := c
			url := outbox(Alice)
			if c.entry == "PostInbox" {
				url = inbox(Alice)
			}
			sc := &Scenario{Name: c.name, Kind: c.kind, Entry: c.entry, URL: url, Body: c.body, Tweak: func(a *ap.App) {
				if c.tweak != nil {
					c.tweak(a)
				}
				v.tweak(a)
			}}
			out := sc.Exec(mc.NewExec(nil), false)
			if out.Panic != nil {
				continue
			}
			for _, d := range out.App.Deliveries {
				delivered++
				var pm interface{}
				json.Unmarshal(d.Payload, &pm)
				if leaks := findHidden(pm, "", false, 0); len(leaks) > 0 {
					vs = append(vs, viol{fmt.Sprintf("hidden-recipient-in-payload|configuration|%s", v.name),
						fmt.Sprintf("%s with %s: payload carries %v: %s", c.name, v.name, leaks, string(d.Payload)), M{"check": "C03", "case": c.name, "body": c.body, "variant": v.name}})
				}
			}
		}
		mu.Lock()
		defer mu.Unlock()
		res.Evaluations += len(varCases)
		nVar += len(varCases)
		res.Outcomes[fmt.Sprintf("variant:%s:deliveries=%d", v.name, delivered)]++
		for _, x := range vs {
			res.Violate(x.key, x.what, x.rep)
		}
	})
	res.Extra["configuration_variant_runs"] = nVar
	res.Extra["single_fault_cases"] = len(faultCases)
	res.Sample(M{"case": cases[len(cases)/3].name, "body": cases[len(cases)/3].body})
	res.Sample(M{"case": cases[len(cases)-1].name, "body": cases[len(cases)-1].body})

	// ---- GET handler ----
	o, err := onto.Load(onto.ShippedFiles(repoDir())...)
	if err != nil {
		fmt.Println("ontology:", err)
		return 2
	}
	nHandler := 0
	var hmu sync.Mutex
	var hTypes []string
	for _, tk := range o.TypeKeys() {
		if o.HasProp(tk, "ActivityStreams/object") && o.HasProp(tk, "ActivityStreams/bto") {
			hTypes = append(hTypes, tk)
		}
	}
	parallel(len(hTypes), func(ti int) {
		tk := hTypes[ti]
		for _, depth := range []int{0, 1, 2, 3, 4, 5, 8, 9, 10, 16, 33} {
			for _, lst := range []string{"embedded", "iri-then-embedded", "two-embedded", "iri", "after-a-sibling-with-two-children", "three-embedded", "before-a-hidden-sibling"} {
				if depth == 0 && len(lst) > len("iri-then-embedded") {
					continue
				}
				if depth > 3 && len(lst) > len("iri-then-embedded") {
					continue // deep chains: plainly embedded, or after an IRI in a list
				}
				for _, h := range hiddenOpts[1:] {
					id := "https://l.example/n/served"
					// build the chain from the innermost level outwards
					var inner interface{}
					lvlTypes := []string{"Note", "Create", "Announce", "Like"}
					for lvl := depth; lvl >= 1; lvl-- {
						d := withKV(Emb(lvlTypes[lvl%4], fmt.Sprintf("https://l.example/n/lvl%d", lvl), "content", "x"), h.kv)
						if lvlTypes[lvl%4] != "Note" {
							delete(d, "content")
						}
						if inner != nil {
							d["object"] = inner
						}
						switch lst {
						case "embedded":
							inner = d
						case "iri-then-embedded":
							inner = L{RNote, d}
						case "two-embedded":
							inner = L{withKV(Emb("Note", "https://l.example/n/sib"), h.kv), d}
						case "after-a-sibling-with-two-children":
							sib := Emb("Create", "https://l.example/n/sib-parent", "object", L{withKV(Emb("Note", "https://l.example/n/sib-c1"), h.kv), withKV(Emb("Note", "https://l.example/n/sib-c2"), h.kv)})
							inner = L{sib, d}
						case "three-embedded":
							inner = L{withKV(Emb("Note", "https://l.example/n/sib-a"), h.kv), withKV(Emb("Article", "https://l.example/n/sib-b"), h.kv), d}
						case "before-a-hidden-sibling":
							inner = L{d, withKV(Emb("Note", "https://l.example/n/sib-z"), h.kv), RNote}
						case "iri":
							inner = d
							if lvl == depth {
								inner = RNote // the innermost value is given by IRI
							}
						}
					}
					doc := withKV(Doc(o.Types[tk].Name, id), h.kv)
					if inner != nil {
						doc["object"] = inner
					}
					docCopy := doc
					sc := &Scenario{Name: fmt.Sprintf("handler/%s depth=%d %s %s", tk, depth, lst, h.name), Kind: ap.Both, Entry: "Handler", URL: id,
						Tweak: func(a *ap.App) { a.PutDoc(docCopy) }}
					out := sc.Exec(mc.NewExec(nil), false)
					hmu.Lock()
					nHandler++
					res.Case(sc.Name)
					if out.Panic != nil || out.Err != nil {
						res.Outcome("handler-error")
						hmu.Unlock()
						continue
					}
					res.Outcome("served")
					var pm interface{}
					json.Unmarshal(out.W.Body(), &pm)
					if leaks := findHidden(pm, "", true, 0); len(leaks) > 0 {
						res.Violate(fmt.Sprintf("hidden-recipient-served|depth=%d|%s", strings.Count(leaks[0], "object"), lst),
							fmt.Sprintf("%s: the served body carries %v: %s", sc.Name, leaks, string(out.W.Body())), M{"check": "C03", "stored": doc})
					}
					hmu.Unlock()
				}
			}
		}
	})
	res.Extra["delivery_runs"] = len(cases)
	res.Extra["handler_runs"] = nHandler
	res.Assumptions = []string{"hidden recipients on embedded objects must still receive the delivery only where the library copies them to the activity (bare objects, Social Create)",
		"what is stored may keep bto/bcc"}
	return res.Finish()
}
