package checks

import (
	"fmt"

	ap "verif/apmodel"
)

// AddressingCorpus is the generated addressing family of the thorough tier: the same collection
// named twice, a collection also used as object / target / tag / inReplyTo, the actor also a
// recipient, duplicate recipients with stored inboxes, targets named twice.
func AddressingCorpus() []*Scenario {
	var s []*Scenario
	add := func(name, entry, url string, kind ap.ActorKind, body M) {
		s = append(s, &Scenario{Name: "addr/" + name, Kind: kind, Entry: entry, URL: url, Body: body})
	}
	rnote := Emb("Note", "https://r1.example/n/10", "attributedTo", Carol, "content", "x", "inReplyTo", Note1)
	colls := []string{Col1, OCol1}
	props := []string{"to", "cc", "audience"}
	// inbox: forwarding with every pair of addressing slots over the two owned collections (incl. the same one twice)
	for i, a := range colls {
		for j, b := range colls {
			for pi, p1 := range props {
				for _, p2 := range props[pi:] {
					d := Doc("Create", RAct, "actor", Carol, "object", rnote)
					if p1 == p2 {
						d[p1] = L{a, b}
					} else {
						d[p1], d[p2] = a, b
					}
					add(fmt.Sprintf("forward-%s=%d-%s=%d", p1, i, p2, j), "PostInbox", inbox(Alice), ap.Both, d)
					// the application's forwarding filter: keeps the first / none, or works on the slice it
					// is handed IN PLACE (keeps the last, compacting; keeps all, reversing)
					for _, fm := range []ap.FilterMode{ap.FilterFirst, ap.FilterNone, ap.FilterLastInPlace, ap.FilterReverseInPlace} {
						if i == j && fm != ap.FilterLastInPlace {
							continue
						}
						fm := fm
						s = append(s, &Scenario{Name: fmt.Sprintf("addr/forward-%s=%d-%s=%d-filter=%d", p1, i, p2, j, fm), Kind: ap.Both, Entry: "PostInbox", URL: inbox(Alice), Body: d,
							Tweak: func(a *ap.App) { a.Filter = fm }})
					}
				}
			}
		}
	}
	// inbox: forwarding to an owned collection that has no members (no items member at all / an empty one),
	// alone and next to one that has members
	for ci, c := range colls {
		for _, shape := range []string{"no-items-member", "empty-items"} {
			c, shape, other := c, shape, colls[1-ci]
			empty := func(a *ap.App) {
				typ, member := "Collection", "items"
				if c == OCol1 {
					typ, member = "OrderedCollection", "orderedItems"
				}
				d := Doc(typ, c, "totalItems", 0)
				if shape == "empty-items" {
					d[member] = L{}
				}
				a.PutDoc(d)
			}
			for ai, to := range []interface{}{c, L{c, other}, L{other, c}} {
				s = append(s, &Scenario{Name: fmt.Sprintf("addr/forward-empty-collection-%s-%s-%d", shortID(c), shape, ai), Kind: ap.Both, Entry: "PostInbox", URL: inbox(Alice),
					Body: Doc("Create", RAct, "actor", Carol, "to", to, "object", rnote), Tweak: empty})
			}
		}
	}
	// inbox: five and more locally owned recipients - four (six) owned collections and then an owned value that
	// is not a collection (a local actor / a local note), in to / cc / audience order
	for _, nColl := range []int{4, 5, 6, 9} {
		nColl := nColl
		var cl L
		for i := 0; i < nColl; i++ {
			cl = append(cl, fmt.Sprintf("https://l.example/c/many%d", i))
		}
		more := func(a *ap.App) {
			for i := 0; i < nColl; i++ {
				id := fmt.Sprintf("https://l.example/c/many%d", i)
				if i%2 == 0 {
					a.PutDoc(Doc("Collection", id, "items", L{Carol}))
				} else {
					a.PutDoc(Doc("OrderedCollection", id, "orderedItems", L{Dave, Erin}))
				}
			}
		}
		for vi, tail := range []struct {
			prop string
			v    interface{}
		}{{"cc", Bob}, {"audience", Note1}, {"cc", L{Bob, Carol}}} {
			d := Doc("Create", RAct, "actor", Carol, "to", cl, "object", rnote)
			d[tail.prop] = tail.v
			s = append(s, &Scenario{Name: fmt.Sprintf("addr/forward-%d-owned-collections-then-owned-value-%d", nColl, vi), Kind: ap.Both, Entry: "PostInbox", URL: inbox(Alice), Body: d, Tweak: more})
		}
		d := Doc("Create", RAct, "actor", Carol, "to", append(L{Bob}, cl...), "object", rnote)
		s = append(s, &Scenario{Name: fmt.Sprintf("addr/forward-owned-value-then-%d-owned-collections", nColl), Kind: ap.Both, Entry: "PostInbox", URL: inbox(Alice), Body: d, Tweak: more})
	}
	// inbox: an owned collection that is also the reply value examined by the forwarding search
	for _, link := range []string{"object", "target", "tag", "inReplyTo"} {
		for _, c := range colls {
			d := Doc("Offer", RAct, "actor", Carol, "to", L{c, Carol}, link, c)
			add("forward-collection-also-"+link+"-"+shortID(c), "PostInbox", inbox(Alice), ap.Both, d)
			d2 := Doc("Offer", RAct, "actor", Carol, "to", c, link, Emb("Note", Note1, "inReplyTo", c))
			add("forward-collection-nested-in-"+link+"-"+shortID(c), "PostInbox", inbox(Alice), ap.Both, d2)
		}
	}
	// inbox: Add / Remove naming one owned target twice, object also the target
	for _, typ := range []string{"Add", "Remove"} {
		add(typ+"-target-twice", "PostInbox", inbox(Alice), ap.Both, Doc(typ, RAct, "actor", Carol, "object", Dave, "target", L{Col1, Col1}))
		add(typ+"-object-is-target", "PostInbox", inbox(Alice), ap.Both, Doc(typ, RAct, "actor", Carol, "object", Col1, "target", L{Col1, OCol1}))
	}
	// inbox: Like / Announce naming one owned object twice
	add("like-object-twice", "PostInbox", inbox(Alice), ap.Both, Doc("Like", RAct, "actor", Carol, "object", L{Note1, Note1}))
	add("announce-object-twice", "PostInbox", inbox(Alice), ap.Both, Doc("Announce", RAct, "actor", Carol, "object", L{Note2, Emb("Note", Note2)}))
	// outbox: recipients repeated, the actor itself a recipient, collection addressed twice
	add("out-dave-twice", "PostOutbox", outbox(Alice), ap.Both, Doc("Note", "", "content", "x", "to", L{Dave, Dave}, "cc", Dave))
	add("out-actor-recipient", "PostOutbox", outbox(Alice), ap.Both, Doc("Note", "", "content", "x", "to", L{Alice, Carol}, "bcc", Alice))
	add("out-collection-twice", "PostOutbox", outbox(Alice), ap.Both, Doc("Announce", "", "actor", Alice, "object", RNote, "to", L{RCol, RCol}, "audience", RCol))
	add("out-add-target-twice", "PostOutbox", outbox(Alice), ap.Both, Doc("Add", "", "actor", Alice, "object", RNote, "target", L{Col1, Col1}, "to", Carol))
	add("out-update-same-object-twice", "PostOutbox", outbox(Alice), ap.Both, Doc("Update", "", "actor", Alice, "object", L{Emb("Note", Note1, "content", "a"), Emb("Note", Note1, "summary", "b")}, "to", Carol))
	add("out-delete-same-object-twice", "PostOutbox", outbox(Alice), ap.Both, Doc("Delete", "", "actor", Alice, "object", L{Note1, Note1}, "to", Carol))
	// outbox: several addressed actors for which the application knows ONE shared inbox (2, 3 and 4 sharers,
	// next to each other / separated by an actor with an inbox of its own / by a collection)
	shared := func(actors ...string) func(a *ap.App) {
		return func(a *ap.App) {
			a.SharedInbox = map[string]string{}
			for _, x := range actors {
				a.SharedInbox[x] = "https://r1.example/shared/inbox"
			}
		}
	}
	for _, sh := range []struct {
		name    string
		to      L
		sharers []string
	}{{"2-adjacent", L{Carol, Erin, Dave}, []string{Carol, Erin}}, {"2-apart", L{Carol, Dave, Erin}, []string{Carol, Erin}}, {"3", L{Carol, Erin, Frank}, []string{Carol, Erin, Frank}},
		{"4-with-collection", L{Carol, RCol, Erin, Frank, Dave}, []string{Carol, Erin, Frank, Dave}}, {"2-last", L{Dave, Carol, Erin}, []string{Carol, Erin}}} {
		s = append(s, &Scenario{Name: "addr/out-shared-inbox-" + sh.name, Kind: ap.Both, Entry: "PostOutbox", URL: outbox(Alice),
			Body: Doc("Note", "", "content", "x", "to", sh.to), Tweak: shared(sh.sharers...)},
			&Scenario{Name: "addr/send-shared-inbox-" + sh.name, Kind: ap.Both, Entry: "Send", URL: outbox(Alice),
				Body: Doc("Create", "", "actor", Alice, "to", sh.to, "object", Emb("Note", "", "content", "x")), Tweak: shared(sh.sharers...)})
	}
	// outbox: the sender among its own recipients while the application knows an inbox for the sender itself
	for _, to := range []L{{Alice, Carol}, {Carol, Alice}, {Alice}} {
		to := to
		s = append(s, &Scenario{Name: fmt.Sprintf("addr/out-self-recipient-with-stored-inbox-%d", len(s)), Kind: ap.Both, Entry: "PostOutbox", URL: outbox(Alice),
			Body: Doc("Note", "", "content", "x", "to", to, "bcc", Alice), Tweak: func(a *ap.App) { a.StoredInbox[Alice] = true }})
	}
	add("out-like-actor-object", "PostOutbox", outbox(Alice), ap.Both, Doc("Like", "", "actor", Alice, "object", L{Alice, RNote}, "to", Alice))
	return s
}

// MutatedCorpus: every corpus request that has a JSON body, with one node of the body removed, emptied or
// replaced by an unusual but legal value (the legal subset of C11's mutation operators).
func MutatedCorpus() []*Scenario {
	var out []*Scenario
	for _, sc := range Corpus() {
		if sc.Body == nil {
			continue
		}
		var paths []jpath
		var doc interface{} = deepCopy(sc.Body)
		walkNodes(doc, nil, &paths)
		for _, p := range paths {
			if len(p) == 0 {
				continue
			}
			for _, op := range mutOps {
				if !legalOps[op.name] {
					continue
				}
				m, ok := mutate(doc, p, op).(map[string]interface{})
				if !ok {
					continue
				}
				c := *sc
				c.Name = fmt.Sprintf("%s [%s -> %s]", sc.Name, p.String(), op.name)
				c.Body = m
				out = append(out, &c)
			}
		}
	}
	return out
}
