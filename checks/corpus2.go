package checks

// AddressingCorpus is the generated addressing family of the thorough tier: the same collection
// named twice, a collection also used as object / target / tag, the actor also a recipient.
func AddressingCorpus() []*Scenario {
	var s []*Scenario
	return s
}
