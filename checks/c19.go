package checks

import (
	"bytes"
	"context"
	"crypto"
	"crypto/rand"
	"crypto/rsa"
	"encoding/json"
	"fmt"
	"io/ioutil"
	"net/http"
	"net/url"
	"os"
	"os/exec"
	"sort"
	"strings"
	"sync"
	"time"

	"github.com/go-fed/activity/pub"
	"github.com/go-fed/httpsig"

	ap "verif/apmodel"
)

// recSigner records what the transport hands to the signer.
type recSigner struct {
	calls []recCall
	fail  map[int]bool // call indices that return an error
}

type recCall struct {
	key    crypto.PrivateKey
	keyID  string
	header http.Header
	method string
	url    string
	body   []byte
	hasB   bool
}

func (s *recSigner) SignRequest(pKey crypto.PrivateKey, pubKeyId string, r *http.Request, body []byte) error {
	c := recCall{key: pKey, keyID: pubKeyId, header: r.Header.Clone(), method: r.Method, url: r.URL.String(), hasB: body != nil}
	c.body = append([]byte(nil), body...)
	s.calls = append(s.calls, c)
	if s.fail[len(s.calls)-1] {
		return fmt.Errorf("signer refused call %d", len(s.calls)-1)
	}
	r.Header.Set("Signature", "recorded")
	return nil
}
func (s *recSigner) SignResponse(crypto.PrivateKey, string, http.ResponseWriter, []byte) error {
	return nil
}

// recClient records what reaches the HTTP client.
type recClient struct {
	reqs   []recReq
	status int
	body   []byte
	err    error
	verify func(r *http.Request) error
	verr   []error
}

type recReq struct {
	header http.Header
	method string
	url    string
	body   []byte
}

func (c *recClient) Do(req *http.Request) (*http.Response, error) {
	rr := recReq{header: req.Header.Clone(), method: req.Method, url: req.URL.String()}
	if req.Body != nil {
		rr.body, _ = ioutil.ReadAll(req.Body)
	}
	c.reqs = append(c.reqs, rr)
	if c.verify != nil {
		// the verifier needs the request as the peer would see it
		if err := c.verify(req); err != nil {
			c.verr = append(c.verr, err)
		}
	}
	if c.err != nil {
		return nil, c.err
	}
	st := c.status
	if st == 0 {
		st = 200
	}
	return &http.Response{StatusCode: st, Status: fmt.Sprintf("%d %s", st, http.StatusText(st)), Body: ioutil.NopCloser(bytes.NewReader(c.body)), Header: http.Header{}}, nil
}

// funcSigner / funcClient delegate to closures (used by the free-running batch cases).
type funcSigner struct{ f func(r *http.Request) error }

func (s *funcSigner) SignRequest(pKey crypto.PrivateKey, pubKeyId string, r *http.Request, body []byte) error {
	return s.f(r)
}
func (s *funcSigner) SignResponse(crypto.PrivateKey, string, http.ResponseWriter, []byte) error {
	return nil
}

type funcClient struct {
	f func(r *http.Request) (*http.Response, error)
}

func (c *funcClient) Do(r *http.Request) (*http.Response, error) { return c.f(r) }

type fixedClock struct{ t time.Time }

func (f fixedClock) Now() time.Time { return f.t }

func headerDiff(a, b http.Header, ignore ...string) []string {
	ig := map[string]bool{}
	for _, i := range ignore {
		ig[http.CanonicalHeaderKey(i)] = true
	}
	var d []string
	for k, v := range a {
		if ig[k] {
			continue
		}
		if strings.Join(v, "\x00") != strings.Join(b[k], "\x00") {
			d = append(d, k)
		}
	}
	for k := range b {
		if _, ok := a[k]; !ok && !ig[k] {
			d = append(d, "+"+k)
		}
	}
	sort.Strings(d)
	return d
}

// seqBodyClient answers the i-th GET with bodies[i] (200) and every POST with 202.
type seqBodyClient struct {
	bodies [][]byte
	gets   int
}

func (c *seqBodyClient) Do(r *http.Request) (*http.Response, error) {
	if r.Method != "GET" {
		return &http.Response{StatusCode: 202, Status: "202", Body: ioutil.NopCloser(bytes.NewReader(nil))}, nil
	}
	b := c.bodies[c.gets%len(c.bodies)]
	c.gets++
	return &http.Response{StatusCode: 200, Status: "200", Body: ioutil.NopCloser(bytes.NewReader(append([]byte(nil), b...)))}, nil
}

// C19 — the bundled transport signs every request, finishes every batch, is race-free.
func C19(tier string) int {
	res := NewResult("C19", tier, "model_checking")
	rsaKey, err := rsa.GenerateKey(rand.Reader, 1024)
	if err != nil {
		fmt.Println(err)
		return 2
	}
	hmacKey := []byte("a shared secret for hmac signing")
	now := time.Date(2020, 2, 29, 23, 59, 58, 0, time.FixedZone("x", 5*3600+1800))
	wantDate := now.UTC().Format(http.TimeFormat)
	urls := []string{"https://r1.example/u/carol/inbox", "https://r1.example:8443/inbox", "https://r1.example/a/b/c?x=1&y=2", "https://R1.Example/Inbox", "http://r1.example/plain",
		"https://r1.example:443/explicit-default-port", "http://r1.example:80/explicit-default-port", "https://[2001:db8::1]/v6", "https://[2001:db8::1]:8443/v6-port", "http://r1.example:8080/"}
	agents := []string{"app", "My App/1.2 (+https://x.example)", "", "relay (go-fed/activity v0.9.0-fork) contact@x.example", "ünïcode-app/2 (go-fed/activity"}
	payloads := [][]byte{[]byte(`{"type":"Note"}`), []byte(""), []byte("not json at all \x00\xff"), bytes.Repeat([]byte("x"), 70000)}

	// ---- (1a) recording signer: what is signed is what is sent ----
	for _, op := range []string{"Dereference", "Deliver"} {
		for _, u := range urls {
			for _, ag := range agents {
				for pi, pl := range payloads {
					if op == "Dereference" && pi > 0 {
						continue
					}
					sg, cl := &recSigner{}, &recClient{status: 200, body: []byte(`{"ok":true}`)}
					// the key id is an opaque string the peer looks the key up by: handed to the signer as it is
					keyIDs := []string{"https://l.example/u/alice#main-key", "https://l.example/users/jos\u00e9#main-key", "https://l.example/u/alice#", "HTTPS://L.Example/u/Alice#Key 1",
						"https://l.example/u/" + strings.Repeat("long", 200) + "#k", "acct:alice@l.example", "https://xn--bcher-kva.example/u/a%2Fb#k?x=1"}
					keyID := keyIDs[(pi+len(u)+len(ag))%len(keyIDs)]
					tp := pub.NewHttpSigTransport(cl, ag, fixedClock{now}, sg, sg, keyID, rsaKey)
					var rerr error
					if op == "Deliver" {
						rerr = tp.Deliver(context.Background(), pl, ap.U(u))
					} else {
						_, rerr = tp.Dereference(context.Background(), ap.U(u))
					}
					res.Case(fmt.Sprintf("rec|%s|%s|%s|%d", op, u, ag, pi))
					rep := M{"check": "C19", "part": "recording-signer", "op": op, "url": u, "agent": ag, "payload": pi}
					bad := func(kind, what string) {
						res.Violate("request|"+kind+"|"+op, fmt.Sprintf("%s %s agent=%q payload#%d: %s", op, u, ag, pi, what), rep)
					}
					if rerr != nil {
						bad("failed", rerr.Error())
						continue
					}
					if len(sg.calls) != 1 || len(cl.reqs) != 1 {
						bad("call-count", fmt.Sprintf("%d sign calls, %d client calls", len(sg.calls), len(cl.reqs)))
						continue
					}
					sc, rq := sg.calls[0], cl.reqs[0]
					h := sc.header
					if h.Get("Date") != wantDate {
						bad("date", fmt.Sprintf("Date at signing time %q, clock %q", h.Get("Date"), wantDate))
					}
					if h.Get("Host") != ap.U(u).Host {
						bad("host", fmt.Sprintf("Host at signing time %q, want %q", h.Get("Host"), ap.U(u).Host))
					}
					ua := h.Get("User-Agent")
					if !strings.HasPrefix(ua, ag+" ") || !strings.Contains(ua[len(ag):], "go-fed/activity") {
						bad("user-agent", fmt.Sprintf("User-Agent at signing time %q (application agent %q must come first, then the library's)", ua, ag))
					}
					if op == "Deliver" {
						if h.Get("Content-Type") != ap.APType {
							bad("content-type", h.Get("Content-Type"))
						}
						if !bytes.Equal(sc.body, pl) || !bytes.Equal(rq.body, pl) {
							bad("body", fmt.Sprintf("signer got %d bytes, client read %d bytes, payload has %d", len(sc.body), len(rq.body), len(pl)))
						}
						if sc.method != "POST" {
							bad("method", sc.method)
						}
					} else {
						if h.Get("Accept") != ap.APType {
							bad("accept", h.Get("Accept"))
						}
						if sc.hasB || sc.method != "GET" {
							bad("get-with-body", fmt.Sprintf("method %s body=%v", sc.method, sc.hasB))
						}
					}
					if sc.key != crypto.PrivateKey(rsaKey) || sc.keyID != keyID {
						bad("key", "signer was not given the configured key / key id")
					}
					if d := headerDiff(sc.header, rq.header, "Signature"); len(d) > 0 {
						bad("altered-after-signing", fmt.Sprintf("headers %v differ between signing and sending", d))
					}
					if rq.header.Get("Signature") != "recorded" {
						bad("signature-dropped", "the header the signer added did not reach the client")
					}
					if sc.url != rq.url {
						bad("url-changed", sc.url+" vs "+rq.url)
					}
				}
			}
		}
	}
	// ---- (1b) real httpsig signers: the signature verifies on what the client receives ----
	type algo struct {
		name string
		a    httpsig.Algorithm
		priv crypto.PrivateKey
		pub  crypto.PublicKey
	}
	algos := []algo{{"rsa-sha256", httpsig.RSA_SHA256, rsaKey, &rsaKey.PublicKey}, {"rsa-sha512", httpsig.RSA_SHA512, rsaKey, &rsaKey.PublicKey}, {"hmac-sha256", httpsig.HMAC_SHA256, hmacKey, hmacKey}}
	headerLists := [][]string{{"(request-target)", "host", "date"}, {"(request-target)", "host", "date", "user-agent"}, {"date"}, {"(request-target)", "date", "host", "accept-charset"}}
	for _, al := range algos {
		for hi, hl := range headerLists {
			for _, u := range urls {
				for pi, pl := range payloads[:3] {
					for _, op := range []string{"Dereference", "Deliver"} {
						if op == "Dereference" && pi > 0 {
							continue
						}
						getHL := append([]string(nil), hl...)
						postHL := append(append([]string(nil), hl...), "digest", "content-type")
						gs, _, e1 := httpsig.NewSigner([]httpsig.Algorithm{al.a}, httpsig.DigestSha256, getHL, httpsig.Signature)
						ps, _, e2 := httpsig.NewSigner([]httpsig.Algorithm{al.a}, httpsig.DigestSha256, postHL, httpsig.Signature)
						if e1 != nil || e2 != nil {
							continue
						}
						cl := &recClient{status: 200, body: []byte(`{}`)}
						al := al
						cl.verify = func(r *http.Request) error {
							v, err := httpsig.NewVerifier(r)
							if err != nil {
								return err
							}
							return v.Verify(al.pub, al.a)
						}
						tp := pub.NewHttpSigTransport(cl, "app", fixedClock{now}, gs, ps, "key-1", al.priv)
						var rerr error
						if op == "Deliver" {
							rerr = tp.Deliver(context.Background(), pl, ap.U(u))
						} else {
							_, rerr = tp.Dereference(context.Background(), ap.U(u))
						}
						res.Case(fmt.Sprintf("sig|%s|%d|%s|%d|%s", al.name, hi, u, pi, op))
						rep := M{"check": "C19", "part": "real-signer", "algorithm": al.name, "headers": hl, "url": u, "op": op}
						if rerr != nil {
							res.Violate("signature|request-failed|"+op, fmt.Sprintf("%s %s with %s over %v: %v", op, u, al.name, hl, rerr), rep)
						} else if len(cl.verr) > 0 {
							res.Violate("signature|does-not-verify|"+op, fmt.Sprintf("%s %s with %s over %v: the signature does not verify on what the client received: %v", op, u, al.name, hl, cl.verr[0]), rep)
						} else if len(cl.reqs) != 1 {
							res.Violate("signature|client-calls|"+op, fmt.Sprint(len(cl.reqs)), rep)
						}
					}
				}
			}
		}
	}
	// ---- (1c) histories on one transport (and across transports in one process): the bytes an
	// earlier Dereference returned stay what they were whatever is fetched afterwards ----
	{
		bodies := [][]byte{[]byte(`{"id":"https://r1.example/doc/1","type":"Note","content":"first"}`), []byte(`{"id":"https://r1.example/doc/2","type":"Person","name":"a considerably longer second document ........................................"}`),
			[]byte(`{"x":1}`), []byte(``), []byte(`{"id":"https://r1.example/doc/5","type":"Note","content":"fifth"}`)}
		for _, shared := range []bool{true, false} {
			var tp pub.Transport
			var got [][]byte
			sc := &seqBodyClient{bodies: bodies}
			for i := range bodies {
				if tp == nil || !shared {
					sg := &recSigner{}
					tp = pub.NewHttpSigTransport(sc, "app", fixedClock{now}, sg, sg, "k", rsaKey)
				}
				r, err := tp.Dereference(context.Background(), ap.U(fmt.Sprintf("https://r1.example/doc/%d", i+1)))
				if err != nil {
					res.Violate("history|dereference-failed", fmt.Sprintf("Dereference %d: %v", i+1, err), M{"check": "C19", "part": "history"})
					continue
				}
				got = append(got, r)
				// (also a delivery in between: it must not disturb held results either)
				tp.Deliver(context.Background(), []byte(`{"type":"Like"}`), ap.U("https://r2.example/in"))
				for j := range got {
					if string(got[j]) != string(bodies[j]) {
						res.Violate("history|earlier-dereference-result-changed", fmt.Sprintf("after fetch %d the bytes returned by fetch %d read %q, they were %q", i+1, j+1, trunc(string(got[j]), 80), trunc(string(bodies[j]), 80)),
							M{"check": "C19", "part": "history", "shared_transport": shared})
					}
				}
			}
			res.Case(fmt.Sprintf("history|dereference-results-held|shared=%v", shared))
		}
	}
	// ---- (2) status classification ----
	for st := 100; st <= 599; st++ {
		for _, op := range []string{"Dereference", "Deliver"} {
			sg, cl := &recSigner{}, &recClient{status: st, body: []byte("the body")}
			tp := pub.NewHttpSigTransport(cl, "app", fixedClock{now}, sg, sg, "k", rsaKey)
			res.Case(fmt.Sprintf("status|%d|%s", st, op))
			rep := M{"check": "C19", "part": "status", "status": st, "op": op}
			if op == "Deliver" {
				err := tp.Deliver(context.Background(), []byte("x"), ap.U(urls[0]))
				ok := st == 200 || st == 201 || st == 202
				if (err == nil) != ok {
					res.Violate(fmt.Sprintf("status|deliver-%d", st), fmt.Sprintf("Deliver with status %d: err=%v", st, err), rep)
				}
			} else {
				b, err := tp.Dereference(context.Background(), ap.U(urls[0]))
				if (err == nil) != (st == 200) || (st == 200 && string(b) != "the body") || (st != 200 && b != nil) {
					res.Violate(fmt.Sprintf("status|dereference-%d", st), fmt.Sprintf("Dereference with status %d: body=%q err=%v", st, b, err), rep)
				}
			}
		}
	}
	for _, op := range []string{"Dereference", "Deliver"} {
		sg, cl := &recSigner{}, &recClient{err: fmt.Errorf("connection refused")}
		tp := pub.NewHttpSigTransport(cl, "app", fixedClock{now}, sg, sg, "k", rsaKey)
		var err error
		if op == "Deliver" {
			err = tp.Deliver(context.Background(), []byte("x"), ap.U(urls[0]))
		} else {
			_, err = tp.Dereference(context.Background(), ap.U(urls[0]))
		}
		res.Case("status|transport-error|" + op)
		if err == nil {
			res.Violate("status|transport-error-swallowed|"+op, op+" returns nil on a transport error", M{"check": "C19", "op": op})
		}
		sg2 := &recSigner{fail: map[int]bool{0: true}}
		cl2 := &recClient{}
		tp2 := pub.NewHttpSigTransport(cl2, "app", fixedClock{now}, sg2, sg2, "k", rsaKey)
		if op == "Deliver" {
			err = tp2.Deliver(context.Background(), []byte("x"), ap.U(urls[0]))
		} else {
			_, err = tp2.Dereference(context.Background(), ap.U(urls[0]))
		}
		if err == nil || len(cl2.reqs) != 0 {
			res.Violate("status|unsigned-request-sent|"+op, fmt.Sprintf("%s after a signer error: err=%v, client calls=%d", op, err, len(cl2.reqs)), M{"check": "C19", "op": op})
		}
	}
	// ---- (2b) batches, free-running with the unmodified transport: every per-recipient outcome
	// combination for n = 0..3 (one duplicate variant); attempt counts, "error iff a failure" and
	// "names each failure" do not depend on the schedule and are judged here on whatever schedule
	// the runtime produces (the schedule-dependent clauses are part (3)'s) ----
	type bOut struct {
		name   string
		status int
		cerr   bool
		serr   bool
	}
	bouts := []bOut{{"200", 200, false, false}, {"202", 202, false, false}, {"404", 404, false, false}, {"500", 500, false, false}, {"client-error", 0, true, false}, {"signer-error", 0, false, true}}
	burls := []string{"https://r1.example/in", "https://r2.example/in", "https://r3.example/in"}
	stuck := false
	var genB func(n int, cur []int)
	genB = func(n int, cur []int) {
		if stuck {
			return // one hanging batch is enough; its goroutines cannot be stopped
		}
		if len(cur) < n {
			for i := range bouts {
				genB(n, append(cur, i))
			}
			return
		}
		for _, dup := range []bool{false, true} {
			if dup && n < 2 {
				continue
			}
			rec := append([]string(nil), burls[:n]...)
			if dup {
				rec[n-1] = rec[0]
			}
			plan := map[string][]bOut{}
			nFail := 0
			var names []string
			for i, u := range rec {
				plan[u] = append(plan[u], bouts[cur[i]])
				names = append(names, bouts[cur[i]].name)
				o := bouts[cur[i]]
				if o.cerr || o.serr || !(o.status == 200 || o.status == 201 || o.status == 202) {
					nFail++
				}
			}
			var mu sync.Mutex
			signs, dos := map[string]int{}, map[string]int{}
			sg := &funcSigner{f: func(r *http.Request) error {
				mu.Lock()
				defer mu.Unlock()
				u := r.URL.String()
				k := signs[u]
				signs[u]++
				if k < len(plan[u]) && plan[u][k].serr {
					return fmt.Errorf("signer-failure-token-%d", k)
				}
				return nil
			}}
			cl := &funcClient{f: func(r *http.Request) (*http.Response, error) {
				mu.Lock()
				defer mu.Unlock()
				u := r.URL.String()
				k := dos[u]
				for k < len(plan[u]) && plan[u][k].serr {
					k++
				}
				dos[u] = k + 1
				o := bouts[0]
				if k < len(plan[u]) {
					o = plan[u][k]
				}
				if o.cerr {
					return nil, fmt.Errorf("client-failure-token-%d", k)
				}
				return &http.Response{StatusCode: o.status, Status: fmt.Sprint(o.status), Body: ioutil.NopCloser(bytes.NewReader(nil))}, nil
			}}
			tp := pub.NewHttpSigTransport(cl, "app", fixedClock{now}, sg, sg, "k", rsaKey)
			var rs []*url.URL
			for _, u := range rec {
				rs = append(rs, ap.U(u))
			}
			var err error
			done := make(chan struct{})
			go func() {
				defer close(done)
				err = tp.BatchDeliver(context.Background(), []byte("payload"), rs)
			}()
			res.Case(fmt.Sprintf("batch|%d|%v|%v", n, dup, names))
			rep := M{"check": "C19", "part": "batch-outcomes", "recipients": rec, "outcomes": names}
			select {
			case <-done:
			case <-time.After(60 * time.Second):
				res.Violate("batch|does-not-finish", fmt.Sprintf("recipients %v outcomes %v: BatchDeliver did not return within 60 s", rec, names), rep)
				stuck = true
				return
			}
			if (err != nil) != (nFail > 0) {
				res.Violate("batch|error-iff-failure", fmt.Sprintf("recipients %v outcomes %v: BatchDeliver returned %v", rec, names, err), rep)
			}
			if err != nil {
				got := strings.Count(err.Error(), "failure-token-") + strings.Count(err.Error(), "request to ")
				if got != nFail {
					res.Violate("batch|error-does-not-name-each-failure", fmt.Sprintf("recipients %v outcomes %v: %d attempts failed, the error names %d: %q", rec, names, nFail, got, err.Error()), rep)
				}
			}
			want := map[string]int{}
			for _, u := range rec {
				want[u]++
			}
			for u, k := range want {
				if signs[u] != k {
					res.Violate("batch|attempt-count", fmt.Sprintf("recipients %v: %s was attempted %d times, it is listed %d times", rec, u, signs[u], k), rep)
				}
			}
		}
	}
	for n := 0; n <= 3; n++ {
		genB(n, nil)
	}
	nSeq := res.Evaluations

	// ---- (3) batches under the controlled scheduler (separate binary built with the sync overlay) ----
	if exe := os.Getenv("VERIF_C19_SCHED"); exe != "" {
		nsh := 16
		type shardOut struct {
			m   M
			err error
		}
		outs := make([]shardOut, nsh)
		parallel(nsh, func(i int) {
			cmd := exec.Command(exe, "sched", tier, fmt.Sprint(i), fmt.Sprint(nsh))
			cmd.Env = append(os.Environ(), "GOMAXPROCS=1")
			b, err := cmd.Output()
			if err == nil {
				err = json.Unmarshal(b, &outs[i].m)
			}
			outs[i].err = err
		})
		var examples []interface{}
		for i, o := range outs {
			if o.err != nil {
				res.Exhaustive = false
				fmt.Fprintf(os.Stderr, "C19: schedule explorer shard %d failed: %v\n", i, o.err)
				continue
			}
			sched := o.m
			res.States += int(sched["states"].(float64))
			res.Transitions += int(sched["transitions"].(float64))
			res.Traces += int(sched["executions"].(float64))
			res.Evaluations += int(sched["executions"].(float64))
			if ex, _ := sched["exhaustive"].(bool); !ex {
				res.Exhaustive = false
			}
			for _, v := range sched["violations"].([]interface{}) {
				vm := v.(map[string]interface{})
				res.Violate(vm["key"].(string), vm["what"].(string), vm["replay"])
			}
			if i < 2 {
				for _, s := range sched["samples"].([]interface{}) {
					res.Sample(s)
				}
				examples = append(examples, sched["scenarios"])
			}
			for k := 0; k < int(sched["distinct"].(float64)); k++ {
				res.Nontrivial[fmt.Sprintf("sched|%d|%d", i, k)] = struct{}{}
			}
		}
		res.Extra["schedule_exploration"] = examples
	} else {
		res.Exhaustive = false
		res.Extra["schedule_exploration"] = "unavailable: the sync overlay could not be generated for the current pub/transport.go"
	}
	// ---- (4) free-running race pass (supplementary) ----
	if rf := os.Getenv("VERIF_C19_RACE"); rf != "" {
		b, _ := os.ReadFile(rf)
		txt := string(b)
		res.Extra["race_pass"] = tail(strings.TrimSpace(txt), 300)
		if strings.Contains(txt, "DATA RACE") {
			res.Violate("race|data-race-reported", "the Go race detector reports a data race in the free-running batch test: "+tail(txt, 1500), M{"check": "C19", "part": "race", "log": rf})
		} else if strings.Contains(txt, "FAIL") {
			res.Violate("race|free-running-test-failed", "the free-running batch test fails: "+tail(txt, 1500), M{"check": "C19", "part": "race", "log": rf})
		}
	}
	if res.States == 0 {
		res.States, res.Transitions = 1, 1
	}
	res.Traces += nSeq
	res.Sample(M{"part": "recording-signer", "op": "Deliver", "url": urls[1], "agent": agents[1], "checked": "Date/Host/User-Agent/Content-Type at signing time, key, key id, body bytes, headers unchanged until Do"})
	res.Rule = fmt.Sprintf("(1) {Dereference, Deliver} x recording signer and real httpsig RSA-SHA256 / RSA-SHA512 / HMAC-SHA256 signers x 4 signed-header lists x 5 agents (two of them naming the library themselves) x 10 URLs x 4 payloads x 7 key ids (non-ASCII, empty fragment, upper case and a space, 800 characters, acct:, escapes) in turn: headers at signing time, key, key id, body bytes, nothing altered between signing and Do, real signatures verified with httpsig.NewVerifier on the request the client received; (2) every status 100..599 and a transport error for both operations, signer error; (3) BatchDeliver under a cooperative scheduler (sync overlay of pub/transport.go): recipients 0..3 with duplicates x per-recipient outcome {200, 202, 404, 500, client error, signer error}, batches of 5 and 6 (thorough: 9) recipients under four outcome patterns (all fail / all but the last / only the last / every second) explored without preemptions (thorough: one for five recipients), two batches and a Dereference on one transport value, two / three concurrent Dereferences, two concurrent single Deliver calls, both together, and batch + single Deliver + Dereference (calls that share a signer), all interleavings within the preemption bound; oracle: no deadlock, one attempt per entry, error iff a failure and naming each, signer calls never overlap; (4) free-running -race pass; %d sequential cases", nSeq)
	res.Assumptions = []string{"interleavings at the granularity of mutex / WaitGroup / channel / go / SignRequest / Do operations", "unsynchronised accesses between those points are looked for by the supplementary -race run only"}
	return res.Finish()
}
