package checks

import "fmt"

// Replay dispatches a replay document to the check that wrote it.
func Replay(rep M) {
	switch rep["check"] {
	case "C08":
		ReplayC08(rep)
	case "C09":
		ReplayC09(rep)
	default:
		fmt.Println("no replayer for", rep["check"])
	}
}
