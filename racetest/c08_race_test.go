package racetest

import (
	"os"
	"sync"
	"testing"
	"time"

	ap "verif/apmodel"
	"verif/checks"
)

// TestC08RaceRequests runs the C08 concurrency scenarios free-running (real goroutines, real
// per-id mutexes in the application model) under the race detector. It supplements the
// cooperative-scheduler exploration, whose hand-offs hide unsynchronised accesses.
func TestC08RaceRequests(t *testing.T) {
	iters := 30
	if os.Getenv("VERIF_TIER") == "thorough" {
		iters = 300
	}
	for _, cs := range checks.ConcCorpus(true) {
		if cs.Name == "forward-opposite-order" {
			continue // the recorded lock-order deadlock (known finding) would hang a free-running run
		}
		cs := cs
		t.Run(cs.Name, func(t *testing.T) {
			ref := map[string]bool{}
			for _, p := range checks.Perms(len(cs.Reqs)) {
				ref[cs.RunSeq(p).MultisetCanonical()] = true
			}
			for it := 0; it < iters; it++ {
				a := cs.World()
				a.Sync = true
				a.Actor(ap.Both)
				reqs := make([]*ap.Req, len(cs.Reqs))
				for i := range cs.Reqs {
					reqs[i] = a.NewReq(nil)
				}
				var wg sync.WaitGroup
				start := make(chan struct{})
				for i, rq := range cs.Reqs {
					i, rq := i, rq
					wg.Add(1)
					go func() {
						defer wg.Done()
						<-start
						rq.OnReq(a, nil, reqs[i])
					}()
				}
				close(start)
				done := make(chan struct{})
				go func() { wg.Wait(); close(done) }()
				select {
				case <-done:
				case <-time.After(90 * time.Second):
					t.Fatalf("requests did not complete within 90s (deadlock?)")
				}
				if !ref[a.MultisetCanonical()] {
					t.Fatalf("iteration %d: final collections match no sequential order:\n%s", it, a.MultisetCanonical())
				}
			}
		})
	}
}
