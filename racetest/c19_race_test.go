// Package racetest holds the free-running (real goroutines, real mutexes, Go race detector) passes
// that supplement the cooperative-scheduler exploration: a cooperative scheduler's hand-offs are
// happens-before edges, so the detector is blind under it.
package racetest

import (
	"bytes"
	"context"
	"crypto/rand"
	"crypto/rsa"
	"fmt"
	"io/ioutil"
	"net/http"
	"net/url"
	"os"
	"sync"
	"sync/atomic"
	"testing"
	"time"

	"github.com/go-fed/activity/pub"
	"github.com/go-fed/httpsig"
)

type clk struct{}

func (clk) Now() time.Time { return time.Now() }

type verifyingClient struct {
	pub   *rsa.PublicKey
	bad   int64
	calls int64
}

func (c *verifyingClient) Do(req *http.Request) (*http.Response, error) {
	atomic.AddInt64(&c.calls, 1)
	v, err := httpsig.NewVerifier(req)
	if err != nil || v.Verify(c.pub, httpsig.RSA_SHA256) != nil {
		atomic.AddInt64(&c.bad, 1)
	}
	if req.Body != nil {
		ioutil.ReadAll(req.Body)
	}
	return &http.Response{StatusCode: 202, Status: "202 Accepted", Body: ioutil.NopCloser(bytes.NewReader(nil))}, nil
}

func TestC19RaceBatches(t *testing.T) {
	key, err := rsa.GenerateKey(rand.Reader, 1024)
	if err != nil {
		t.Fatal(err)
	}
	gs, _, _ := httpsig.NewSigner([]httpsig.Algorithm{httpsig.RSA_SHA256}, httpsig.DigestSha256, []string{"(request-target)", "host", "date"}, httpsig.Signature)
	ps, _, _ := httpsig.NewSigner([]httpsig.Algorithm{httpsig.RSA_SHA256}, httpsig.DigestSha256, []string{"(request-target)", "host", "date", "digest"}, httpsig.Signature)
	cl := &verifyingClient{pub: &key.PublicKey}
	tp := pub.NewHttpSigTransport(cl, "app", clk{}, gs, ps, "key", key)
	batches, n := 3, 64
	if os.Getenv("VERIF_TIER") == "thorough" {
		batches, n = 8, 64
	}
	var wg sync.WaitGroup
	for b := 0; b < batches; b++ {
		wg.Add(1)
		go func(b int) {
			defer wg.Done()
			var rs []*url.URL
			for i := 0; i < n; i++ {
				u, _ := url.Parse(fmt.Sprintf("https://r%d.example/u/%d/inbox", b, i%50)) // duplicates allowed
				rs = append(rs, u)
			}
			if err := tp.BatchDeliver(context.Background(), []byte(fmt.Sprintf(`{"batch":%d}`, b)), rs); err != nil {
				t.Errorf("batch %d: %v", b, err)
			}
			u, _ := url.Parse("https://r9.example/doc")
			tp.Dereference(context.Background(), u)
		}(b)
	}
	wg.Wait()
	if cl.bad != 0 {
		t.Errorf("%d of %d requests carried a signature that does not verify", cl.bad, cl.calls)
	}
	if cl.calls != int64(batches*n+batches) {
		t.Errorf("client saw %d requests, expected %d", cl.calls, batches*n+batches)
	}
}

// failingClient fails the recipients whose path index is even: half of them with a 500 answer, half
// with a transport error that names the URL.
type failingClient struct{ calls int64 }

func failsAt(u *url.URL) int {
	var b, i int
	fmt.Sscanf(u.Host, "r%d.example", &b)
	fmt.Sscanf(u.Path, "/u/%d/inbox", &i)
	if i%2 != 0 {
		return 0
	}
	if i%4 == 0 {
		return 1
	}
	return 2
}

func (c *failingClient) Do(req *http.Request) (*http.Response, error) {
	atomic.AddInt64(&c.calls, 1)
	if req.Body != nil {
		ioutil.ReadAll(req.Body)
	}
	switch failsAt(req.URL) {
	case 1:
		return &http.Response{StatusCode: 500, Status: "500 Internal Server Error", Body: ioutil.NopCloser(bytes.NewReader(nil))}, nil
	case 2:
		return nil, fmt.Errorf("dial %s: connection refused", req.URL)
	}
	return &http.Response{StatusCode: 202, Status: "202 Accepted", Body: ioutil.NopCloser(bytes.NewReader(nil))}, nil
}

// TestC19RaceFailingBatches: overlapping batches in which many recipients fail at the same time; every
// batch must return an error that names each failed recipient, and nothing may race.
func TestC19RaceFailingBatches(t *testing.T) {
	key, err := rsa.GenerateKey(rand.Reader, 1024)
	if err != nil {
		t.Fatal(err)
	}
	gs, _, _ := httpsig.NewSigner([]httpsig.Algorithm{httpsig.RSA_SHA256}, httpsig.DigestSha256, []string{"(request-target)", "host", "date"}, httpsig.Signature)
	ps, _, _ := httpsig.NewSigner([]httpsig.Algorithm{httpsig.RSA_SHA256}, httpsig.DigestSha256, []string{"(request-target)", "host", "date", "digest"}, httpsig.Signature)
	cl := &failingClient{}
	tp := pub.NewHttpSigTransport(cl, "app", clk{}, gs, ps, "key", key)
	batches, n, rounds := 4, 48, 6
	if os.Getenv("VERIF_TIER") == "thorough" {
		rounds = 40
	}
	for round := 0; round < rounds; round++ {
		var wg sync.WaitGroup
		for b := 0; b < batches; b++ {
			wg.Add(1)
			go func(b int) {
				defer wg.Done()
				var rs []*url.URL
				for i := 0; i < n; i++ {
					u, _ := url.Parse(fmt.Sprintf("https://r%d.example/u/%d/inbox", b, i))
					rs = append(rs, u)
				}
				err := tp.BatchDeliver(context.Background(), []byte(fmt.Sprintf(`{"batch":%d}`, b)), rs)
				if err == nil {
					t.Errorf("batch %d: no error although half of the recipients failed", b)
					return
				}
				for _, u := range rs {
					named := bytes.Contains([]byte(err.Error()), []byte(u.String()+" ")) || bytes.Contains([]byte(err.Error()), []byte(u.String()+":"))
					if failsAt(u) != 0 && !named {
						t.Errorf("batch %d: failed recipient %s is not named by the batch error", b, u)
					}
					if failsAt(u) == 0 && named {
						t.Errorf("batch %d: recipient %s succeeded but is named as a failure", b, u)
					}
				}
			}(b)
		}
		wg.Wait()
	}
	if want := int64(rounds * batches * n); cl.calls != want {
		t.Errorf("client saw %d requests, expected %d (every recipient exactly once)", cl.calls, want)
	}
}
