package racetest

import (
	"context"
	"encoding/json"
	"fmt"
	"sync"
	"testing"

	"github.com/go-fed/activity/streams"
)

// TestC11RaceDecode decodes and encodes documents from many goroutines at once under the race
// detector: the decoder is documented to be usable by concurrent requests, so any shared mutable
// state inside it (caches, scratch buffers) must be synchronised. Each goroutine uses its own
// @context spellings so that first-use paths are hit concurrently.
func TestC11RaceDecode(t *testing.T) {
	var wg sync.WaitGroup
	for g := 0; g < 16; g++ {
		wg.Add(1)
		go func(g int) {
			defer wg.Done()
			for i := 0; i < 200; i++ {
				ctx := []interface{}{"https://www.w3.org/ns/activitystreams", fmt.Sprintf("https://ext%d.example/ns/%d", g, i%7)}
				var ctxv interface{} = ctx
				if i%3 == 0 {
					ctxv = "https://www.w3.org/ns/activitystreams"
				} else if i%3 == 1 {
					ctxv = []interface{}{"https://www.w3.org/ns/activitystreams", "http://joinmastodon.org/ns", map[string]interface{}{"x": fmt.Sprintf("https://alias%d.example/%d#", g, i)}}
				}
				doc := map[string]interface{}{"@context": ctxv, "type": "Create", "id": fmt.Sprintf("https://x.example/a/%d/%d", g, i),
					"actor": "https://x.example/u", "to": []interface{}{"https://x.example/f"},
					"object": map[string]interface{}{"type": "Note", "id": "https://x.example/n", "content": "c", "tag": map[string]interface{}{"type": "Emoji", "name": ":x:"}}}
				b, _ := json.Marshal(doc)
				var m map[string]interface{}
				json.Unmarshal(b, &m)
				v, err := streams.ToType(context.Background(), m)
				if err != nil {
					t.Errorf("decode: %v", err)
					return
				}
				if _, err := streams.Serialize(v); err != nil {
					t.Errorf("encode: %v", err)
					return
				}
			}
		}(g)
	}
	wg.Wait()
}
