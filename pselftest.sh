#!/bin/bash
# pselftest.sh [-j N] [pattern] — like selftest.sh (own deliberate changes in mutants/*.patch), but every
# patch is applied to its own scratch worktree of /repo and the check runs against that copy.
cd "$(dirname "$0")"; export ROOT="$(pwd)"
J=4; if [ "$1" = "-j" ]; then J=$2; shift 2; fi
one() {
  p=$1; n=$(basename $p .patch); prop=${n%%-*}; cd $ROOT
  WT=/tmp/pst-$$-$n; OUT=/tmp/pst-$$-$n.out
  git -C /repo worktree add --detach $WT HEAD -q || { echo "$n: WORKTREE-FAILED"; return; }
  if ! git -C $WT apply $p 2>/dev/null; then echo "$n: PATCH-DOES-NOT-APPLY"; git -C /repo worktree remove --force $WT; return; fi
  mkdir -p $OUT
  VERIF_REPO=$WT VERIF_OUT=$OUT timeout 2400 ./run.sh $prop quick > $OUT/log 2>&1
  if grep -q "^VIOLATION" $OUT/log; then echo "$n: DETECTED [$(grep -m1 '^  key=' $OUT/log | sed 's/^  key=//')]"; else echo "$n: NOT DETECTED ($(tail -1 $OUT/log | cut -c1-120))"; fi
  git -C /repo worktree remove --force $WT; rm -rf $OUT
}
export -f one
ls $ROOT/mutants/${1:-*}.patch | xargs -P $J -I{} bash -c 'one {}'
