
chk("C12","exploration",
 "All 63 x 101 (type, property) pairs and all 101 x (63 type kinds + 13 literal/junk samples + IRI) (property, value kind) pairs are decoded from generated documents and inspected through the typed accessors by reflection; typed accessors are compared with an independent evaluation over enumerated lexical grammars (durations, timestamps x zones, counts, floats, booleans, URIs, language maps). The oracle is computed from the vocabulary JSON-LD files by code that shares nothing with astool.",
 "Trusted: the ontology oracle (verif/onto), the lexical acceptance table (three-valued: rfc kinds / 0-1 booleans / typeless objects are left open). If the oracle-generated binding table does not compile, that is reported as the violation.",
 "bounded-exhaustive enumeration of the (type,property) and (property,kind) products against an independent ontology oracle","DESIGN.md 3 C12","onto")
chk("C13","exploration",
 "All 63 x 63 ordered type pairs x {Extends, IsExtendedBy, IsOrExtends, IsDisjointWith package functions, IsExtending method} are evaluated on the generated code and compared with the subClassOf/disjointWith closure computed independently from the vocabulary files; plus the converse/symmetry/irreflexivity laws.",
 "Trusted: the ontology oracle (verif/onto). Complete in both tiers.",
 "exhaustive enumeration of all type pairs against an independent ontology oracle","DESIGN.md 3 C13","onto")
chk("C18","model_checking",
 "For every non-functional property all operation sequences up to depth 4 (thorough 5) over {Append,Prepend,Insert,Set,Remove,Swap} x all valid indices x 2 IRI values, and to depth 3 (4) with a mixed-kind alphabet, are applied to the real container (rebuilt by replay for every sequence) and after every step the whole observation (Len, Empty, At, forward and backward iteration, Serialize, reported kinds) is compared with a plain slice; every functional property: all Set*/Clear sequences up to length 4.",
 "Trusted: the slice reference model; element observations are taken from fresh single-element containers (container logic, not per-kind serialisation, is judged).",
 "explicit enumeration of all operation sequences to a depth bound against a reference model","DESIGN.md 3 C18","onto")

chk("C01","exploration",
 "About 150,000 documents derived from the ontology grammar (every (type, property, kind) x shape, nesting to depth 3, unknown members of 10 kinds under 3 key spellings, 22 accepted-but-non-canonical shapes) are decoded and re-encoded by the real code; canonical documents must come back JSON-equal with an @context set equal to the vocabularies an independent oracle computes; every accepted document must lose no member and be stable under a second round trip.",
 "Trusted: the ontology oracle and the canonical sample table; vocabulary URIs compared after URL normalisation.",
 "bounded-exhaustive enumeration of a document grammar against JSON equality and an independent context oracle","DESIGN.md 3 C01","onto")
chk("C14","exploration",
 "All 63 x 63 (value type, callback type) pairs for the three resolvers, all callback lists up to length 3 (thorough 4) over a 7-element per-type alphabet, all 'type' arrays up to length 3 over 5 names x 6 callback sets, predicate outcomes and 13 wrong constructor shapes are executed with callbacks manufactured by reflect.MakeFunc; oracle: exactly the first own-type callback runs and its error comes back by identity, otherwise nothing runs and IsUnmatchedErr holds.",
 "Trusted: reflect.MakeFunc callbacks are matched by the resolvers' type switches exactly like hand-written functions (checked). For multi-valued type the own type is the first known entry (ToType must agree).",
 "bounded-exhaustive enumeration of (value, callback list) combinations against a first-match oracle","DESIGN.md 3 C14","onto")

chk("C11","exploration",
 "Decoder: every type x every member name x 36 junk values x {scalar, list} through decode-encode-decode-encode (about 0.9 M documents) plus every vocabulary example with each node mutated; handlers: for each of ~65 scenarios covering all entry points, every JSON node of the request body and of every stored / dereferenced document the run reads is mutated by 19 operators one at a time (thorough: two at a time), plus whole-document replacements and recursion limits; the oracle is: no panic (recovered and attributed to the top library frame and its source line) and return within a seam-call horizon; shards run in worker processes so that a fatal error is attributed, not fatal to the check; plus a supplementary concurrent-decode -race pass.",
 "Bounded junk alphabet and grammar mutations replace arbitrary byte strings (coverage-guided fuzzing is sampling and is not used). A hang that makes no seam call is caught only by the worker timeout.",
 "bounded-exhaustive mutation enumeration (deviation bound 1 / 2) over request bodies and environment documents","DESIGN.md 3 C11")

chk("C02","exploration",
 "Federation graphs (actors dereferencable / with stored inbox / missing / garbled / unknown type, nested and cyclic collections and pages, Public in both spellings, the sender) x every ordered sequence of <= 2 (thorough 3) addressed entries x 3 placements over the five addressing properties x depth limits are delivered through Send and client POST on the real code; an independent recursive function over the graph description gives the expected inbox set and the set of IRIs that may be dereferenced; the BatchDeliver call must be single, duplicate-free and equal to the expected set; plus all two-delivery histories through one Actor instance (same / different outbox).",
 "Trusted: the graph oracle; order of recipients and repeated dereferences are not asserted; non-actor / inbox-less documents are outside the alphabet.",
 "bounded-exhaustive enumeration of federation graphs and addressings against a reference model","DESIGN.md 3 C02")

chk("C03","exploration",
 "Every outbox input shape (bare objects, Create with 1..2 (thorough 3) objects, Like/Announce/Update/Add with an embedded object, Follow) x 5 hidden-recipient options independently on the activity and each embedded object x to x 4 actor/entry combinations, automatic Accept/Reject of a Follow with hidden recipients, and the GET handler over every type that has 'object' with bto/bcc at object depth 0..3 in 4 list shapes are executed on the real code; every payload handed to the transport and every served body is parsed and searched for bto/bcc; hidden recipients must still be among the recipients; plus every single seam fault for a sample of inputs (no payload may carry bto/bcc whatever fails).",
 "Trusted: the application model's delivery log. Stored copies may keep bto/bcc; deeper nesting is not asserted for delivery payloads.",
 "bounded-exhaustive enumeration of addressing shapes against a payload scanner","DESIGN.md 3 C03")
chk("C20","exploration",
 "All ordered-collection pages with item sequences of length 0..5 (thorough 6) over a 6-element alphabet are served through GetInbox and GetOutbox, and values of every vocabulary type, a Tombstone, a missing value and a failing Get through the handler, at 25 clock instants in 5 zones; body, de-duplication, Content-Type, Date and Digest (recomputed over the bytes written) and status are compared with a reference computed from the description.",
 "Trusted: counting writer; the decoder/encoder round trip is exact for these documents (C01).",
 "bounded-exhaustive enumeration of page contents against a first-occurrence reference model","DESIGN.md 3 C20")

chk("C04","exploration",
 "Each handled inbox activity type with every sequence of 1..2 (thorough 3) objects / targets / actors from per-type alphabets, OnFollow modes, Follow object variants and 4 callback configurations (about 8,000 requests) runs on the real handlers; a reference model of the documented default effect is applied to the initial state and diffed against the real final state, expected automatic Accept/Reject deliveries and callback order are compared; plus single faults inside the default effect (no callback / response after a failed step).",
 "Trusted: the reference model (written from the documentation); order among several followers not asserted; partial application before an error follows list order.",
 "bounded-exhaustive input enumeration against a reference model (differential state comparison)","DESIGN.md 3 C04")
chk("C06","exploration",
 "Update/Delete with every sequence of 1..2 (3) object hosts that contains a host that must be refused, Accept against 7 stored-Follow situations x embedded/IRI x 6 actor sets, Undo with 8 actor-set relations, and every sequence of 1..3 activity actors (IRI/embedded) x blocked subsets run on the real handlers; refusal must leave the state unchanged beyond the inbox entry, Blocked must receive exactly the actors' own ids before any side effect.",
 "Trusted: reference expectations per family; hosts differing only in case or explicit default port are not asserted.",
 "bounded-exhaustive input enumeration against per-family authority oracles","DESIGN.md 3 C06")

chk("C16","exploration",
 "Client Update (16 stored member subsets x 81 member assignments incl. nulls x 1..2 objects), Delete (1..2(3) objects, 4 timestamp variants, IRI/embedded), Add/Remove (all object and distinct-target sequences up to length 2(3), owned targets holding duplicates), Like, Block and the missing object/target family run on the real outbox handlers for Social-only and both protocols; a JSON reference model (merge + null deletion, Tombstone fields, owned-collection edits, liked front insertion, Block undelivered, 400 + unchanged state) is diffed against the real final state.",
 "Trusted: the reference model; nulls are looked for inside the activity's object.",
 "bounded-exhaustive input enumeration against a reference model (differential state comparison)","DESIGN.md 3 C16")

chk("C05","model_checking",
 "(1) about 55,000 outbox inputs (Creates and bare objects with overlapping recipient / attribution sets from a 3-IRI alphabet, other activity types, 4 entry/actor combinations) are posted to the real handlers and the stored activity and objects judged with set semantics (wrapping, fresh distinct ids, attribution closure, addressing unions, storage, outbox position, persistence-before-delivery order, Location); (2) explicit-state search over histories: every sequence of up to 5 (thorough 7) posts over a 7-post alphabet, each transition a real request on a cloned application state, with the outbox invariant checked in every state; (3) every choice of <= 1 (thorough 2) failing seam calls for ~600 posts: nothing is delivered and success is not reported after a failed persistence step.",
 "Trusted: application-state cloning (the model is ours), set-semantics oracle. Order inside addressing lists not asserted.",
 "explicit-state search over operation histories + bounded-exhaustive input and fault-sequence enumeration","DESIGN.md 3 C05")

chk("C17","model_checking",
 "Activities over every addressing sequence (<= 2, thorough 3 entries from owned Collection / OrderedCollection / foreign collection / owned non-collection / actor) x every reply chain up to depth 3 (5) with embedded / dereferenced / missing / unknown-type links and an owned or foreign end x depth limits x 3 filters are delivered along 5 histories (1..3 deliveries to one or two local inboxes) as sequences of real requests on one application state; oracle: forwarded exactly once, on first sight, iff an owned collection is addressed and an owned value lies within the limit; filter offered exactly the owned addressed collections and obeyed; payload equals the received body; recorded as seen exactly once.",
 "Trusted: chain-reach computation of the oracle; locks counted not blocking; non-JSON documents left to C11.",
 "bounded-exhaustive enumeration of activities x delivery histories (state exploration over request sequences) against a reference predicate","DESIGN.md 3 C17")

chk("C19","model_checking",
 "(1) Dereference/Deliver x recording signer and real httpsig RSA-SHA256/RSA-SHA512/HMAC-SHA256 signers x 4 header lists x 3 agents x 5 URLs x 4 payloads: headers at signing time, key, key id, body bytes, nothing altered until Do, signatures verified with httpsig.NewVerifier on what the client received; (2) every status 100..599 and transport / signer errors; (3) BatchDeliver under a cooperative scheduler, with pub/transport.go rebuilt through a build-time overlay that routes its mutexes, WaitGroup, go statements and channel operations through a shim: recipients 0..3 (with a duplicate) x every per-recipient outcome combination, and concurrent batches + Dereference on one transport value; all interleavings with <= 2 (thorough 3) preemptions; oracle: no deadlock, one attempt per entry, error iff a failure and naming each, signer calls never overlap; (4) supplementary free-running -race pass with real stateful signers and 64-recipient overlapping batches.",
 "Trusted: the overlay rewriter (go/ast; falls back with exhaustive:false if the file uses an unsupported construct), the shim's model of sync.Mutex / WaitGroup / buffered channels; interleaving granularity = synchronisation operations, SignRequest and Do.",
 "stateless model checking of the implementation under a controlled scheduler (preemption-bounded schedule enumeration) + exhaustive request product","DESIGN.md 3 C19")

chk("C15","model_checking",
 "(1) astool built from the current tree regenerates streams/: same file set, same Go syntax trees (go/parser + go/printer); (2) astool is rebuilt through a build-time overlay that routes every range over a map (68 static sites, found with go/types) through a shim iterating in an explorer-chosen order: baseline ASC must equal the plain run, then global DESC, global ROTATE and DESC at each single site (thorough: ROTATE per site and all pairs of sites under DESC) must give byte-identical output; (3) extension vocabularies from a shape family are generated under ASC/DESC/ROTATE (must succeed and agree), compiled, and the C13, C12, C01, C14 (thorough C18) drivers are rebuilt against the generated tree with a binding table from the extended ontology and must pass.",
 "Trusted: the map-order rewriter and shim (reports unorderable / vacuous sites), syntax-tree comparison. 'Any well-formed extension' is replaced by the stated shape family; orders other than the enumerated policies are not covered.",
 "exhaustive enumeration of owned map-iteration-order policies (deviation-bounded) over the real generator + translation checks of generated extensions","DESIGN.md 3 C15","onto")
