#!/usr/bin/env python3
"""Regenerates MANIFEST.json from the table below (kept in one place so it stays valid)."""
import json
props=[json.loads(l) for l in open('/verif/properties.jsonl')]
R="replay_cmd_template"
C={}
def chk(id, cat, text, note, tech, ref, engine="mc"):
    C[id]={"property_id":id,"quick_cmd":"./run.sh %s quick"%id,"thorough_cmd":"./run.sh %s thorough"%id,
      "evidence_file":"/verif/evidence/%s.json"%id,"replay_cmd_template":"./run.sh replay {path}","engine":engine,
      "level_claimed":{"category":cat,"text":text,"design_ref":ref},"level_note":note,"technique":tech}

chk("C07","exploration",
 "The complete product of entry point x actor kind x authentication outcome x block outcome x HTTP method x header value x body (273,600 requests) is executed on the real handlers; a monitor over the seam call log checks that nothing but Authenticate* (and, for inbox POSTs, the body hook and Blocked) is called before the checks passed, that non-ActivityPub requests touch nothing and that a disabled protocol answers 405 without consulting the application. Plus, for authenticated unblocked GET / POST requests, every header value again with the header that is irrelevant for the method (Accept on a POST, Content-Type on a GET) carrying the ActivityStreams type or text/html.",
 "Trusted: the application model's call log and gate monitor. Bounded by the stated header/body alphabets.",
 "bounded-exhaustive enumeration of the request product against a call-log monitor","DESIGN.md 3 C07")
chk("C08","model_checking",
 "17 hand-written collision scenarios plus every unordered pair of 22 request kinds, one of them an Add naming six objects (253 scenarios; thorough: also every triple of the 13 state-changing kinds): 2-3 real request goroutines on one Actor run under a cooperative scheduler that owns every Database/Transport/callback call and models application locks as blocking resources; all interleavings of 2-thread scenarios (visited-state pruning) and all interleavings with <=2 (quick) / <=3 (thorough) preemptions of 3-thread scenarios are executed on the real code; oracle: no deadlock, all return, final collections equal a sequential order's as multisets, duplicates processed once; plus a supplementary free-running -race pass of the same scenarios. Further: two requests of every multi-valued kind naming the same two local values in opposite order; the oracle is per entry (every collection / object equals that entry in some sequential order; cross-entry atomicity is not promised); sequential redelivery histories: every inbox scenario delivered 2-3 times on one application with the FIRST delivery under every single (thorough: double) fault - in the inbox once, side effects resolved at most once, no collection holds the id twice, forwarded at most once.",
 "Trusted: scheduler, state-key soundness argument (DESIGN 2.1), application locks are mutual exclusion; interleaving granularity = seam calls.",
 "stateless model checking of the implementation: exhaustive schedule enumeration under a controlled scheduler with preemption bounding and state-key pruning","DESIGN.md 3 C08")
chk("C09","fault_enumeration",
 "Every scenario of a corpus covering each default side-effect path (each POST scenario also with application hooks wrapped around the default callbacks, plus a generated addressing family) is executed on the real handlers fault-free and once per fallible seam call failing (pairs in thorough); a lock monitor in the application model checks release-exactly-once, no re-lock, no unlock of an unheld lock and no unlocked database access on every run. The corpus also runs with application callbacks that call back into the library in the same context (a Send) and with forwarding filters that work on the slice they are handed in place.",
 "Trusted: the application model's lock monitor; an erroring Unlock frees, an erroring Lock does not acquire; bounds: corpus scenarios, <=1 (quick) / <=2 (thorough) simultaneous faults.",
 "bounded-exhaustive fault-sequence enumeration (choice-list DFS) over the real code","DESIGN.md 3 C09")
chk("C10","fault_enumeration",
 "C07's request product, a family of bodies varying id / required object / required target, and every corpus scenario (also with application hooks wrapped) under every single (thorough: double) seam fault are executed on the real handlers with a counting ResponseWriter; the oracle checks the exactly-one-outcome trichotomy and the documented status table (405/400/403/200/410/201+Location). Further: application callbacks answering with the documented ErrObjectRequired / ErrTargetRequired sentinels (400), outbox scenarios with the endpoint scheme and the scheme of the minted ids differing, and every sequence of 2-3 (thorough 4) read requests through ONE handler value, each answered as when served alone.",
 "Trusted: counting writer; a denying Authenticate* writes its own 401; the ResponseWriter never fails; Announce/Accept/Reject without object not asserted.",
 "bounded-exhaustive request and fault-sequence enumeration against a status oracle","DESIGN.md 3 C10")

import os
if os.path.exists('/verif/manifest_extra.py'):
    exec(open('/verif/manifest_extra.py').read())
pending={p["id"] for p in props}-set(C)
m={
 "version":1,
 "setup_cmd":"./setup.sh",
 "hooks":{"guard":"verif","enable":"none needed: every seam of pub is an application interface implemented by /verif/apmodel; astool/transport nondeterminism is taken over by build-time `go build -overlay` rewrites generated from the current sources; nothing is committed to /repo for instrumentation","baseline_off_cmd":"/verif/baseline.sh","source_commits":[],"add_only":True},
 "engines":[
  {"name":"mc","path":"/verif/mc","serves_properties":[k for k in sorted(C) if C[k]["engine"]=="mc"],"kind_free_text":"hand-written explorer: choice-sequence DFS with per-kind deviation budgets (preemptions, faults, environment answers), cooperative scheduler for real goroutines, visited-state pruning"},
  {"name":"onto","path":"/verif/onto","serves_properties":[k for k in sorted(C) if C[k]["engine"]=="onto"],"kind_free_text":"ontology oracle computed from astool/*.jsonld with encoding/json only, plus cmd/mkbind which generates the reflection binding table the streams checks are compiled against"},
  {"name":"apmodel","path":"/verif/apmodel","serves_properties":[k for k in sorted(C) if C[k]["engine"]=="mc"],"kind_free_text":"in-memory ActivityPub application implementing every pub interface; each seam call is a choice point and a monitored log entry"}
 ],
 "checks":[C[k] for k in sorted(C)],
 "not_applicable":[{"property_id":i,"reason":"check not built yet in this revision (work in progress; see DESIGN.md section 3 for the plan)"} for i in sorted(pending)],
 "notes":"Checks run the real go-fed/activity code; see DESIGN.md. known_findings.json lists genuine defects (known / fixed)."
}
json.dump(m,open('/verif/MANIFEST.json','w'),indent=1)
print("checks:",sorted(C),"pending:",sorted(pending))
