// Package achecks checks the code generator astool (C15): reproduction of the shipped code,
// determinism under every owned map-iteration order, and extension vocabularies.
package achecks

import (
	"encoding/json"
	"fmt"
)

type M = map[string]interface{}
type L = []interface{}

const extURI = "https://verif.example/ns"

func classRef(name string) M {
	return M{"type": "owl:Class", "url": extURI + "#dfn-" + name, "name": name}
}

func union(names ...string) M {
	l := L{}
	for _, n := range names {
		if len(n) > 4 && (n[:4] == "xsd:" || n[:4] == "rdf:" || n[:4] == "rfc:") {
			l = append(l, n)
		} else {
			l = append(l, classRef(n))
		}
	}
	var u interface{} = l
	if len(l) == 1 {
		u = l[0]
	}
	return M{"type": "owl:Class", "unionOf": u}
}

// ExtType describes one extension type.
type ExtType struct {
	Name     string
	Parents  []string
	Disjoint []string // declared disjointWith (own or as: types)
}

// ExtProp describes one extension property.
type ExtProp struct {
	Name       string
	Domain     []string
	Range      []string
	Functional bool
	Without    []string
}

// ExtVocab is an extension vocabulary layered on ActivityStreams.
type ExtVocab struct {
	Label string
	Types []ExtType
	Props []ExtProp
}

// JSON renders the vocabulary in the form astool reads.
func (v ExtVocab) JSON() []byte {
	ctx := L{
		M{"as": "https://www.w3.org/ns/activitystreams", "owl": "http://www.w3.org/2002/07/owl#", "rdf": "http://www.w3.org/1999/02/22-rdf-syntax-ns#",
			"rdfs": "http://www.w3.org/2000/01/rdf-schema#", "rfc": "https://tools.ietf.org/html/", "schema": "http://schema.org/", "xsd": "http://www.w3.org/2001/XMLSchema#"},
		M{"domain": "rdfs:domain", "isDefinedBy": "rdfs:isDefinedBy", "mainEntity": "schema:mainEntity", "members": "owl:members", "name": "schema:name",
			"range": "rdfs:range", "subClassOf": "rdfs:subClassOf", "disjointWith": "owl:disjointWith", "subPropertyOf": "rdfs:subPropertyOf", "unionOf": "owl:unionOf", "url": "schema:URL"},
	}
	members := L{}
	for _, t := range v.Types {
		dj := L{}
		for _, d := range t.Disjoint {
			dj = append(dj, classRef(d))
		}
		m := M{"id": extURI + "#" + t.Name, "type": "owl:Class", "name": t.Name, "url": extURI + "#dfn-" + t.Name, "disjointWith": dj}
		ps := L{}
		for _, p := range t.Parents {
			ps = append(ps, classRef(p))
		}
		if len(ps) == 1 {
			m["subClassOf"] = ps[0]
		} else {
			m["subClassOf"] = ps
		}
		members = append(members, m)
	}
	for _, p := range v.Props {
		typ := L{"rdf:Property"}
		if p.Functional {
			typ = append(typ, "owl:FunctionalProperty")
		}
		m := M{"id": extURI + "#" + p.Name, "type": typ, "name": p.Name, "url": extURI + "#dfn-" + p.Name, "isDefinedBy": extURI + "#dfn-" + p.Name,
			"domain": union(p.Domain...), "range": union(p.Range...)}
		if len(p.Without) > 0 {
			w := L{}
			for _, x := range p.Without {
				w = append(w, classRef(x))
			}
			m["@wtf_without_property"] = w
		}
		members = append(members, m)
	}
	doc := M{"@context": ctx, "id": extURI, "type": "owl:Ontology", "name": "VerifExt", "members": members}
	b, _ := json.MarshalIndent(doc, "", " ")
	return b
}

var extTypes = []ExtType{
	{"Alpha", []string{"as:Object"}, nil},
	{"Beta", []string{"Alpha"}, nil},
	{"Gamma", []string{"as:Activity"}, nil},
	{"Delta", []string{"Beta"}, nil},               // two levels below Alpha
	{"Epsilon", []string{"as:Note", "Alpha"}, nil}, // multiple parents
	{"Zeta", []string{"as:Link"}, nil},
	{"Eta", []string{"as:Collection"}, nil},
	{"Theta", []string{"Delta"}, nil},                           // three levels below Alpha
	{"Iota", []string{"as:Object"}, []string{"as:Activity"}},    // disjoint with a type of the referenced vocabulary
	{"Kappa", []string{"Alpha"}, []string{"Gamma", "as:Place"}}, // disjoint with an own type and a foreign one
	// two parents of which only ONE branch has an ancestor that withholds a property ('object' is
	// withheld from as:IntransitiveActivity, the parent of as:Travel; as:Offer has it)
	{"Lambda", []string{"as:Travel", "as:Offer"}, nil},
	{"Mu", []string{"Lambda"}, nil},
	// two own-vocabulary paths to Alpha, one of them through Beta (from which properties are withheld)
	{"Nu", []string{"Alpha", "Delta"}, nil},
	// lattice shapes: a parent list that names an ancestor which is already reached through an earlier
	// parent BEFORE a parent that is new (and the redundant-parent form)
	{"Auditable", []string{"as:Object"}, nil},
	{"Dossier", []string{"as:Object"}, nil},
	{"Ledger", []string{"as:Object", "Auditable"}, nil},
	{"Bulletin", []string{"Dossier", "Ledger"}, nil},
	{"Chapter", []string{"Dossier"}, nil},
	{"Folio", []string{"Chapter", "as:Object", "Auditable"}, []string{"Gamma"}},
	{"Leaflet", []string{"Folio", "Bulletin"}, nil},
}

// NameClashVocab: a type that shares its NAME with a type of the referenced vocabulary (as the
// repository's own example_custom_spec.jsonld does with Update) and has descendants of its own. The
// generated hierarchy predicates identify types by name, so they cannot tell the two Updates apart;
// that is a recorded finding, judged by the exact SET of predicate cells that are wrong (a change
// that makes other cells wrong yields another key). Only the C13 driver is run on it: at the JSON
// level a bare type name is ambiguous by construction.
func NameClashVocab() ExtVocab {
	return ExtVocab{Label: "name-clash", Types: []ExtType{
		{"Update", []string{"as:Activity"}, nil},
		{"Patch", []string{"Update"}, nil},
		{"Hotfix", []string{"Patch"}, nil},
		{"Sigma", []string{"as:Object"}, []string{"Update"}},
	}, Props: []ExtProp{{Name: "vnc1", Domain: []string{"Update"}, Range: []string{"xsd:string"}, Functional: true}}}
}

var extDomains = [][]string{{"as:Object"}, {"Alpha"}, {"as:Link", "Alpha"}, {"Alpha", "as:Note"}, {"Gamma", "Zeta"}}
var extRanges = [][]string{{"xsd:string"}, {"xsd:anyURI"}, {"xsd:boolean", "as:Link"}, {"as:Object"}, {"Alpha"}, {"rdf:langString", "xsd:string"}, {"xsd:dateTime", "Beta"}, {"xsd:nonNegativeInteger"}}

// FullVocab contains every shape at once.
func FullVocab(stride int) ExtVocab {
	v := ExtVocab{Label: "all-shapes", Types: extTypes}
	n := 0
	for di, d := range extDomains {
		for ri, r := range extRanges {
			for _, fn := range []bool{true, false} {
				for _, wo := range [][]string{nil, {"Beta"}} {
					if wo != nil && !(contains(d, "Alpha") || contains(d, "as:Object")) {
						continue // Beta must be inside the domain for the withholding to mean anything
					}
					n++
					if stride > 1 && n%stride != 0 && !(wo != nil && ri == 0) && !(di == 3 && ri == 0) {
						continue
					}
					v.Props = append(v.Props, ExtProp{Name: fmt.Sprintf("vx%03d", n), Domain: d, Range: r, Functional: fn, Without: wo})
				}
			}
		}
	}
	return v
}

// MinimalVocabs returns one small vocabulary per type shape and per range shape.
func MinimalVocabs() []ExtVocab {
	var out []ExtVocab
	for i, t := range extTypes {
		ts := []ExtType{t}
		// include the own-vocabulary ancestors the type needs
		need := map[string]bool{}
		var add func(n string)
		add = func(n string) {
			for _, x := range extTypes {
				if x.Name == n && !need[n] {
					need[n] = true
					for _, p := range x.Parents {
						add(p)
					}
					for _, p := range x.Disjoint {
						add(p)
					}
				}
			}
		}
		for _, p := range append(append([]string(nil), t.Parents...), t.Disjoint...) {
			add(p)
		}
		for _, x := range extTypes {
			if need[x.Name] {
				ts = append([]ExtType{x}, ts...)
			}
		}
		out = append(out, ExtVocab{Label: "type-" + t.Name, Types: ts,
			Props: []ExtProp{{Name: fmt.Sprintf("vt%d", i), Domain: []string{t.Name}, Range: []string{"xsd:string"}, Functional: i%2 == 0}}})
	}
	for i, r := range extRanges {
		ts := []ExtType{extTypes[0], extTypes[1]}
		out = append(out, ExtVocab{Label: fmt.Sprintf("range-%d", i), Types: ts,
			Props: []ExtProp{{Name: fmt.Sprintf("vr%da", i), Domain: []string{"as:Object"}, Range: r, Functional: true}, {Name: fmt.Sprintf("vr%db", i), Domain: []string{"Alpha"}, Range: r, Without: []string{"Beta"}}}})
	}
	return out
}

func contains(l []string, s string) bool {
	for _, x := range l {
		if x == s {
			return true
		}
	}
	return false
}
