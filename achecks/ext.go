// Package achecks checks the code generator astool (C15): reproduction of the shipped code,
// determinism under every owned map-iteration order, and extension vocabularies.
package achecks

import (
	"encoding/json"
	"fmt"
	"strings"
)

type M = map[string]interface{}
type L = []interface{}

const extURI = "https://verif.example/ns"

func classRef(name string) M {
	return M{"type": "owl:Class", "url": extURI + "#dfn-" + name, "name": name}
}

func union(names ...string) M {
	l := L{}
	for _, n := range names {
		if len(n) > 4 && (n[:4] == "xsd:" || n[:4] == "rdf:" || n[:4] == "rfc:") {
			l = append(l, n)
		} else {
			l = append(l, classRef(n))
		}
	}
	var u interface{} = l
	if len(l) == 1 {
		u = l[0]
	}
	return M{"type": "owl:Class", "unionOf": u}
}

// ExtType describes one extension type.
type ExtType struct {
	Name     string
	Parents  []string
	Disjoint []string // declared disjointWith (own or as: types)
	Typeless bool     // "@wtf_typeless": no 'type' property (can only occur embedded)
}

// ExtProp describes one extension property.
type ExtProp struct {
	Name       string
	Domain     []string
	Range      []string
	Functional bool
	Without    []string
}

// ExtVocab is an extension vocabulary layered on ActivityStreams.
type ExtVocab struct {
	Label string
	// Extra names further shipped vocabulary files (under astool/) the extension references besides
	// ActivityStreams; their types are written "forge:<Name>".
	Extra []string
	// AltPrefixes spells every namespace prefix differently from the shipped vocabulary files ("activity:"
	// for "as:", "r:" for "rdf:", "x:" for "xsd:", ...): prefixes are local to a file.
	AltPrefixes bool
	// URI / Name default to extURI / "VerifExt". Below, if set, is a FIRST extension this one is stacked
	// on (generated as a file of its own and passed to astool before this one); its types are written
	// "below:<Name>".
	URI, Name string
	Below     *ExtVocab
	Types []ExtType
	Props []ExtProp
}

// JSON renders the vocabulary in the form astool reads.
func (v ExtVocab) JSON() []byte {
	ctx := L{
		M{"as": "https://www.w3.org/ns/activitystreams", "owl": "http://www.w3.org/2002/07/owl#", "rdf": "http://www.w3.org/1999/02/22-rdf-syntax-ns#",
			"rdfs": "http://www.w3.org/2000/01/rdf-schema#", "rfc": "https://tools.ietf.org/html/", "schema": "http://schema.org/", "xsd": "http://www.w3.org/2001/XMLSchema#"},
		M{"domain": "rdfs:domain", "isDefinedBy": "rdfs:isDefinedBy", "mainEntity": "schema:mainEntity", "members": "owl:members", "name": "schema:name",
			"range": "rdfs:range", "subClassOf": "rdfs:subClassOf", "disjointWith": "owl:disjointWith", "subPropertyOf": "rdfs:subPropertyOf", "unionOf": "owl:unionOf", "url": "schema:URL"},
	}
	if len(v.Extra) > 0 {
		ctx[0].(M)["forge"] = "https://forgefed.peers.community/ns" // only when ForgeFed is among the specs: astool resolves every prefix
	}
	members := L{}
	for _, t := range v.Types {
		dj := L{}
		for _, d := range t.Disjoint {
			dj = append(dj, classRef(d))
		}
		m := M{"id": extURI + "#" + t.Name, "type": "owl:Class", "name": t.Name, "url": extURI + "#dfn-" + t.Name, "disjointWith": dj}
		if t.Typeless {
			m["@wtf_typeless"] = true
		}
		ps := L{}
		for _, p := range t.Parents {
			ps = append(ps, classRef(p))
		}
		if len(ps) == 1 {
			m["subClassOf"] = ps[0]
		} else if len(ps) > 1 {
			m["subClassOf"] = ps
		}
		members = append(members, m)
	}
	for _, p := range v.Props {
		typ := L{"rdf:Property"}
		if p.Functional {
			typ = append(typ, "owl:FunctionalProperty")
		}
		m := M{"id": extURI + "#" + p.Name, "type": typ, "name": p.Name, "url": extURI + "#dfn-" + p.Name, "isDefinedBy": extURI + "#dfn-" + p.Name,
			"domain": union(p.Domain...), "range": union(p.Range...)}
		if len(p.Without) > 0 {
			w := L{}
			for _, x := range p.Without {
				w = append(w, classRef(x))
			}
			m["@wtf_without_property"] = w
		}
		members = append(members, m)
	}
	uri, vname := extURI, "VerifExt"
	if v.URI != "" {
		uri = v.URI
	}
	if v.Name != "" {
		vname = v.Name
	}
	if v.Below != nil {
		bu := extURI
		if v.Below.URI != "" {
			bu = v.Below.URI
		}
		ctx[0].(M)["below"] = bu
	}
	doc := M{"@context": ctx, "id": uri, "type": "owl:Ontology", "name": vname, "members": members}
	b, _ := json.MarshalIndent(doc, "", " ")
	if v.AltPrefixes {
		// rename every prefix consistently (declarations and uses); the URIs stay
		t := string(b)
		for _, pr := range [][2]string{{"as", "activity"}, {"rdfs", "rs"}, {"rdf", "r"}, {"xsd", "x"}, {"owl", "o"}, {"schema", "sc"}, {"rfc", "rf"}} {
			t = strings.ReplaceAll(t, "\""+pr[0]+":", "\""+pr[1]+":")
			t = strings.ReplaceAll(t, "\""+pr[0]+"\": ", "\""+pr[1]+"\": ")
		}
		b = []byte(t)
	}
	return b
}

var extTypes = []ExtType{
	{"Alpha", []string{"as:Object"}, nil, false},
	{"Beta", []string{"Alpha"}, nil, false},
	{"Gamma", []string{"as:Activity"}, nil, false},
	{"Delta", []string{"Beta"}, nil, false},               // two levels below Alpha
	{"Epsilon", []string{"as:Note", "Alpha"}, nil, false}, // multiple parents
	{"Zeta", []string{"as:Link"}, nil, false},
	{"Eta", []string{"as:Collection"}, nil, false},
	{"Theta", []string{"Delta"}, nil, false},                           // three levels below Alpha
	{"Iota", []string{"as:Object"}, []string{"as:Activity"}, false},    // disjoint with a type of the referenced vocabulary
	{"Kappa", []string{"Alpha"}, []string{"Gamma", "as:Place"}, false}, // disjoint with an own type and a foreign one
	// two parents of which only ONE branch has an ancestor that withholds a property ('object' is
	// withheld from as:IntransitiveActivity, the parent of as:Travel; as:Offer has it)
	{"Lambda", []string{"as:Travel", "as:Offer"}, nil, false},
	{"Mu", []string{"Lambda"}, nil, false},
	// two own-vocabulary paths to Alpha, one of them through Beta (from which properties are withheld)
	{"Nu", []string{"Alpha", "Delta"}, nil, false},
	// lattice shapes: a parent list that names an ancestor which is already reached through an earlier
	// parent BEFORE a parent that is new (and the redundant-parent form)
	{"Auditable", []string{"as:Object"}, nil, false},
	{"Dossier", []string{"as:Object"}, nil, false},
	{"Ledger", []string{"as:Object", "Auditable"}, nil, false},
	{"Bulletin", []string{"Dossier", "Ledger"}, nil, false},
	{"Chapter", []string{"Dossier"}, nil, false},
	{"Folio", []string{"Chapter", "as:Object", "Auditable"}, []string{"Gamma"}, false},
	{"Leaflet", []string{"Folio", "Bulletin"}, nil, false},
	// four levels across the vocabulary border: as:Activity has 'object', as:IntransitiveActivity is
	// denied it, as:Arrive is its child, Rho and Tau come below that
	{"Rho", []string{"as:Arrive"}, nil, false},
	{"Tau", []string{"Rho"}, nil, false},
	// disjointness declared at two levels of one family meeting multiple inheritance:
	// Ay disjoint Pea, Bee disjoint Pea1 (Pea1, Pea2 < Pea), Tee < [Ay, Bee]
	{"Pea", []string{"as:Object"}, nil, false},
	{"Peaone", []string{"Pea"}, nil, false},
	{"Peatwo", []string{"Pea"}, nil, false},
	{"Ay", []string{"as:Object"}, []string{"Pea"}, false},
	{"Bee", []string{"as:Object"}, []string{"Peaone"}, false},
	{"Tee", []string{"Ay", "Bee"}, nil, false},
	// several one-sided disjointWith declarations naming own types that are declared LATER in the file
	{"Upsilon", []string{"as:Object"}, []string{"Phi", "Chi", "Psi"}, false},
	{"Phi", []string{"as:Object"}, nil, false},
	{"Chi", []string{"Phi"}, nil, false},
	{"Psi", []string{"as:Object"}, nil, false},
	// depth: a single-parent chain nine levels below as:Object, with two siblings on its fourth level and a
	// child of the first sibling; five levels below as:TentativeAccept (itself four below as:Object)
	{"Deepone", []string{"as:Object"}, nil, false},
	{"Deeptwo", []string{"Deepone"}, nil, false},
	{"Deepthree", []string{"Deeptwo"}, nil, false},
	{"Deepfour", []string{"Deepthree"}, nil, false},
	{"Deepfoursib", []string{"Deepthree"}, nil, false},
	{"Deepfive", []string{"Deepfour"}, nil, false},
	{"Deepsix", []string{"Deepfive"}, nil, false},
	{"Deepseven", []string{"Deepsix"}, nil, false},
	{"Deepeight", []string{"Deepseven"}, nil, false},
	{"Deepnine", []string{"Deepeight"}, nil, false},
	{"Tenone", []string{"as:TentativeAccept"}, nil, false},
	{"Tentwo", []string{"Tenone"}, nil, false},
	{"Tenthree", []string{"Tentwo"}, nil, false},
	{"Tenfour", []string{"Tenthree"}, nil, false},
	{"Tenfive", []string{"Tenfour"}, nil, false},
	// two stacked multi-parent types: Both < [First, Second], First < [Pa, Pb]; disjointness declared on Second
	{"Pa", []string{"as:Object"}, nil, false},
	{"Pb", []string{"as:Object"}, nil, false},
	{"Other", []string{"as:Object"}, nil, false},
	{"First", []string{"Pa", "Pb"}, nil, false},
	{"Second", []string{"as:Object"}, []string{"Other"}, false},
	{"Both", []string{"First", "Second"}, nil, false},
	{"Bothkid", []string{"Both"}, nil, false},
	// a typeless type without parents, as the shipped PublicKey is
	{"Omicron", nil, nil, true},
}

// TypelessChildVocab: a typeless type BELOW a typed one. Being a descendant of as:Object it is a kind
// of every Object-ranged property, and having no 'type' it matches every embedded object, so the
// generated decoder reads e.g. an embedded Question as this type (the re-encoded @context then names
// the extension). That is a recorded finding, judged by the exact set of C12 driver
// keys; a change that makes other cells wrong (e.g. the typeless type getting 'type' back) differs.
func TypelessChildVocab() ExtVocab {
	return ExtVocab{Label: "typeless-child", Types: []ExtType{
		{"Alpha", []string{"as:Object"}, nil, false},
		{"Omicron", []string{"Alpha"}, nil, true},
	}, Props: []ExtProp{
		{Name: "vxo1", Domain: []string{"as:Object"}, Range: []string{"Omicron"}, Functional: true},
		{Name: "vxo2", Domain: []string{"Omicron"}, Range: []string{"xsd:string"}, Functional: true}}}
}

// NameClashVocab: a type that shares its NAME with a type of the referenced vocabulary (as the
// repository's own example_custom_spec.jsonld does with Update) and has descendants of its own. The
// generated hierarchy predicates identify types by name, so they cannot tell the two Updates apart;
// that is a recorded finding, judged by the exact SET of predicate cells that are wrong (a change
// that makes other cells wrong yields another key). Only the C13 driver is run on it: at the JSON
// level a bare type name is ambiguous by construction.
func NameClashVocab() ExtVocab {
	return ExtVocab{Label: "name-clash", Types: []ExtType{
		{"Update", []string{"as:Activity"}, nil, false},
		{"Patch", []string{"Update"}, nil, false},
		{"Hotfix", []string{"Patch"}, nil, false},
		{"Sigma", []string{"as:Object"}, []string{"Update"}, false},
	}, Props: []ExtProp{{Name: "vnc1", Domain: []string{"Update"}, Range: []string{"xsd:string"}, Functional: true}}}
}

var extDomains = [][]string{{"as:Object"}, {"Alpha"}, {"as:Link", "Alpha"}, {"Alpha", "as:Note"}, {"Gamma", "Zeta"}}
var extRanges = [][]string{{"xsd:string"}, {"xsd:anyURI"}, {"xsd:boolean", "as:Link"}, {"as:Object"}, {"Alpha"}, {"rdf:langString", "xsd:string"}, {"xsd:dateTime", "Beta"}, {"xsd:nonNegativeInteger"}}

// FullVocab contains every shape at once.
func FullVocab(stride int) ExtVocab {
	v := ExtVocab{Label: "all-shapes", Types: extTypes}
	n := 0
	for di, d := range extDomains {
		for ri, r := range extRanges {
			for _, fn := range []bool{true, false} {
				for _, wo := range [][]string{nil, {"Beta"}} {
					if wo != nil && !(contains(d, "Alpha") || contains(d, "as:Object")) {
						continue // Beta must be inside the domain for the withholding to mean anything
					}
					n++
					if stride > 1 && n%stride != 0 && !(wo != nil && ri == 0) && !(di == 3 && ri == 0) {
						continue
					}
					v.Props = append(v.Props, ExtProp{Name: fmt.Sprintf("vx%03d", n), Domain: d, Range: r, Functional: fn, Without: wo})
				}
			}
		}
	}
	// a property whose domain names a type AND one of its descendants while being withheld from a type
	// strictly between them; a property ranging over the typeless type (which hosts it in documents)
	v.Props = append(v.Props,
		ExtProp{Name: "vxw1", Domain: []string{"Alpha", "Delta"}, Range: []string{"xsd:string"}, Functional: true, Without: []string{"Beta"}},
		ExtProp{Name: "vxw2", Domain: []string{"Alpha", "Theta"}, Range: []string{"as:Object"}, Without: []string{"Delta"}},
		ExtProp{Name: "vxo1", Domain: []string{"as:Object"}, Range: []string{"Omicron"}, Functional: true},
		ExtProp{Name: "vxo2", Domain: []string{"Omicron"}, Range: []string{"xsd:string"}, Functional: true})
	return v
}

// MinimalVocabs returns one small vocabulary per type shape and per range shape.
func MinimalVocabs() []ExtVocab {
	var out []ExtVocab
	for i, t := range extTypes {
		ts := []ExtType{t}
		// include the own-vocabulary ancestors the type needs
		need := map[string]bool{}
		var add func(n string)
		add = func(n string) {
			for _, x := range extTypes {
				if x.Name == n && !need[n] {
					need[n] = true
					for _, p := range x.Parents {
						add(p)
					}
					for _, p := range x.Disjoint {
						add(p)
					}
				}
			}
		}
		for _, p := range append(append([]string(nil), t.Parents...), t.Disjoint...) {
			add(p)
		}
		for _, x := range extTypes {
			if need[x.Name] {
				ts = append([]ExtType{x}, ts...)
			}
		}
		ps := []ExtProp{{Name: fmt.Sprintf("vt%d", i), Domain: []string{t.Name}, Range: []string{"xsd:string"}, Functional: i%2 == 0}}
		if t.Typeless {
			// a typeless value can only occur embedded: give it a property that hosts it in documents
			ps = append(ps, ExtProp{Name: fmt.Sprintf("vth%d", i), Domain: []string{"as:Object"}, Range: []string{t.Name}, Functional: true})
		}
		out = append(out, ExtVocab{Label: "type-" + t.Name, Types: ts, Props: ps})
	}
	for i, r := range extRanges {
		ts := []ExtType{extTypes[0], extTypes[1]}
		out = append(out, ExtVocab{Label: fmt.Sprintf("range-%d", i), Types: ts,
			Props: []ExtProp{{Name: fmt.Sprintf("vr%da", i), Domain: []string{"as:Object"}, Range: r, Functional: true}, {Name: fmt.Sprintf("vr%db", i), Domain: []string{"Alpha"}, Range: r, Without: []string{"Beta"}}}})
	}
	return out
}

// ThreeVocabs: an extension layered on ActivityStreams AND ForgeFed (three vocabulary files): types
// below a ForgeFed type, properties whose domain / range / withheld-from lists name ForgeFed types.
func ThreeVocabs() ExtVocab {
	return ExtVocab{Label: "three-vocabularies", Extra: []string{"forgefed.jsonld"}, Types: []ExtType{
		{"Alpha", []string{"as:Object"}, nil, false},
		{"Trouble", []string{"forge:Ticket"}, nil, false},
		{"Calamity", []string{"Trouble", "Alpha"}, []string{"forge:Commit"}, false},
	}, Props: []ExtProp{
		{Name: "vt1", Domain: []string{"forge:Ticket"}, Range: []string{"xsd:string"}, Functional: true},
		{Name: "vt2", Domain: []string{"Trouble", "forge:Repository"}, Range: []string{"forge:Commit", "as:Note"}},
		{Name: "vt3", Domain: []string{"as:Object"}, Range: []string{"Trouble", "xsd:anyURI"}, Functional: true},
		{Name: "vt4", Domain: []string{"forge:Ticket", "Alpha"}, Range: []string{"rdf:langString", "xsd:string"}, Without: []string{"Calamity"}},
	}}
}

// AltPrefixVocab: a small extension whose file binds every namespace to another prefix than the
// shipped vocabularies do (a property ranging over "r:langString", types below "activity:Object").
func AltPrefixVocab() ExtVocab {
	return ExtVocab{Label: "alternative-prefixes", AltPrefixes: true, Types: []ExtType{
		{"Alpha", []string{"as:Object"}, nil, false},
		{"Beta", []string{"Alpha"}, []string{"as:Link"}, false},
	}, Props: []ExtProp{
		{Name: "vp1", Domain: []string{"Alpha"}, Range: []string{"rdf:langString", "xsd:string"}},
		{Name: "vp2", Domain: []string{"as:Object"}, Range: []string{"rdf:langString", "xsd:string"}, Functional: true},
		{Name: "vp3", Domain: []string{"Beta", "as:Link"}, Range: []string{"xsd:dateTime", "as:Object", "xsd:anyURI"}, Without: []string{"Beta"}},
		{Name: "vp4", Domain: []string{"Alpha"}, Range: []string{"xsd:nonNegativeInteger", "xsd:duration", "xsd:dateTime"}, Functional: true}, // (no xsd:boolean next to a numeric kind: 0 and 1 are in both lexical spaces)
	}}
}

// StackedVocabs: two extension vocabularies in one run, the second stacked on the first: the first
// has a type with a disjointWith of its own; the second adds subtypes on both sides of that
// disjointness and below the first one's types, and properties over them.
func StackedVocabs() ExtVocab {
	below := &ExtVocab{Label: "stacked-below", URI: "https://verif.example/base-ns", Name: "VerifBase", Types: []ExtType{
		{"Xnote", []string{"as:Object"}, []string{"as:Activity"}, false},
		{"Xplace", []string{"as:Place"}, nil, false},
		{"Xlink", []string{"as:Link"}, nil, false},
		// two parents from different vocabularies, the own one (Xnote) having further children in the
		// vocabulary stacked on top
		{"Xmemo", []string{"as:Note", "Xnote"}, nil, false},
	}, Props: []ExtProp{
		{Name: "xfloor", Domain: []string{"Xplace"}, Range: []string{"xsd:nonNegativeInteger"}, Functional: true},
		{Name: "xremark", Domain: []string{"Xnote", "as:Link"}, Range: []string{"rdf:langString", "xsd:string"}},
	}}
	return ExtVocab{Label: "two-stacked-extensions", Below: below, Types: []ExtType{
		{"Ylink", []string{"as:Link"}, nil, false},
		{"Ynote", []string{"below:Xnote"}, nil, false},
		{"Yroom", []string{"below:Xplace"}, []string{"below:Xnote"}, false},
		{"Ydeed", []string{"as:Activity"}, nil, false},
		{"Ysublink", []string{"below:Xlink", "Ylink"}, nil, false},
	}, Props: []ExtProp{
		{Name: "yseat", Domain: []string{"Yroom", "below:Xnote"}, Range: []string{"xsd:string", "below:Xplace"}, Functional: true},
		{Name: "ymark", Domain: []string{"as:Object"}, Range: []string{"Ynote", "below:Xnote", "xsd:anyURI"}, Without: []string{"Yroom"}},
	}}
}

func contains(l []string, s string) bool {
	for _, x := range l {
		if x == s {
			return true
		}
	}
	return false
}
