package achecks

import (
	"bytes"
	"crypto/sha256"
	"encoding/hex"
	"fmt"
	"go/ast"
	"go/parser"
	"go/printer"
	"go/token"
	"os"
	"os/exec"
	"path/filepath"
	"sort"
	"strings"
	"sync"
	"time"

	"verif/report"
)

func repoDir() string {
	if r := os.Getenv("VERIF_REPO"); r != "" {
		return r
	}
	return "/repo"
}

func verifDir() string {
	if r := os.Getenv("VERIF_ROOT"); r != "" {
		return r
	}
	return "/verif"
}

var goEnv = []string{"GOFLAGS=-mod=mod", "GOPROXY=off", "GOSUMDB=off", "GOTOOLCHAIN=local"}

func run(dir string, env []string, name string, args ...string) (string, error) {
	cmd := exec.Command(name, args...)
	cmd.Dir = dir
	cmd.Env = append(append(os.Environ(), goEnv...), env...)
	var out bytes.Buffer
	cmd.Stdout = &out
	cmd.Stderr = &out
	err := cmd.Run()
	return out.String(), err
}

func shippedSpecs() []string {
	r := repoDir()
	return []string{r + "/astool/activitystreams.jsonld", r + "/astool/security-v1.jsonld", r + "/astool/toot.jsonld", r + "/astool/forgefed.jsonld"}
}

// buildAstool builds astool from the current tree (optionally through an overlay).
func buildAstool(out string, overlay string) (string, error) {
	args := []string{"build", "-trimpath"}
	if overlay != "" {
		args = append(args, "-overlay", overlay)
	}
	args = append(args, "-o", out, "./astool")
	return run(repoDir(), nil, "go", args...)
}

// sandboxOK reports (once) whether a private mount namespace with a read-only root can be set up
// here: generator runs are then confined to their scratch directory, so that a generator that
// computes a wrong (e.g. absolute) destination cannot write anywhere else.
var sandboxOnce sync.Once
var sandboxAvail bool

const sandboxScript = `mount --make-rprivate / && mount --bind "$0" "$0" && mount -o remount,bind,ro / && cd "$1" && shift && exec "$@"`

func sandboxOK() bool {
	sandboxOnce.Do(func() {
		d, err := os.MkdirTemp("", "verif-sbx-")
		if err != nil {
			return
		}
		defer os.RemoveAll(d)
		out, err := exec.Command("unshare", "--mount", "sh", "-c", sandboxScript, d, d, "sh", "-c", "touch ok && ! touch /verif-sandbox-probe 2>/dev/null").CombinedOutput()
		_ = out
		if err == nil {
			if _, e := os.Stat(filepath.Join(d, "ok")); e == nil {
				sandboxAvail = true
			}
		}
	})
	return sandboxAvail
}

// runConfined runs a command with working directory dir; with the sandbox available only rw (which
// must contain dir) is writable.
func runConfined(rw, dir string, env []string, name string, args ...string) (string, error) {
	if !sandboxOK() {
		return run(dir, env, name, args...)
	}
	full := append([]string{"--mount", "sh", "-c", sandboxScript, rw, dir, name}, args...)
	return run(dir, env, "unshare", full...)
}

// generateInPlace runs astool in the second documented way: from inside the destination directory
// (<module>/streams), "-path <import path of that directory> .".
func generateInPlace(astool string, specs []string, module string) (string, error) {
	dir := filepath.Join(module, "streams")
	os.MkdirAll(dir, 0o755)
	var args []string
	for _, s := range specs {
		args = append(args, "-spec", s)
	}
	args = append(args, "-path", "github.com/go-fed/activity/streams", ".")
	return runConfined(confineRoot(module), dir, nil, astool, args...)
}

// generate runs astool into <module>/streams.
func generate(astool string, specs []string, module string, env []string) (string, error) {
	os.MkdirAll(module, 0o755)
	var args []string
	for _, s := range specs {
		args = append(args, "-spec", s)
	}
	args = append(args, "-path", "github.com/go-fed/activity", "./streams")
	return runConfined(confineRoot(module), module, env, astool, args...)
}

// scratchRoot is the check's scratch directory: the only place generator runs may write to.
var scratchRoot string

func confineRoot(module string) string {
	if scratchRoot != "" && strings.HasPrefix(module, scratchRoot) {
		return scratchRoot
	}
	return module
}

// treeDigest hashes every generated file below dir/streams.
func treeDigest(module string) (map[string]string, error) {
	out := map[string]string{}
	root := filepath.Join(module, "streams")
	err := filepath.Walk(root, func(p string, info os.FileInfo, err error) error {
		if err != nil {
			return err
		}
		if info.IsDir() || !strings.HasPrefix(info.Name(), "gen_") {
			return nil
		}
		b, err := os.ReadFile(p)
		if err != nil {
			return err
		}
		h := sha256.Sum256(b)
		rel, _ := filepath.Rel(root, p)
		out[rel] = hex.EncodeToString(h[:8])
		return nil
	})
	return out, err
}

func diffDigests(a, b map[string]string) (onlyA, onlyB, differ []string) {
	for k, v := range a {
		if w, ok := b[k]; !ok {
			onlyA = append(onlyA, k)
		} else if v != w {
			differ = append(differ, k)
		}
	}
	for k := range b {
		if _, ok := a[k]; !ok {
			onlyB = append(onlyB, k)
		}
	}
	sort.Strings(onlyA)
	sort.Strings(onlyB)
	sort.Strings(differ)
	return
}

// sameSyntaxTree compares two Go files ignoring positions and comments.
func sameSyntaxTree(a, b string) (bool, error) {
	norm := func(p string) (string, error) {
		fset := token.NewFileSet()
		f, err := parser.ParseFile(fset, p, nil, 0)
		if err != nil {
			return "", err
		}
		f.Comments = nil
		ast.Inspect(f, func(n ast.Node) bool {
			switch x := n.(type) {
			case *ast.GenDecl:
				x.Doc = nil
			case *ast.FuncDecl:
				x.Doc = nil
			case *ast.Field:
				x.Doc, x.Comment = nil, nil
			case *ast.TypeSpec:
				x.Doc, x.Comment = nil, nil
			case *ast.ValueSpec:
				x.Doc, x.Comment = nil, nil
			}
			return true
		})
		var buf bytes.Buffer
		if err := printer.Fprint(&buf, token.NewFileSet(), f); err != nil {
			return "", err
		}
		return buf.String(), nil
	}
	x, err := norm(a)
	if err != nil {
		return false, err
	}
	y, err := norm(b)
	if err != nil {
		return false, err
	}
	return x == y, nil
}

func short(l []string, n int) []string {
	if len(l) > n {
		return append(append([]string(nil), l[:n]...), fmt.Sprintf("... %d more", len(l)-n))
	}
	return l
}

// C15 — astool is deterministic, reproduces the shipped code, and compiles extensions.
func C15(tier string) int {
	res := report.NewResult("C15", tier, "model_checking")
	thorough := res.Thorough()
	scratch, err := os.MkdirTemp("", "verif-c15-")
	if err != nil {
		fmt.Fprintln(os.Stderr, err)
		return 2
	}
	if os.Getenv("VERIF_KEEP_SCRATCH") == "" {
		defer os.RemoveAll(scratch)
	} else {
		fmt.Fprintln(os.Stderr, "C15: keeping scratch directory", scratch)
	}
	scratchRoot = scratch
	deadline := time.Now().Add(12 * time.Minute)
	if thorough {
		deadline = time.Now().Add(60 * time.Minute)
	}
	// ---- (1) reproduction ----
	astool := filepath.Join(scratch, "astool")
	if out, err := buildAstool(astool, ""); err != nil {
		fmt.Fprintln(os.Stderr, "astool does not build:", out)
		return 2
	}
	base := filepath.Join(scratch, "base")
	if out, err := generate(astool, shippedSpecs(), base, nil); err != nil && strings.Contains(out, "no space left on device") {
		fmt.Fprintln(os.Stderr, "C15: the scratch file system is full; no verdict:", tailStr(out, 300))
		return 2
	} else if err != nil {
		res.Violate("reproduction|astool-fails", "astool fails on the shipped vocabularies: "+tailStr(out, 600), M{"check": "C15", "part": "reproduction"})
		return res.Finish()
	}
	baseDig, _ := treeDigest(base)
	shipped, _ := treeDigest(repoDir())
	onlyGen, onlyShipped, differ := diffDigests(baseDig, shipped)
	res.Case("reproduction")
	if len(onlyGen) > 0 || len(onlyShipped) > 0 {
		res.Violate("reproduction|file-set", fmt.Sprintf("generated but not shipped: %v; shipped but not generated: %v", short(onlyGen, 8), short(onlyShipped, 8)), M{"check": "C15", "part": "reproduction"})
	}
	var astDiff []string
	for _, f := range differ {
		same, err := sameSyntaxTree(filepath.Join(base, "streams", f), filepath.Join(repoDir(), "streams", f))
		if err != nil || !same {
			astDiff = append(astDiff, f)
		}
	}
	if len(astDiff) > 0 {
		res.Violate("reproduction|syntax-trees-differ", fmt.Sprintf("%d regenerated files differ from the shipped ones in their Go syntax tree: %v", len(astDiff), short(astDiff, 8)), M{"check": "C15", "part": "reproduction", "files": short(astDiff, 40)})
	}
	// (1b) the second documented invocation: generate into the current directory. Only attempted when
	// the run can be confined to its scratch directory (a wrong destination must not be written to).
	inPlace := "skipped (no mount-namespace sandbox here)"
	if sandboxOK() {
		mod2 := filepath.Join(scratch, "inplace")
		res.Case("reproduction|in-place-invocation")
		if out, err := generateInPlace(astool, shippedSpecs(), mod2); err != nil {
			res.Violate("reproduction|in-place-invocation|astool-fails", "astool, run from inside the destination directory with '.', fails: "+tailStr(out, 600), M{"check": "C15", "part": "reproduction", "invocation": "in-place"})
		} else {
			dig2, _ := treeDigest(mod2)
			og, os2, df := diffDigests(dig2, baseDig)
			var ad []string
			for _, f := range df {
				same, err := sameSyntaxTree(filepath.Join(mod2, "streams", f), filepath.Join(base, "streams", f))
				if err != nil || !same {
					ad = append(ad, f)
				}
			}
			if len(og) > 0 || len(os2) > 0 || len(ad) > 0 {
				res.Violate("reproduction|in-place-invocation|differs", fmt.Sprintf("astool run from inside the destination directory ('-path .../streams .') does not produce the package the './streams' invocation produces: %d files only here %v, %d missing %v, %d with another syntax tree %v",
					len(og), short(og, 4), len(os2), short(os2, 4), len(ad), short(ad, 4)), M{"check": "C15", "part": "reproduction", "invocation": "in-place"})
			}
			inPlace = fmt.Sprintf("%d files, %d differ in comments only", len(dig2), len(df)-len(ad))
		}
	}
	res.Extra["reproduction_in_place_invocation"] = inPlace
	res.Extra["reproduction"] = M{"generated_files": len(baseDig), "byte_identical": len(baseDig) - len(differ), "differing_only_in_comments_or_layout": len(differ) - len(astDiff)}
	res.Sample(M{"part": "reproduction", "files": len(baseDig)})

	// ---- (2) determinism: every owned map-iteration order policy ----
	only := os.Getenv("VERIF_C15_EXT") // development aid: run the extension part for one vocabulary only
	inst := ""
	if only == "" {
		inst = determinism(res, scratch, astool, base, baseDig, thorough, deadline)
	}

	// ---- (3) extension vocabularies ----
	vocabs := []ExtVocab{FullVocab(3)}
	if thorough {
		vocabs = append([]ExtVocab{FullVocab(1)}, MinimalVocabs()...)
	}
	checks := []string{"C13", "C12", "C01", "C14"}
	if thorough {
		checks = append(checks, "C18")
	}
	vocabs = append(vocabs, NameClashVocab(), ThreeVocabs(), TypelessChildVocab(), AltPrefixVocab(), StackedVocabs())
	if only != "" {
		var sel []ExtVocab
		for _, v := range append(append([]ExtVocab{FullVocab(1), NameClashVocab(), TypelessChildVocab(), ThreeVocabs(), AltPrefixVocab(), StackedVocabs()}, MinimalVocabs()...), vocabs...) {
			if v.Label == only && len(sel) == 0 {
				sel = append(sel, v)
			}
		}
		vocabs = sel
		res.Exhaustive = false
	}
	var mu sync.Mutex
	var toolTrouble []string
	extInfo := M{}
	sem := make(chan struct{}, 4)
	var wg sync.WaitGroup
	for vi, v := range vocabs {
		vi, v := vi, v
		wg.Add(1)
		go func() {
			defer wg.Done()
			sem <- struct{}{}
			defer func() { <-sem }()
			cs := checks
			if v.Label == "name-clash" {
				cs = []string{"C13"}
			}
			if v.Label == "typeless-child" {
				cs = []string{"C12", "C01"}
			}
			info, viols := runExtension(scratch, astool, inst, vi, v, cs)
			mu.Lock()
			defer mu.Unlock()
			extInfo[v.Label] = info
			res.Case("extension|" + v.Label)
			res.States++
			for _, vv := range viols {
				if strings.HasPrefix(vv.Key, "tool|") || envTrouble(vv.What) {
					// the build environment failed (disk full, build cache entries removed under the compiler):
					// that says nothing about astool
					toolTrouble = append(toolTrouble, vv.Key+": "+tailStr(vv.What, 300))
					continue
				}
				res.Violate(vv.Key, vv.What, vv.Replay)
			}
		}()
	}
	wg.Wait()
	if len(toolTrouble) > 0 {
		fmt.Fprintln(os.Stderr, "C15: the build environment failed during the run; no verdict:", toolTrouble[0])
		return 2
	}
	res.Extra["extensions"] = extInfo
	res.Sample(M{"part": "extension", "vocabulary": vocabs[0].Label, "types": len(vocabs[0].Types), "properties": len(vocabs[0].Props)})
	res.Rule = "(1) astool built from the current tree regenerates streams/: same file set, same Go syntax trees, through both documented invocations ('<dest>' and, from inside the destination, '.'); generator runs are confined to their scratch directory by a private mount namespace with a read-only root; (2) astool rebuilt through the map-order overlay (every range over a map iterates in an order chosen by the explorer): baseline ASC, then per site DESC (deviation bound 1), global DESC and global ROTATE (thorough: per site ROTATE and all pairs of sites under DESC within the time budget) - every run's output tree must be byte-identical to the baseline; (3) extension vocabularies layered on ActivityStreams from a shape family (types with parents Object / Activity / Link / Collection / own type / two levels down / multiple parents / two parents across a property-withholding branch / lattice shapes with redundant and already-reached parents / a single-parent chain nine levels below Object with siblings on its fourth level / five levels below TentativeAccept / two stacked multi-parent types with disjointness declared on one branch / a parentless typeless type; two extension vocabularies stacked on each other in one run; a vocabulary binding every namespace to other prefixes than the shipped files; a vocabulary layered on ActivityStreams AND ForgeFed (three files) with types below and properties over ForgeFed types; a vocabulary whose type shares its name with a referenced type (C13 driver; recorded finding); a typeless type below a typed one (C12 and C01 drivers; recorded finding); properties over 5 domain shapes x 8 range shapes x functional x withheld-from-own-child): astool must succeed, the code must compile, and the C13, C12, C01, C14 (thorough: C18) drivers rebuilt against the generated tree with a binding table from the extended ontology must pass; states = order policies + vocabularies, transitions = astool runs"
	res.Assumptions = []string{"'any well-formed extension' is replaced by the stated shape family", "map orders other than the enumerated policies are not covered", "go/parser + go/printer decide syntax-tree equality"}
	return res.Finish()
}

// envTrouble recognises output of a build that failed for reasons of the machine, not of the code.
func envTrouble(s string) bool {
	if strings.Contains(s, "no space left on device") {
		return true
	}
	if strings.Contains(s, "no such file or directory") && (strings.Contains(s, ".gocache") || strings.Contains(s, "go-build")) {
		return true
	}
	return false
}

func tailStr(s string, n int) string {
	if len(s) > n {
		return s[len(s)-n:]
	}
	return s
}

// runExtension generates, compiles and checks one extension vocabulary.
func runExtension(scratch, astool, instrumented string, idx int, v ExtVocab, checks []string) (M, []report.Violation) {
	var viols []report.Violation
	dir := filepath.Join(scratch, fmt.Sprintf("ext%d", idx))
	mod := filepath.Join(dir, "mod")
	os.MkdirAll(mod, 0o755)
	if os.Getenv("VERIF_KEEP_SCRATCH") == "" {
		defer os.RemoveAll(dir)
	}
	spec := filepath.Join(dir, "ext.jsonld")
	os.WriteFile(spec, v.JSON(), 0o644)
	rep := M{"check": "C15", "part": "extension", "vocabulary": v.Label, "spec": string(v.JSON())}
	info := M{"types": len(v.Types), "properties": len(v.Props)}
	fail := func(key, what string) (M, []report.Violation) {
		viols = append(viols, report.Violation{Key: key, What: fmt.Sprintf("extension vocabulary %s: %s", v.Label, what), Replay: rep})
		return info, viols
	}
	as := repoDir() + "/astool/activitystreams.jsonld"
	// the vocabularies the extension is layered on: ActivityStreams, plus further shipped ones it references
	base := []string{as}
	for _, x := range v.Extra {
		base = append(base, repoDir()+"/astool/"+x)
	}
	if v.Below != nil {
		bspec := filepath.Join(dir, "below.jsonld")
		os.WriteFile(bspec, v.Below.JSON(), 0o644)
		base = append(base, bspec)
	}
	specs := append(append([]string{}, base...), spec)
	if instrumented != "" {
		// the generator's map iteration is owned here too: every order policy must succeed and agree
		var ref map[string]string
		for _, pol := range []string{"ASC", "DESC", "ROT"} {
			d := mod
			if pol != "ASC" {
				d = filepath.Join(dir, "mod-"+pol)
			}
			out, err := generate(instrumented, specs, d, []string{"ZZMAPORDER=" + pol})
			if err != nil {
				return fail("extension|astool-fails|policy="+pol, fmt.Sprintf("astool fails under map-order policy %s: %s", pol, firstPanicLines(out)))
			}
			dg, _ := treeDigest(d)
			if ref == nil {
				ref = dg
			} else if a, b, df := diffDigests(dg, ref); len(a)+len(b)+len(df) > 0 {
				viols = append(viols, report.Violation{Key: "extension|order-dependent-output|policy=" + pol,
					What: fmt.Sprintf("extension vocabulary %s: output under policy %s differs from ASC in %d files: %v", v.Label, pol, len(a)+len(b)+len(df), short(append(append(a, b...), df...), 6)), Replay: rep})
			}
			if pol != "ASC" {
				os.RemoveAll(d)
			}
		}
	} else if out, err := generate(astool, specs, mod, nil); err != nil {
		return fail("extension|astool-fails|policy=runtime", "astool fails: "+firstPanicLines(out))
	}
	os.WriteFile(filepath.Join(mod, "go.mod"), []byte("module github.com/go-fed/activity\n\ngo 1.12\n"), 0o644)
	b, _ := os.ReadFile(repoDir() + "/streams/util.go")
	os.WriteFile(filepath.Join(mod, "streams", "util.go"), b, 0o644)
	if out, err := run(mod, nil, "go", "build", "-trimpath", "./streams/..."); err != nil {
		return fail("extension|does-not-compile|"+v.Label, "the generated code does not compile: "+tailStr(out, 800))
	}
	// rebuild the drivers against the generated tree, with a binding table from the extended ontology
	vd := verifDir()
	gomod, _ := os.ReadFile(filepath.Join(vd, "go.mod"))
	gm := strings.Replace(string(gomod), "replace github.com/go-fed/activity => /repo", "replace github.com/go-fed/activity => "+mod, 1)
	os.WriteFile(filepath.Join(dir, "verif.mod"), []byte(gm), 0o644)
	gs, _ := os.ReadFile(filepath.Join(vd, "go.sum"))
	os.WriteFile(filepath.Join(dir, "verif.sum"), gs, 0o644)
	bind := filepath.Join(dir, "zz_bind.go")
	if out, err := run(vd, nil, "go", append([]string{"run", "./cmd/mkbind", bind, "github.com/go-fed/activity/streams"}, specs...)...); err != nil {
		return fail("tool|mkbind", out)
	}
	ov := filepath.Join(dir, "overlay.json")
	os.WriteFile(ov, []byte(fmt.Sprintf(`{"Replace": {%q: %q}}`, filepath.Join(vd, "bind", "zz_bind.go"), bind)), 0o644)
	drv := filepath.Join(dir, "verifs")
	if out, err := run(vd, nil, "go", "build", "-trimpath", "-modfile="+filepath.Join(dir, "verif.mod"), "-overlay", ov, "-o", drv, "./cmd/verifs"); err != nil {
		if strings.Contains(out, "zz_bind.go") {
			return fail("extension|api-lacks-ontology-elements|"+v.Label, "the binding table generated from the extended ontology does not compile against the generated code: "+tailStr(out, 800))
		}
		return fail("tool|driver-build", tailStr(out, 800))
	}
	outRoot := filepath.Join(dir, "out")
	os.MkdirAll(outRoot, 0o755)
	kf, _ := os.ReadFile(filepath.Join(vd, "known_findings.json"))
	os.WriteFile(filepath.Join(outRoot, "known_findings.json"), kf, 0o644)
	results := M{}
	for _, c := range checks {
		out, err := run(vd, []string{"VERIF_ROOT=" + outRoot, "VERIF_VOCABS=" + strings.Join(specs, ":"), "VERIF_EXT=1"}, drv, c, "quick")
		line := ""
		for _, l := range strings.Split(out, "\n") {
			if strings.HasPrefix(l, c+" ") {
				line = l
			}
		}
		results[c] = line
		if err != nil {
			var keys []string
			for _, l := range strings.Split(out, "\n") {
				if strings.HasPrefix(l, "  key=") {
					keys = append(keys, strings.TrimPrefix(l, "  key="))
				}
			}
			first := "?"
			if len(keys) > 0 {
				first = keys[0]
			}
			if v.Label == "typeless-child" && c == "C01" {
				// the recorded finding is "embedded objects are read as the typeless type, so the re-encoded
				// @context names the extension": every failing class must be an @context mismatch and nothing
				// else (the list of classes itself grows with the C01 driver and is not part of the key)
				onlyCtx := len(keys) > 0
				var other []string
				for _, k := range keys {
					if !strings.HasPrefix(k, "not-json-equal|") || !strings.HasSuffix(k, "|@context") {
						onlyCtx = false
						other = append(other, k)
					}
				}
				key := "extension|typeless-child|C01-fails|@context-clause-only"
				if !onlyCtx {
					sort.Strings(other)
					h := sha256.Sum256([]byte(strings.Join(other, "\n")))
					key = fmt.Sprintf("extension|typeless-child|C01-fails|beyond-@context|%d|%s", len(other), hex.EncodeToString(h[:5]))
				}
				viols = append(viols, report.Violation{Key: key,
					What:   fmt.Sprintf("extension vocabulary %s: the C01 driver reports %d failing classes: %v", v.Label, len(keys), keys),
					Replay: rep})
				continue
			}
			if v.Label == "name-clash" || v.Label == "typeless-child" {
				// judged by the exact set of wrong predicate cells
				sort.Strings(keys)
				h := sha256.Sum256([]byte(strings.Join(keys, "\n")))
				viols = append(viols, report.Violation{Key: fmt.Sprintf("extension|%s|%s-fails|%d-cells|%s", v.Label, c, len(keys), hex.EncodeToString(h[:5])),
					What:   fmt.Sprintf("extension vocabulary %s: the %s driver reports exactly these %d wrong predicate cells: %v", v.Label, c, len(keys), keys),
					Replay: rep})
				continue
			}
			viols = append(viols, report.Violation{Key: fmt.Sprintf("extension|%s-fails|%s", c, classOfKey(first)),
				What:   fmt.Sprintf("extension vocabulary %s: the %s driver reports %d violation(s) on the generated code, e.g. %v", v.Label, c, len(keys), short(keys, 5)),
				Replay: rep})
		}
	}
	info["drivers"] = results
	return info, viols
}

// classOfKey strips instance-specific parts of a driver's violation key.
func classOfKey(k string) string {
	parts := strings.Split(k, "|")
	if len(parts) > 1 {
		return parts[0]
	}
	return k
}

// firstPanicLines extracts the panic message and the first go-fed frames of an astool failure.
func firstPanicLines(out string) string {
	var keep []string
	for _, l := range strings.Split(out, "\n") {
		if strings.HasPrefix(l, "panic:") || strings.HasPrefix(l, "github.com/go-fed/activity/astool") || strings.Contains(l, "rror") {
			if i := strings.Index(l, "("); i > 0 && strings.HasPrefix(l, "github.com") {
				l = l[:i]
			}
			keep = append(keep, l)
		}
		if len(keep) >= 4 {
			break
		}
	}
	if len(keep) == 0 {
		return tailStr(out, 400)
	}
	return strings.Join(keep, " | ")
}
