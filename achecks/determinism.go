package achecks

import (
	"bufio"
	"fmt"
	"os"
	"path/filepath"
	"runtime"
	"sort"
	"strings"
	"sync"
	"time"

	"verif/report"
)

// determinism explores the map-iteration orders astool may see. The nondeterminism is taken over
// by an overlay that routes every `range` over a map through a shim obeying an order policy.
func determinism(res *report.Result, scratch, plainAstool, base string, baseDig map[string]string, thorough bool, deadline time.Time) (instrumented string) {
	ovDir := filepath.Join(scratch, "maporder")
	out, err := run(verifDir(), nil, "go", "run", "./cmd/mkmaporder", repoDir(), ovDir, "astool/zzmaporder", "./astool/...")
	if err != nil {
		res.Exhaustive = false
		res.Extra["determinism"] = "map-order overlay could not be generated: " + tailStr(out, 400)
		fmt.Fprintln(os.Stderr, "C15: map-order overlay unavailable:", tailStr(out, 400))
		return ""
	}
	inst := filepath.Join(scratch, "astool-maporder")
	if out, err := buildAstool(inst, filepath.Join(ovDir, "overlay.json")); err != nil {
		res.Exhaustive = false
		res.Extra["determinism"] = "instrumented astool does not build: " + tailStr(out, 400)
		fmt.Fprintln(os.Stderr, "C15: instrumented astool does not build:", tailStr(out, 400))
		return ""
	}
	runPolicy := func(name, policy string, stats string) (map[string]string, string, error) {
		dir := filepath.Join(scratch, "det-"+name)
		defer os.RemoveAll(dir)
		env := []string{"ZZMAPORDER=" + policy}
		if stats != "" {
			env = append(env, "ZZMAPORDER_STATS="+stats)
		}
		o, err := generate(inst, shippedSpecs(), dir, env)
		if err != nil {
			return nil, o, err
		}
		d, err := treeDigest(dir)
		return d, o, err
	}
	// baseline: ascending order everywhere; must equal the un-instrumented output
	stats := filepath.Join(scratch, "stats.txt")
	asc, o, err := runPolicy("asc", "ASC", stats)
	if err != nil {
		res.Violate("determinism|instrumented-astool-fails", tailStr(o, 500), M{"check": "C15", "part": "determinism", "policy": "ASC"})
		return ""
	}
	if a, b, d := diffDigests(asc, baseDig); len(a)+len(b)+len(d) > 0 {
		res.Violate("determinism|order-dependent-output|policy=ASC", fmt.Sprintf("with every map iterated in ascending key order the output differs from the plain run in %d files: %v", len(a)+len(b)+len(d), short(append(append(a, b...), d...), 6)),
			M{"check": "C15", "part": "determinism", "policy": "ASC"})
	}
	// which sites are exercised with at least two keys
	maxKeys := map[int]int{}
	dyn := 0
	unorderable := map[int]bool{}
	if f, err := os.Open(stats); err == nil {
		sc := bufio.NewScanner(f)
		for sc.Scan() {
			var s, n int
			var ok bool
			fmt.Sscan(sc.Text(), &s, &n, &ok)
			dyn++
			if n > maxKeys[s] {
				maxKeys[s] = n
			}
			if !ok {
				unorderable[s] = true
			}
		}
		f.Close()
	}
	var sites []int
	vacuous := 0
	for s, n := range maxKeys {
		if n >= 2 {
			sites = append(sites, s)
		} else {
			vacuous++
		}
	}
	sort.Ints(sites)
	if len(unorderable) > 0 {
		res.Exhaustive = false
	}
	siteNames := map[int]string{}
	if b, err := os.ReadFile(filepath.Join(ovDir, "sites.txt")); err == nil {
		for _, l := range strings.Split(string(b), "\n") {
			var id int
			var where string
			if n, _ := fmt.Sscan(l, &id, &where); n == 2 {
				siteNames[id] = where
			}
		}
	}
	type pol struct{ name, spec, key string }
	pols := []pol{{"global-DESC", "DESC", "global-DESC"}, {"global-ROT", "ROT", "global-ROT"}}
	for _, s := range sites {
		pols = append(pols, pol{fmt.Sprintf("s%d-DESC", s), fmt.Sprintf("ASC,s%d=DESC", s), "site-DESC|" + siteNames[s]})
	}
	if thorough {
		for _, s := range sites {
			pols = append(pols, pol{fmt.Sprintf("s%d-ROT", s), fmt.Sprintf("ASC,s%d=ROT", s), "site-ROT|" + siteNames[s]})
		}
		for i, a := range sites {
			for _, b := range sites[i+1:] {
				pols = append(pols, pol{fmt.Sprintf("s%d+s%d-DESC", a, b), fmt.Sprintf("ASC,s%d=DESC,s%d=DESC", a, b), "pair-DESC|" + siteNames[a] + "+" + siteNames[b]})
			}
		}
	}
	var mu sync.Mutex
	done := 0
	capped := false
	ch := make(chan pol, len(pols))
	for _, p := range pols {
		ch <- p
	}
	close(ch)
	var wg sync.WaitGroup
	for w := 0; w < runtime.NumCPU(); w++ {
		wg.Add(1)
		go func() {
			defer wg.Done()
			for p := range ch {
				if time.Now().After(deadline) {
					mu.Lock()
					capped = true
					mu.Unlock()
					continue
				}
				d, o, err := runPolicy(p.name, p.spec, "")
				mu.Lock()
				done++
				if err != nil {
					res.Violate("determinism|astool-fails|"+p.key, "astool fails under order policy "+p.spec+": "+tailStr(o, 400), M{"check": "C15", "part": "determinism", "policy": p.spec})
				} else if a, b, df := diffDigests(d, asc); len(a)+len(b)+len(df) > 0 {
					all := append(append(a, b...), df...)
					res.Violate("determinism|order-dependent-output|"+p.key, fmt.Sprintf("under map-order policy %q (%s) %d generated files differ from the ascending-order output: %v", p.spec, p.key, len(all), short(all, 6)),
						M{"check": "C15", "part": "determinism", "policy": p.spec, "files": short(all, 40)})
				}
				mu.Unlock()
			}
		}()
	}
	wg.Wait()
	if capped {
		res.Exhaustive = false
	}
	// three fresh-process plain runs (cheap sanity, not the decider)
	for i := 0; i < 3; i++ {
		dir := filepath.Join(scratch, fmt.Sprintf("plain%d", i))
		if _, err := generate(plainAstool, shippedSpecs(), dir, nil); err == nil {
			d, _ := treeDigest(dir)
			if a, b, df := diffDigests(d, baseDig); len(a)+len(b)+len(df) > 0 {
				res.Violate("determinism|plain-runs-differ", fmt.Sprintf("two plain runs of astool differ in %d files", len(a)+len(b)+len(df)), M{"check": "C15", "part": "determinism", "policy": "runtime"})
			}
		}
		os.RemoveAll(dir)
	}
	res.States += done + 1
	res.Transitions += (done + 1) * dyn
	res.Traces += done + 1 + 3
	res.Evaluations += done + 1 + 3
	for i := 0; i <= done; i++ {
		res.Nontrivial[fmt.Sprintf("policy|%d", i)] = struct{}{}
	}
	res.Extra["determinism"] = M{"static_map_range_sites": len(siteNames), "sites_executed": len(maxKeys), "sites_with_two_or_more_keys": len(sites), "vacuous_sites": vacuous,
		"unorderable_sites": len(unorderable), "dynamic_map_iterations_per_run": dyn, "policies_completed": done + 1, "policies_planned": len(pols) + 1, "time_capped": capped}
	res.Sample(M{"part": "determinism", "policy": pols[len(pols)/2].spec, "meaning": pols[len(pols)/2].key})
	return inst
}
