#!/bin/bash
# seedtest.sh <patch.diff> <Cnn> [tier]  — apply a seeded change to /repo, run one check, undo it.
P=$1; C=$2; T=${3:-quick}
git -C /repo apply "$P" || { echo "PATCH-DOES-NOT-APPLY $P"; exit 3; }
/verif/run.sh "$C" "$T" > /tmp/seedtest.$$.log 2>&1; rc=$?
git -C /repo checkout -- . ; git -C /repo clean -fdq
grep -E "^(VIOLATION|KNOWN-FINDING|  key=|BUILD-ERROR|C[0-9]+ (quick|thorough):)" /tmp/seedtest.$$.log | cut -c1-260
echo "rc=$rc"
# restore the evidence file of the unchanged tree
git -C /verif checkout -- evidence/$C.json 2>/dev/null
rm -f /tmp/seedtest.$$.log
