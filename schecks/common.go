// Package schecks holds the checks of the generated streams package (C01, C11-decoder, C12, C13, C14, C18).
package schecks

import (
	"fmt"
	"os"
	"runtime"
	"sync"

	"verif/onto"
)

// M is a JSON object literal; L a JSON array literal.
type M = map[string]interface{}
type L = []interface{}

// Repo is the tree under test.
func Repo() string {
	if r := os.Getenv("VERIF_REPO"); r != "" {
		return r
	}
	return "/repo"
}

// VocabFiles returns the vocabulary files the checks judge against (shipped ones unless overridden).
func VocabFiles() []string {
	if e := os.Getenv("VERIF_VOCABS"); e != "" {
		var out []string
		cur := ""
		for _, c := range e {
			if c == ':' {
				out = append(out, cur)
				cur = ""
			} else {
				cur += string(c)
			}
		}
		return append(out, cur)
	}
	return onto.ShippedFiles(Repo())
}

// LoadOnto loads the oracle or exits with a tool error.
func LoadOnto() *onto.Onto {
	o, err := onto.Load(VocabFiles()...)
	if err != nil {
		fmt.Fprintln(os.Stderr, "ontology:", err)
		os.Exit(2)
	}
	return o
}

// par runs fn(i) for i in [0,n) on all CPUs.
func par(n int, fn func(i int)) {
	w := runtime.NumCPU()
	ch := make(chan int, n)
	for i := 0; i < n; i++ {
		ch <- i
	}
	close(ch)
	var wg sync.WaitGroup
	for k := 0; k < w; k++ {
		wg.Add(1)
		go func() {
			defer wg.Done()
			for i := range ch {
				fn(i)
			}
		}()
	}
	wg.Wait()
}
