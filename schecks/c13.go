package schecks

import (
	"fmt"
	"reflect"

	"github.com/go-fed/activity/streams/vocab"

	"verif/bind"
	"verif/report"
)

// C13 — type-hierarchy predicates equal the ontology's closure.
func C13(tier string) int {
	res := report.NewResult("C13", tier, "exploration")
	o := LoadOnto()
	keys := o.TypeKeys()
	res.Rule = fmt.Sprintf("all %d x %d ordered type pairs x {Extends, IsExtendedBy, IsOrExtends, IsDisjointWith package functions, IsExtending method} compared with the subClassOf / disjointWith closure computed from the vocabulary JSON-LD files by code independent of astool; plus converse/symmetry/irreflexivity laws; non-trivial = pairs for which at least one predicate is true in the oracle", len(keys), len(keys))
	vals := map[string]vocab.Type{}
	for _, k := range keys {
		b := bind.Type(k)
		if b == nil {
			res.Violate("missing-binding|"+k, "no binding for type "+k, M{"check": "C13", "type": k})
			continue
		}
		vals[k] = b.New()
	}
	for _, a := range keys {
		ba := bind.Type(a)
		if ba == nil {
			continue
		}
		for _, b := range keys {
			vb, ok := vals[b]
			if !ok {
				continue
			}
			ext := o.Extends(a, b) // b proper ancestor of a
			extBy := o.Extends(b, a)
			dis := o.Disjoint(a, b)
			class := ""
			if ext || extBy || dis || a == b {
				class = a + "|" + b
			}
			res.Case(class)
			rep := M{"check": "C13", "a": a, "b": b}
			chk := func(name string, got, want bool) {
				if got != want {
					res.Violate(fmt.Sprintf("%s|%s|%s", name, a, b), fmt.Sprintf("%s(%s, %s) = %v, ontology says %v", name, a, b, got, want), rep)
				}
			}
			// "<A>Extends(other)": A extends other's type
			chk("Extends", ba.Extends(vb), ext)
			// "<A>IsExtendedBy(other)": other's type extends A
			chk("IsExtendedBy", ba.ExtendedBy(vb), extBy)
			// "IsOrExtends<A>(other)": other is A or extends A
			chk("IsOrExtends", ba.IsOrExtends(vb), extBy || a == b)
			chk("IsDisjointWith", ba.Disjoint(vb), dis)
			// method on values: a.IsExtending(b)
			m := reflect.ValueOf(vals[a]).MethodByName("IsExtending")
			if !m.IsValid() {
				res.Violate("no-IsExtending|"+a, "type "+a+" has no IsExtending method", rep)
			} else {
				got := m.Call([]reflect.Value{reflect.ValueOf(vb)})[0].Bool()
				chk("IsExtending-method", got, ext)
			}
			// consistency laws (on the implementation alone)
			bb := bind.Type(b)
			if ba.Extends(vb) != bb.ExtendedBy(vals[a]) {
				res.Violate("law-converse|"+a+"|"+b, fmt.Sprintf("%s extends %s is %v but %s is-extended-by %s is %v", a, b, ba.Extends(vb), b, a, bb.ExtendedBy(vals[a])), rep)
			}
			if ba.Disjoint(vb) != bb.Disjoint(vals[a]) {
				res.Violate("law-disjoint-symmetry|"+a+"|"+b, fmt.Sprintf("disjoint(%s,%s) != disjoint(%s,%s)", a, b, b, a), rep)
			}
			if ba.Disjoint(vb) && (a == b || ba.Extends(vb)) {
				res.Violate("law-disjoint-with-ancestor|"+a+"|"+b, fmt.Sprintf("%s is disjoint with itself or its ancestor %s", a, b), rep)
			}
			if len(res.Samples) < 4 && ext && dis == false && len(a)%3 == 0 {
				res.Sample(M{"a": a, "b": b, "extends": ext, "extendedBy": extBy, "disjoint": dis})
			}
		}
	}
	res.Extra["types"] = len(keys)
	return res.Finish()
}
