package schecks

import (
	"fmt"
	"reflect"
	"sort"
	"strings"

	"verif/onto"
	"verif/report"
)

// This file adds two dimensions to C18 that the sequence explorations in c18.go leave out:
//   - the element / slot setters that are not named Set<Kind>: the in-place setters of a list element
//     reached through At(i) (Set<Kind>, SetIRI, SetType, SetLanguage) and SetLanguage on a slot;
//   - start states other than the freshly constructed container: a slot or list DECODED from JSON,
//     holding a value of each kind or a value no kind admits (kept as an opaque "unknown").

// decodedProp decodes a host document carrying raw under the property's JSON name and returns the
// property value the decoded type holds (nil if the document is rejected or the member is not kept).
func decodedProp(o *onto.Onto, pk string, raw interface{}) interface{} {
	host := hostFor(o, pk)
	if host == "" || o.Types[host].Typeless {
		return nil
	}
	doc := baseDoc(o, host)
	doc[o.Props[pk].Name] = raw
	t, err, pan := decode(doc)
	if t == nil || err != nil || pan != nil {
		return nil
	}
	p, _ := getProp(t, o.Props[pk].GoProp())
	return p
}

var junkValues = []interface{}{3.0, true, "/relative/ref", "not a uri", M{"zz-unknown": 1.0}, L{L{1.0}}}

// slotObserve is the full observation of a functional property.
func slotObserve(q interface{}) string {
	ser, err := callSerialize(q)
	s := strings.Join(trueKinds(q), "+") + "=" + short(ser)
	if nm := method(q, "Name"); nm.IsValid() {
		s += " name=" + nm.Call(nil)[0].String()
	}
	if err != nil {
		s += " err=" + err.Error()
	}
	s += fmt.Sprintf(" HasAny=%v", method(q, "HasAny").Call(nil)[0].Bool())
	return s
}

type slotVal struct {
	name string              // operation name for reports
	do   func(q interface{}) // performs the set
	sig  string              // observation of a fresh slot after do
	ser  interface{}         // serialised form (to build decoded start states)
}

// slotAlphabet: every Set<Kind> of the slot (one sample each), SetIRI, and SetLanguage if offered.
func slotAlphabet(newProp func() interface{}) []slotVal {
	p := newProp()
	kinds := kindsOf(p, "Set")
	if m := method(p, "Set"); m.IsValid() && m.Type().NumIn() == 1 {
		kinds[""] = m.Type().In(0)
	}
	var names []string
	for k := range kinds {
		names = append(names, k)
	}
	sort.Strings(names)
	var vals []slotVal
	for _, k := range names {
		if k == "Language" || k == "Type" {
			continue
		}
		k := k
		arg, ok := argFor(kinds[k], 1)
		if !ok {
			continue
		}
		do := func(q interface{}) { method(q, "Set"+k).Call([]reflect.Value{arg}) }
		s := newProp()
		do(s)
		ser, _ := callSerialize(s)
		vals = append(vals, slotVal{"Set" + k, do, slotObserve(s), ser})
	}
	if m := method(p, "SetLanguage"); m.IsValid() && m.Type().NumIn() == 2 {
		do := func(q interface{}) {
			method(q, "SetLanguage").Call([]reflect.Value{reflect.ValueOf("en"), reflect.ValueOf("v1")})
		}
		s := newProp()
		do(s)
		ser, _ := callSerialize(s)
		vals = append(vals, slotVal{"SetLanguage", do, slotObserve(s), ser})
	}
	return vals
}

// exploreFuncStarts: functional property; start states = {fresh, decoded from the serialised form of
// each kind, decoded from each junk value the slot keeps as an opaque unknown}; from each, every
// sequence of length 1..2 over {every Set<Kind>, SetIRI, SetLanguage, Clear}; the slot must look
// exactly like a fresh slot after the last operation alone.
func exploreFuncStarts(o *onto.Onto, key string, newProp func() interface{}, stride int) *c18out {
	out := &c18out{prop: key, states: map[string]struct{}{}}
	vals := slotAlphabet(newProp)
	if len(vals) == 0 {
		return out
	}
	emptySig := slotObserve(newProp())
	type start struct {
		name string
		mk   func() interface{}
	}
	starts := []start{{"fresh", newProp}}
	if _, ok := o.Props[key]; ok {
		for i, v := range vals {
			raw := v.ser
			if decodedProp(o, key, raw) != nil {
				starts = append(starts, start{fmt.Sprintf("decoded(%s)", strings.TrimPrefix(vals[i].name, "Set")), func() interface{} { return decodedProp(o, key, raw) }})
			}
		}
		for _, j := range junkValues {
			j := j
			p := decodedProp(o, key, j)
			if p == nil || method(p, "HasAny").Call(nil)[0].Bool() {
				continue // rejected, dropped, or understood as some kind
			}
			starts = append(starts, start{"decoded-unknown(" + short(j) + ")", func() interface{} { return decodedProp(o, key, j) }})
		}
	}
	nops := len(vals) + 1
	apply := func(q interface{}, op int) (string, string) {
		if op == len(vals) {
			method(q, "Clear").Call(nil)
			return "Clear", emptySig
		}
		vals[op].do(q)
		return vals[op].name, vals[op].sig
	}
	n := 0
	for _, st := range starts {
		for a := 0; a < nops; a++ {
			for b := -1; b < nops; b++ {
				n++
				if b >= 0 && stride > 1 && b != len(vals) && a != len(vals) && b != (a+1)%nops && vals[b].name != "SetLanguage" && vals[a].name != "SetLanguage" {
					continue // quick: the second step is Clear, SetLanguage or the next kind (all pairs of Set<Kind> are exploreFuncAllKinds' job)
				}
				q := st.mk()
				names := []string{st.name}
				nm, want := apply(q, a)
				names = append(names, nm)
				out.transitions++
				if b >= 0 {
					nm, want = apply(q, b)
					names = append(names, nm)
					out.transitions++
				}
				out.nodes++
				out.states[strings.Join(names, ">")] = struct{}{}
				if got := slotObserve(q); got != want {
					startClass := st.name
					if i := strings.Index(startClass, "("); i >= 0 {
						startClass = startClass[:i]
					}
					out.viols = append(out.viols, report.Violation{Key: "slot|start=" + startClass + "|" + kindClass(names[len(names)-1]),
						What:   fmt.Sprintf("%s: %v reports %s, a single slot would report %s", key, names, got, want),
						Replay: M{"check": "C18", "property": key, "ops": names}})
				}
			}
		}
	}
	if out.sample == nil && len(starts) > 2 {
		var sn []string
		for _, s := range starts {
			sn = append(sn, s.name)
		}
		out.sample = M{"property": key, "start_states": sn, "operations": nops}
	}
	return out
}

func kindClass(op string) string {
	switch {
	case op == "Clear" || op == "SetIRI" || op == "SetLanguage":
		return op
	case strings.HasPrefix(op, "Set"):
		return "Set<kind>"
	}
	return op
}

// exploreElemSetters: non-functional property; lists of 2..3 elements built by Append (fresh) or
// DECODED from a JSON array (elements of each kind and junk elements kept as unknown); then every
// in-place setter of every element reached through At(i) - Set<Kind> for every kind, SetIRI, SetType
// for type kinds, SetLanguage - optionally followed by Remove / Swap / a second in-place set; after
// each step the whole list is compared with the slice reference (kinds, serialised form, walks).
func exploreElemSetters(o *onto.Onto, key string, newProp func() interface{}, stride int) *c18out {
	out := &c18out{prop: key, states: map[string]struct{}{}}
	p0 := newProp()
	kinds := kindsOf(p0, "Append")
	var names []string
	for k := range kinds {
		names = append(names, k)
	}
	sort.Strings(names)
	// value alphabet: one sample of every kind
	var vals []val
	for _, k := range names {
		if k == "Type" {
			continue
		}
		arg, ok := argFor(kinds[k], 1)
		if !ok {
			continue
		}
		s := newProp()
		method(s, "Append"+k).Call([]reflect.Value{arg})
		ser, _ := callSerialize(s)
		e := method(s, "At").Call([]reflect.Value{reflect.ValueOf(0)})[0].Interface()
		vals = append(vals, val{kind: k, arg: arg, label: k, sig: elemSig(e, ser)})
	}
	if len(vals) == 0 {
		return out
	}
	nKinds := len(vals)
	sers := make([]interface{}, nKinds)
	for i, v := range vals {
		s := newProp()
		method(s, "Append"+v.kind).Call([]reflect.Value{v.arg})
		sers[i], _ = callSerialize(s)
	}
	// junk elements the decoder keeps as unknown: they enter the alphabet as pseudo-values (no setter)
	type junk struct {
		raw interface{}
		idx int
	}
	var junks []junk
	if _, ok := o.Props[key]; ok {
		for _, j := range junkValues {
			if _, isList := j.([]interface{}); isList {
				continue
			}
			p := decodedProp(o, key, L{j, sers[0]})
			if p == nil || int(method(p, "Len").Call(nil)[0].Int()) != 2 {
				continue
			}
			e := method(p, "At").Call([]reflect.Value{reflect.ValueOf(0)})[0].Interface()
			if len(trueKinds(e)) != 0 {
				continue
			}
			ser, _ := callSerialize(p)
			l, ok := ser.([]interface{})
			if !ok || len(l) != 2 {
				continue
			}
			vals = append(vals, val{kind: "", label: "unknown(" + short(j) + ")", sig: elemSig(e, l[0])})
			junks = append(junks, junk{j, len(vals) - 1})
		}
	}
	// the element-level setters
	type esetter struct {
		name string
		v    int // resulting value (index into vals)
		do   func(elem reflect.Value)
	}
	var setters []esetter
	{
		s := newProp()
		method(s, "Append"+vals[0].kind).Call([]reflect.Value{vals[0].arg})
		e := method(s, "At").Call([]reflect.Value{reflect.ValueOf(0)})[0]
		ek := kindsOf(e.Interface(), "Set")
		for vi := 0; vi < nKinds; vi++ {
			v := vals[vi]
			if _, ok := ek[v.kind]; ok {
				vi, v := vi, v
				setters = append(setters, esetter{"At(i).Set" + v.kind, vi, func(el reflect.Value) { el.MethodByName("Set" + v.kind).Call([]reflect.Value{v.arg}) }})
			}
			if kinds[v.kind].Kind() == reflect.Interface {
				if m := e.MethodByName("SetType"); m.IsValid() {
					vi, v := vi, v
					setters = append(setters, esetter{"At(i).SetType<" + v.kind + ">", vi, func(el reflect.Value) { el.MethodByName("SetType").Call([]reflect.Value{v.arg}) }})
				}
			}
		}
		if m := e.MethodByName("SetLanguage"); m.IsValid() && m.Type().NumIn() == 2 {
			for vi := 0; vi < nKinds; vi++ {
				if vals[vi].arg.Type() == tLang {
					vi := vi
					setters = append(setters, esetter{"At(i).SetLanguage", vi, func(el reflect.Value) {
						el.MethodByName("SetLanguage").Call([]reflect.Value{reflect.ValueOf("en"), reflect.ValueOf("v1")})
					}})
				}
			}
		}
	}
	if len(setters) == 0 {
		return out
	}
	// start lists: fresh [a, b] and [a, b, c]; decoded [a, b]; decoded with a junk element in each position
	type start struct {
		name string
		ref  []int
		mk   func() interface{}
	}
	var starts []start
	pick := func(i int) int { return i % nKinds }
	mkFresh := func(ref []int) func() interface{} {
		return func() interface{} {
			p := newProp()
			for _, r := range ref {
				method(p, "Append"+vals[r].kind).Call([]reflect.Value{vals[r].arg})
			}
			return p
		}
	}
	for a := 0; a < nKinds; a++ {
		if stride > 1 && a != 0 && a != nKinds-1 && a != nKinds/2 {
			continue // quick: the first, middle and last kind as the element that is overwritten
		}
		ref2 := []int{a, pick(a + 1)}
		ref3 := []int{pick(a + 1), a, pick(a + 2)}
		starts = append(starts, start{fmt.Sprintf("fresh%v", labels(vals, ref2)), ref2, mkFresh(ref2)}, start{fmt.Sprintf("fresh%v", labels(vals, ref3)), ref3, mkFresh(ref3)})
		if _, ok := o.Props[key]; ok {
			raw := L{sers[ref2[0]], sers[ref2[1]]}
			if p := decodedProp(o, key, raw); p != nil && int(method(p, "Len").Call(nil)[0].Int()) == 2 {
				if asp, _ := observeSeq(p, ref2, vals); asp == "" { // the decoder understood both elements as the kinds they were written from
					starts = append(starts, start{fmt.Sprintf("decoded%v", labels(vals, ref2)), ref2, func() interface{} { return decodedProp(o, key, raw) }})
				}
			}
		}
	}
	for _, j := range junks {
		for pos := 0; pos < 2; pos++ {
			j, pos := j, pos
			ref := []int{0, 0}
			raw := L{sers[0], sers[0]}
			ref[pos], raw[pos] = j.idx, j.raw
			starts = append(starts, start{fmt.Sprintf("decoded%v", labels(vals, ref)), ref, func() interface{} { return decodedProp(o, key, raw) }})
		}
	}
	for _, st := range starts {
		for i := range st.ref {
			for si, s := range setters {
				// second step: nothing, Remove(k), Swap(0, last), or a second in-place set of another element
				for second := 0; second < 4; second++ {
					if second > 0 && stride > 1 && (si+i+second)%(4*stride) != 0 {
						continue
					}
					p := st.mk()
					ref := append([]int(nil), st.ref...)
					ops := []string{st.name, strings.Replace(s.name, "(i)", fmt.Sprintf("(%d)", i), 1)}
					el := method(p, "At").Call([]reflect.Value{reflect.ValueOf(i)})[0]
					s.do(el)
					ref[i] = s.v
					out.transitions++
					asp, detail := observeSeq(p, ref, vals)
					if asp == "" {
						switch second {
						case 1:
							k := (i + 1) % len(ref)
							method(p, "Remove").Call([]reflect.Value{reflect.ValueOf(k)})
							ref = append(append([]int(nil), ref[:k]...), ref[k+1:]...)
							ops = append(ops, fmt.Sprintf("Remove(%d)", k))
						case 2:
							method(p, "Swap").Call([]reflect.Value{reflect.ValueOf(0), reflect.ValueOf(len(ref) - 1)})
							ref[0], ref[len(ref)-1] = ref[len(ref)-1], ref[0]
							ops = append(ops, fmt.Sprintf("Swap(0,%d)", len(ref)-1))
						case 3:
							k := (i + 1) % len(ref)
							s2 := setters[(si+1)%len(setters)]
							el2 := method(p, "At").Call([]reflect.Value{reflect.ValueOf(k)})[0]
							s2.do(el2)
							ref[k] = s2.v
							ops = append(ops, strings.Replace(s2.name, "(i)", fmt.Sprintf("(%d)", k), 1))
						}
						if second > 0 {
							out.transitions++
							asp, detail = observeSeq(p, ref, vals)
						}
					}
					out.nodes++
					out.states[strings.Join(ops, ">")] = struct{}{}
					if asp != "" {
						startClass := "fresh"
						if strings.HasPrefix(st.name, "decoded") {
							startClass = "decoded"
							if strings.Contains(st.name, "unknown(") {
								startClass = "decoded-with-unknown"
							}
						}
						setterClass := s.name
						if strings.HasPrefix(setterClass, "At(i).SetType<") {
							setterClass = "At(i).SetType"
						} else if setterClass != "At(i).SetIRI" && setterClass != "At(i).SetLanguage" {
							setterClass = "At(i).Set<kind>"
						}
						out.viols = append(out.viols, report.Violation{Key: "seq|" + asp + "|element-setter|" + setterClass + "|start=" + startClass,
							What:   fmt.Sprintf("%s after %v: %s", key, ops, detail),
							Replay: M{"check": "C18", "property": key, "ops": ops}})
					}
				}
			}
		}
	}
	if len(starts) > 0 {
		var sn []string
		for _, s := range setters {
			sn = append(sn, s.name)
		}
		out.sample = M{"property": key, "element_setters": sn, "start_lists": len(starts)}
	}
	return out
}

func labels(vals []val, ref []int) []string {
	var l []string
	for _, r := range ref {
		l = append(l, vals[r].label)
	}
	return l
}
