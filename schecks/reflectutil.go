package schecks

import (
	"context"
	"encoding/json"
	"fmt"
	"net/url"
	"reflect"
	"sort"
	"strings"
	"sync"

	"github.com/go-fed/activity/streams"
	"github.com/go-fed/activity/streams/vocab"

	"verif/onto"
)

// decode runs the JSON decoder on a document given as a Go value (it is first passed through
// encoding/json so that numbers are float64, as in production).
func decode(doc M) (t vocab.Type, err error, panicked interface{}) {
	defer func() {
		if r := recover(); r != nil {
			panicked = r
		}
	}()
	var m map[string]interface{}
	b, e := json.Marshal(doc)
	if e != nil {
		return nil, e, nil
	}
	json.Unmarshal(b, &m)
	t, err = streams.ToType(context.Background(), m)
	return
}

func jsonNorm(v interface{}) interface{} {
	b, _ := json.Marshal(v)
	var o interface{}
	json.Unmarshal(b, &o)
	return o
}

// method returns the named method of v (invalid Value if absent).
func method(v interface{}, name string) reflect.Value {
	if v == nil {
		return reflect.Value{}
	}
	return reflect.ValueOf(v).MethodByName(name)
}

func isNilValue(v reflect.Value) bool {
	switch v.Kind() {
	case reflect.Interface, reflect.Ptr, reflect.Map, reflect.Slice, reflect.Func:
		return v.IsNil()
	}
	return false
}

// getProp calls Get<GoProp>() on a type value. exists=false if the accessor is absent.
func getProp(t vocab.Type, goProp string) (prop interface{}, exists bool) {
	m := method(t, "Get"+goProp)
	if !m.IsValid() {
		return nil, false
	}
	out := m.Call(nil)[0]
	if isNilValue(out) {
		return nil, true
	}
	return out.Interface(), true
}

// trueKinds lists the Is<Kind>() predicates (without the "Is" prefix) that hold on an element.
func trueKinds(elem interface{}) []string {
	v := reflect.ValueOf(elem)
	idx := isMethods(v.Type())
	var out []string
	for _, m := range idx {
		if v.Method(m.i).Call(nil)[0].Bool() {
			out = append(out, m.name)
		}
	}
	return out
}

type isMethod struct {
	i    int
	name string
}

var isCache sync.Map // reflect.Type -> []isMethod (sorted by name)

func isMethods(t reflect.Type) []isMethod {
	if c, ok := isCache.Load(t); ok {
		return c.([]isMethod)
	}
	var out []isMethod
	for i := 0; i < t.NumMethod(); i++ {
		n := t.Method(i).Name
		if !strings.HasPrefix(n, "Is") || n == "IsExtending" {
			continue
		}
		mt := t.Method(i).Type
		if mt.NumIn() != 1 || mt.NumOut() != 1 || mt.Out(0).Kind() != reflect.Bool {
			continue
		}
		out = append(out, isMethod{i, n[2:]})
	}
	sort.Slice(out, func(a, b int) bool { return out[a].name < out[b].name })
	isCache.Store(t, out)
	return out
}

// elements returns the elements of a property value: the property itself if functional,
// its iterators otherwise.
func elements(prop interface{}) (elems []interface{}, list bool) {
	if l := method(prop, "Len"); l.IsValid() {
		n := int(l.Call(nil)[0].Int())
		at := method(prop, "At")
		for i := 0; i < n; i++ {
			elems = append(elems, at.Call([]reflect.Value{reflect.ValueOf(i)})[0].Interface())
		}
		return elems, true
	}
	return []interface{}{prop}, false
}

func hasMethod(v interface{}, name string) bool { return method(v, name).IsValid() }

// jsonName of special properties.
func goPropOf(o *onto.Onto, key string) string {
	switch key {
	case "JSONLD/id":
		return "JSONLDId"
	case "JSONLD/type":
		return "JSONLDType"
	}
	return o.Props[key].GoProp()
}

// allContexts lists every vocabulary URI (documents built by the checks name all of them unless
// the exact context matters).
func allContexts(o *onto.Onto) L {
	var l L
	for _, v := range o.Vocabs {
		l = append(l, rawURI(v))
	}
	return l
}

// rawURI returns the vocabulary id as written in its file.
func rawURI(v *onto.Vocab) string {
	return v.URI
}

func mustURL(s string) *url.URL {
	u, err := url.Parse(s)
	if err != nil {
		panic(err)
	}
	return u
}

func short(v interface{}) string {
	b, _ := json.Marshal(v)
	s := string(b)
	if len(s) > 300 {
		s = s[:300] + "..."
	}
	return s
}

var _ = fmt.Sprint

func mustParse(s string) (*url.URL, error) { return url.Parse(s) }
