package schecks

import (
	"context"
	"errors"
	"fmt"
	"reflect"
	"strings"

	"github.com/go-fed/activity/streams"
	"github.com/go-fed/activity/streams/vocab"

	"verif/bind"
	"verif/onto"
	"verif/report"
)

var (
	tCtx  = reflect.TypeOf((*context.Context)(nil)).Elem()
	tErr  = reflect.TypeOf((*error)(nil)).Elem()
	tBool = reflect.TypeOf(true)
)

type invocation struct {
	idx  int    // position in the callback list
	key  string // type key the callback was written for
	kind string // "cb" | "pred"
}

type cbLog struct{ calls []invocation }

// mkCallback manufactures func(context.Context, <Iface>) error.
func mkCallback(log *cbLog, idx int, tb *bind.TypeB, ret error) interface{} {
	ft := reflect.FuncOf([]reflect.Type{tCtx, tb.Iface}, []reflect.Type{tErr}, false)
	return reflect.MakeFunc(ft, func(args []reflect.Value) []reflect.Value {
		log.calls = append(log.calls, invocation{idx, tb.Key, "cb"})
		out := reflect.New(tErr).Elem()
		if ret != nil {
			out.Set(reflect.ValueOf(ret))
		}
		return []reflect.Value{out}
	}).Interface()
}

// mkPredicate manufactures func(context.Context, <Iface>) (bool, error).
func mkPredicate(log *cbLog, tb *bind.TypeB, pass bool, ret error) interface{} {
	ft := reflect.FuncOf([]reflect.Type{tCtx, tb.Iface}, []reflect.Type{tBool, tErr}, false)
	return reflect.MakeFunc(ft, func(args []reflect.Value) []reflect.Value {
		log.calls = append(log.calls, invocation{-1, tb.Key, "pred"})
		out := reflect.New(tErr).Elem()
		if ret != nil {
			out.Set(reflect.ValueOf(ret))
		}
		return []reflect.Value{reflect.ValueOf(pass), out}
	}).Interface()
}

type cbSpec struct {
	key string
	err error
}

// expect computes the oracle: the first callback written for exactly the value's own type.
func expectCall(own string, specs []cbSpec) (idx int, err error) {
	for i, s := range specs {
		if s.key == own {
			return i, s.err
		}
	}
	return -1, nil
}

func jsonDocFor(o *onto.Onto, key string) M {
	return M{"@context": allContexts(o), "type": o.Types[key].Name, "id": "https://x.example/v"}
}

// resolveAll runs the three resolvers for one (value type, callback list) and reports discrepancies.
func resolveAll(res *report.Result, o *onto.Onto, own string, specs []cbSpec, label string) {
	wantIdx, wantErr := expectCall(own, specs)
	describe := func() []string {
		var s []string
		for _, c := range specs {
			e := ""
			if c.err != nil {
				e = "!err"
			}
			s = append(s, c.key+e)
		}
		return s
	}
	judge := func(resolver string, log *cbLog, err error) {
		rep := M{"check": "C14", "resolver": resolver, "value_type": own, "callbacks": describe()}
		keyTail := resolver + "|" + label
		if wantIdx < 0 {
			if len(log.calls) != 0 {
				res.Violate("invoked-without-own-type-callback|"+keyTail, fmt.Sprintf("%s: value %s, callbacks %v: invoked %v although no callback is written for %s", resolver, own, describe(), log.calls, own), rep)
			}
			if !streams.IsUnmatchedErr(err) {
				res.Violate("unmatched-error-not-recognised|"+keyTail, fmt.Sprintf("%s: value %s, callbacks %v: returned %v, expected an error recognised by IsUnmatchedErr", resolver, own, describe(), err), rep)
			}
			return
		}
		if len(log.calls) != 1 || log.calls[0].idx != wantIdx {
			res.Violate("wrong-callback|"+keyTail, fmt.Sprintf("%s: value %s, callbacks %v: invoked %v, expected exactly callback #%d", resolver, own, describe(), log.calls, wantIdx), rep)
			return
		}
		if err != wantErr {
			res.Violate("error-not-returned-unchanged|"+keyTail, fmt.Sprintf("%s: value %s: callback returned %v, resolver returned %v", resolver, own, wantErr, err), rep)
		}
	}
	build := func(log *cbLog) []interface{} {
		var cbs []interface{}
		for i, s := range specs {
			cbs = append(cbs, mkCallback(log, i, bind.Type(s.key), s.err))
		}
		return cbs
	}
	ctx := context.Background()
	tOwn := o.Types[own]
	// JSON input
	if !tOwn.Typeless {
		log := &cbLog{}
		r, err := streams.NewJSONResolver(build(log)...)
		if err != nil {
			res.Violate("constructor-rejects-valid-callbacks|JSONResolver", fmt.Sprintf("NewJSONResolver(%v): %v", describe(), err), M{"check": "C14", "callbacks": describe()})
		} else {
			var doc map[string]interface{} = jsonNorm(jsonDocFor(o, own)).(map[string]interface{})
			judge("JSONResolver", log, r.Resolve(ctx, doc))
		}
		res.Case("json|" + own + "|" + label)
	}
	// typed value
	{
		log := &cbLog{}
		r, err := streams.NewTypeResolver(build(log)...)
		if err != nil {
			res.Violate("constructor-rejects-valid-callbacks|TypeResolver", fmt.Sprintf("NewTypeResolver(%v): %v", describe(), err), M{"check": "C14", "callbacks": describe()})
		} else {
			judge("TypeResolver", log, r.Resolve(ctx, bind.Type(own).New()))
		}
		res.Case("type|" + own + "|" + label)
	}
}

// C14 — resolvers call exactly the callback written for the value's own type.
func C14(tier string) int {
	res := report.NewResult("C14", tier, "exploration")
	o := LoadOnto()
	keys := o.TypeKeys()
	ctx := context.Background()
	errA, errB := errors.New("callback error A"), errors.New("predicate error B")

	// ---- (1) every (value type, callback type) pair, three resolvers ----
	for _, v := range keys {
		for _, c := range keys {
			resolveAll(res, o, v, []cbSpec{{c, nil}}, "pair")
			// predicated resolution: predicate written for c, delegate has a callback for v
			for _, po := range []struct {
				pass bool
				err  error
			}{{true, nil}, {false, nil}, {false, errB}, {true, errB}} {
				if c != v && !(po.pass && po.err == nil) {
					continue // the predicate is never called: its outcome is irrelevant
				}
				log := &cbLog{}
				dlg, err := streams.NewTypeResolver(mkCallback(log, 0, bind.Type(v), errA))
				if err != nil {
					res.Violate("constructor-rejects-valid-callbacks|TypeResolver", fmt.Sprintf("NewTypeResolver(callback for %s): %v", v, err), M{"check": "C14", "type": v})
					continue
				}
				pr, err := streams.NewTypePredicatedResolver(dlg, mkPredicate(log, bind.Type(c), po.pass, po.err))
				if err != nil {
					res.Violate("constructor-rejects-valid-predicate", fmt.Sprintf("NewTypePredicatedResolver(predicate for %s): %v", c, err), M{"check": "C14", "type": c})
					continue
				}
				pass, rerr := pr.Apply(ctx, bind.Type(v).New())
				res.Case(fmt.Sprintf("pred|%s|%s|%v|%v", v, c, po.pass, po.err != nil))
				rep := M{"check": "C14", "resolver": "TypePredicatedResolver", "value_type": v, "predicate_type": c, "predicate_returns": fmt.Sprint(po.pass, po.err)}
				label := fmt.Sprintf("predicate(%v,%v)", po.pass, po.err != nil)
				if c != v {
					if len(log.calls) != 0 || pass || !streams.IsUnmatchedErr(rerr) {
						res.Violate("predicated-mismatch|"+label, fmt.Sprintf("value %s, predicate for %s: calls=%v pass=%v err=%v; expected nothing invoked and an unmatched error", v, c, log.calls, pass, rerr), rep)
					}
					continue
				}
				var wantCalls []string
				wantCalls = append(wantCalls, "pred")
				wantPass, wantErr := po.pass, po.err
				if po.err == nil && po.pass {
					wantCalls = append(wantCalls, "cb")
					wantErr = errA
				}
				if po.err != nil {
					wantPass = pass // the boolean accompanying an error is unspecified
				}
				var got []string
				for _, cl := range log.calls {
					got = append(got, cl.kind)
				}
				if strings.Join(got, ",") != strings.Join(wantCalls, ",") || pass != wantPass || rerr != wantErr {
					res.Violate("predicated-own-type|"+label, fmt.Sprintf("value %s with its own predicate returning (%v,%v): calls=%v pass=%v err=%v; expected calls=%v pass=%v err=%v", v, po.pass, po.err, got, pass, rerr, wantCalls, wantPass, wantErr), rep)
				}
			}
		}
	}

	// ---- (1b) predicated resolution where the DELEGATE has no callback for the value's own type ----
	for _, v := range keys {
		other := "ActivityStreams/Note"
		if v == other {
			other = "ActivityStreams/Person"
		}
		for _, dl := range [][]string{{}, {other}} {
			log := &cbLog{}
			var cbs []interface{}
			for i, k := range dl {
				cbs = append(cbs, mkCallback(log, i, bind.Type(k), nil))
			}
			dlg, err := streams.NewTypeResolver(cbs...)
			if err != nil {
				continue
			}
			pr, err := streams.NewTypePredicatedResolver(dlg, mkPredicate(log, bind.Type(v), true, nil))
			if err != nil {
				continue
			}
			pass, rerr := pr.Apply(ctx, bind.Type(v).New())
			res.Case(fmt.Sprintf("pred-delegate-without-callback|%s|%d", v, len(dl)))
			var got []string
			for _, cl := range log.calls {
				got = append(got, cl.kind)
			}
			// the predicate (for the own type) runs and passes; the delegate then has nothing for the value:
			// no callback is invoked and the error is an unmatched one
			if strings.Join(got, ",") != "pred" || !streams.IsUnmatchedErr(rerr) {
				res.Violate("predicated-own-type|delegate-without-callback", fmt.Sprintf("value %s, own-type predicate passing, delegate callbacks %v: calls=%v pass=%v err=%v; expected only the predicate to run and an unmatched error", v, dl, got, pass, rerr),
					M{"check": "C14", "resolver": "TypePredicatedResolver", "value_type": v, "delegate_callbacks": dl})
			}
		}
	}

	// ---- (1c) ONE resolver value reused for a sequence of different values (a resolver keeps no state) ----
	for _, v := range keys {
		other := "ActivityStreams/Note"
		if v == other {
			other = "ActivityStreams/Person"
		}
		tv := o.Types[v]
		log := &cbLog{}
		cbs := []interface{}{mkCallback(log, 0, bind.Type(v), errA), mkCallback(log, 1, bind.Type(other), nil)}
		jr, err1 := streams.NewJSONResolver(cbs...)
		tr, err2 := streams.NewTypeResolver(cbs...)
		if err1 != nil || err2 != nil {
			continue
		}
		type step struct {
			key     string // value type ("" = a type no vocabulary defines)
			wantIdx int
			wantErr error
		}
		seq := []step{{v, 0, errA}, {other, 1, nil}, {"", -1, nil}, {v, 0, errA}, {"ActivityStreams/Tombstone", -1, nil}, {other, 1, nil}, {v, 0, errA}}
		if v == "ActivityStreams/Tombstone" || other == "ActivityStreams/Tombstone" {
			seq[4].key = "ActivityStreams/Place"
		}
		for si, st := range seq {
			for _, which := range []string{"JSONResolver", "TypeResolver"} {
				if which == "JSONResolver" && (tv.Typeless || (st.key != "" && o.Types[st.key].Typeless)) {
					continue
				}
				if which == "TypeResolver" && st.key == "" {
					continue
				}
				log.calls = nil
				var rerr error
				if which == "JSONResolver" {
					doc := M{"@context": allContexts(o), "type": "Frobnicate", "id": "https://x.example/v"}
					if st.key != "" {
						doc = jsonDocFor(o, st.key)
					}
					rerr = jr.Resolve(ctx, jsonNorm(doc).(map[string]interface{}))
				} else {
					rerr = tr.Resolve(ctx, bind.Type(st.key).New())
				}
				res.Case(fmt.Sprintf("reused|%s|%s|%d", which, v, si))
				ok := true
				if st.wantIdx < 0 {
					ok = len(log.calls) == 0 && streams.IsUnmatchedErr(rerr)
				} else {
					ok = len(log.calls) == 1 && log.calls[0].idx == st.wantIdx && rerr == st.wantErr
				}
				if !ok {
					res.Violate("reused-resolver|"+which, fmt.Sprintf("one %s (callbacks for %s and %s) reused: call %d with a value of type %q invoked %v, err %v", which, v, other, si+1, st.key, log.calls, rerr),
						M{"check": "C14", "resolver": which, "value_type": v, "step": si})
					break
				}
			}
		}
	}

	// ---- (2) callback lists of length 0..4 (thorough: 5) over a per-type alphabet ----
	maxLen := 4
	if res.Thorough() {
		maxLen = 5
	}
	for _, v := range keys {
		// (a callback may itself return one of the library's "unmatched" sentinels, e.g. from a nested resolver:
		// it is that callback's error and comes back unchanged, nothing further is invoked)
		alpha := []cbSpec{{v, nil}, {v, errA}, {v, streams.ErrNoCallbackMatch}}
		pick := func(cands []string) {
			for _, c := range cands {
				if c != v {
					alpha = append(alpha, cbSpec{c, nil})
					return
				}
			}
		}
		pick(o.Types[v].Parents)
		var children, siblings, foreign, sameName []string
		for _, k := range keys {
			for _, p := range o.Types[k].Parents {
				if p == v {
					children = append(children, k)
				}
				for _, vp := range o.Types[v].Parents {
					if p == vp && k != v {
						siblings = append(siblings, k)
					}
				}
			}
			if o.Types[k].Vocab != o.Types[v].Vocab {
				foreign = append(foreign, k)
				if strings.Contains(k, o.Types[v].Name) || strings.Contains(o.Types[v].Name, o.Types[k].Name) {
					sameName = append(sameName, k)
				}
			}
		}
		pick(children)
		pick(siblings)
		pick(sameName)
		pick(foreign)
		var rec func(list []cbSpec)
		rec = func(list []cbSpec) {
			resolveAll(res, o, v, list, fmt.Sprintf("list%d", len(list)))
			if len(list) == maxLen {
				return
			}
			for _, a := range alpha {
				rec(append(append([]cbSpec(nil), list...), a))
			}
		}
		rec(nil)
		// long registration lists: 5, 8, 16, 17 and 33 callbacks for OTHER types (cycling through the
		// alphabet's foreign entries and further types) in front of / around the own-type callbacks
		var others []string
		for _, a := range alpha[3:] {
			others = append(others, a.key)
		}
		for _, k := range keys {
			if k != v && len(others) < 40 {
				dup := false
				for _, x := range others {
					if x == k {
						dup = true
					}
				}
				if !dup {
					others = append(others, k)
				}
			}
		}
		for _, n := range []int{5, 8, 16, 17, 33} {
			var pre []cbSpec
			for i := 0; i < n; i++ {
				pre = append(pre, cbSpec{others[i%len(others)], nil})
			}
			resolveAll(res, o, v, append(append([]cbSpec(nil), pre...), cbSpec{v, errA}, cbSpec{v, nil}), fmt.Sprintf("long%d-own-last", n))
			resolveAll(res, o, v, pre, fmt.Sprintf("long%d-no-own", n))
			mid := append(append(append([]cbSpec(nil), pre[:n/2]...), cbSpec{v, nil}), pre[n/2:]...)
			resolveAll(res, o, v, append(mid, cbSpec{v, errA}), fmt.Sprintf("long%d-own-in-the-middle", n))
		}
		if len(res.Samples) < 3 && len(alpha) >= 5 {
			var s []string
			for _, a := range alpha {
				s = append(s, a.key)
			}
			res.Sample(M{"value_type": v, "callback_alphabet": s, "max_list_length": maxLen})
		}
	}

	// ---- (3) multi-valued / unknown 'type' ----
	names := []string{"Note", "Person", "Emoji", "Frobnicate", "x:Unknown"}
	known := map[string]string{"Note": "ActivityStreams/Note", "Person": "ActivityStreams/Person", "Emoji": "Toot/Emoji"}
	if o.Types["Toot/Emoji"] == nil {
		// extension runs load ActivityStreams + the extension only: use one of its types instead
		delete(known, "Emoji")
		for _, k := range keys {
			if o.Types[k].Vocab != "ActivityStreams" && !o.Types[k].Typeless {
				names[2] = o.Types[k].Name
				known[names[2]] = k
				break
			}
		}
	}
	var arrays [][]string
	for _, a := range names {
		arrays = append(arrays, []string{a})
		for _, b := range names {
			arrays = append(arrays, []string{a, b})
			for _, c := range names {
				arrays = append(arrays, []string{a, b, c})
				for _, d := range names {
					arrays = append(arrays, []string{a, b, c, d})
				}
			}
		}
	}
	third := known[names[2]]
	if third == "" {
		third = "ActivityStreams/Place" // no further vocabulary loaded
	}
	cbSets := [][]string{{}, {"ActivityStreams/Note"}, {"ActivityStreams/Person"}, {third}, {"ActivityStreams/Person", "ActivityStreams/Note"}, {third, "ActivityStreams/Note", "ActivityStreams/Person"}}
	for _, arr := range arrays {
		own := ""
		for _, n := range arr {
			if k, ok := known[n]; ok {
				own = k
				break
			}
		}
		tv := L{}
		for _, n := range arr {
			tv = append(tv, n)
		}
		doc := jsonNorm(M{"@context": allContexts(o), "type": tv, "id": "https://x.example/v"}).(map[string]interface{})
		// ToType agrees on what the value's own type is
		t, err := streams.ToType(ctx, doc)
		res.Case("typearray|" + strings.Join(arr, ","))
		rep := M{"check": "C14", "type_member": arr}
		if own == "" {
			if t != nil || !streams.IsUnmatchedErr(err) {
				res.Violate("unknown-type-not-unmatched|ToType", fmt.Sprintf("type %v: ToType returned %v, %v", arr, t, err), rep)
			}
		} else if t == nil || t.GetTypeName() != o.Types[own].Name {
			res.Violate("type-array-own-type|ToType", fmt.Sprintf("type %v: ToType returned %v (%v), expected a %s", arr, t, err, own), rep)
		}
		for _, cbErr := range []error{nil, streams.ErrNoCallbackMatch, streams.ErrPredicateUnmatched, streams.ErrUnhandledType} {
			for _, set := range cbSets {
				if cbErr != nil && len(arr) > 3 {
					continue
				}
				var specs []cbSpec
				for _, k := range set {
					specs = append(specs, cbSpec{k, cbErr})
				}
				log := &cbLog{}
				var cbs []interface{}
				for i, s := range specs {
					cbs = append(cbs, mkCallback(log, i, bind.Type(s.key), s.err))
				}
				r, err := streams.NewJSONResolver(cbs...)
				if err != nil {
					continue
				}
				rerr := r.Resolve(ctx, doc)
				res.Case(fmt.Sprintf("typearray|%s|%v", strings.Join(arr, ","), set))
				wantIdx := -1
				if own != "" {
					wantIdx, _ = expectCall(own, specs)
				}
				rep := M{"check": "C14", "type_member": arr, "callbacks": set}
				if wantIdx < 0 {
					if len(log.calls) != 0 || !streams.IsUnmatchedErr(rerr) {
						res.Violate("type-array|invoked-or-not-unmatched", fmt.Sprintf("type %v, callbacks %v: invoked %v, err %v; the value's own type is %q and has no callback", arr, set, log.calls, rerr, own), rep)
					}
				} else if len(log.calls) != 1 || log.calls[0].idx != wantIdx || rerr != cbErr {
					res.Violate("type-array|wrong-callback", fmt.Sprintf("type %v, callbacks %v returning %v: invoked %v, err %v; expected exactly callback #%d (%s) and its error", arr, set, cbErr, log.calls, rerr, wantIdx, own), rep)
				}
			}
		}
	}

	// ---- (3a) a 'type' member that names no type at all: nothing is invoked, the error is an unmatched one ----
	for ji, tv := range []interface{}{L{}, L{1.0}, L{M{"id": "https://x.example/t"}}, 5.0, nil, M{}, true, "", L{nil}, L{L{"Note"}}, "note", " Note"} {
		doc := jsonNorm(M{"@context": allContexts(o), "type": tv, "id": "https://x.example/v"}).(map[string]interface{})
		res.Case(fmt.Sprintf("typeless-member|%d", ji))
		rep := M{"check": "C14", "type_member": tv}
		t, err := streams.ToType(ctx, doc)
		if t != nil || !streams.IsUnmatchedErr(err) {
			res.Violate("type-member-names-no-type|ToType", fmt.Sprintf("type %v: ToType returned %v, %v; expected no value and an unmatched error", short(tv), t, err), rep)
		}
		log := &cbLog{}
		r, cerr := streams.NewJSONResolver(mkCallback(log, 0, bind.Type("ActivityStreams/Note"), nil), mkCallback(log, 1, bind.Type("ActivityStreams/Object"), nil))
		if cerr == nil {
			rerr := r.Resolve(ctx, doc)
			if len(log.calls) != 0 || !streams.IsUnmatchedErr(rerr) {
				res.Violate("type-member-names-no-type|JSONResolver", fmt.Sprintf("type %v: invoked %v, err %v; expected nothing invoked and an unmatched error", short(tv), log.calls, rerr), rep)
			}
		}
	}

	// ---- (3b) how the document names its vocabulary: plain @context entries and aliased ones ----
	// (the library's alias form is {vocabulary URI: alias}; an aliased document writes "alias:Name")
	swap := func(u string) string {
		if strings.HasPrefix(u, "https://") {
			return "http://" + strings.TrimPrefix(u, "https://")
		}
		return "https://" + strings.TrimPrefix(u, "http://")
	}
	for _, v := range keys {
		tv := o.Types[v]
		if tv.Typeless {
			continue
		}
		uri := rawURI(o.VocabOf(tv.Vocab))
		asURI := rawURI(o.Vocabs[0])
		type ctxForm struct {
			name string
			ctx  interface{}
			typ  interface{}
		}
		forms := []ctxForm{
			{"own-uri", uri, tv.Name},
			{"own-uri-other-scheme", swap(uri), tv.Name},
			{"list-as+own", L{asURI, uri}, tv.Name},
			{"alias-map", M{uri: "zz"}, "zz:" + tv.Name},
			{"alias-map-in-list", L{asURI, M{uri: "zz"}}, "zz:" + tv.Name},
			{"alias-map-type-array", M{uri: "zz"}, L{"zz:" + tv.Name}},
			{"alias-map-in-list-after-others", L{M{"https://other.example/ns": "oo"}, M{uri: "zz"}}, "zz:" + tv.Name},
			// multi-valued 'type' under an alias: the entry naming this type after / before / between entries
			// that name no type of the loaded vocabularies
			{"alias-map-type-array-unknown-first", M{uri: "zz"}, L{"ext:Memo", "zz:" + tv.Name}},
			{"alias-map-type-array-unknown-last", M{uri: "zz"}, L{"zz:" + tv.Name, "ext:Memo"}},
			{"alias-map-type-array-two-unknown-first", L{M{"https://other.example/ns": "ext"}, M{uri: "zz"}}, L{"ext:Memo", "Frobnicate", "zz:" + tv.Name}},
			{"alias-map-type-array-unaliased-name-first", M{uri: "zz"}, L{"Frobnicate", "zz:" + tv.Name, "ext:Memo"}},
			{"own-uri-type-array-unknown-first", uri, L{"ext:Memo", tv.Name}},
		}
		if uri == asURI {
			forms[2].ctx = L{uri, "https://other.example/ns"}
			forms[4].ctx = L{"https://other.example/ns", M{uri: "zz"}}
		}
		for _, f := range forms {
			doc := jsonNorm(M{"@context": f.ctx, "type": f.typ, "id": "https://x.example/v"}).(map[string]interface{})
			res.Case("ctxform|" + v + "|" + f.name)
			rep := M{"check": "C14", "value_type": v, "doc": doc}
			log := &cbLog{}
			var cbs []interface{}
			other := "ActivityStreams/Note"
			if v == other {
				other = "ActivityStreams/Person"
			}
			cbs = append(cbs, mkCallback(log, 0, bind.Type(other), nil), mkCallback(log, 1, bind.Type(v), errA), mkCallback(log, 2, bind.Type(v), nil))
			r, err := streams.NewJSONResolver(cbs...)
			if err != nil {
				continue
			}
			rerr := r.Resolve(ctx, doc)
			if len(log.calls) != 1 || log.calls[0].idx != 1 || rerr != errA {
				res.Violate("context-spelling|JSONResolver|"+f.name, fmt.Sprintf("value %s written with @context %v and type %v: invoked %v, err %v; expected exactly the first %s callback and its error", v, f.ctx, f.typ, log.calls, rerr, v), rep)
			}
			t, terr := streams.ToType(ctx, doc)
			if t == nil || terr != nil || t.GetTypeName() != tv.Name {
				res.Violate("context-spelling|ToType|"+f.name, fmt.Sprintf("value %s written with @context %v and type %v: ToType returned %v, %v", v, f.ctx, f.typ, t, terr), rep)
			}
		}
	}

	// ---- (4) constructor arguments of wrong shape ----
	note := bind.Type("ActivityStreams/Note")
	log := &cbLog{}
	wrong := map[string]interface{}{
		"int":                         5,
		"string":                      "callback",
		"nil":                         nil,
		"func()":                      func() {},
		"func(ctx) error":             func(context.Context) error { return nil },
		"func(ctx, Type) error":       func(context.Context, vocab.Type) error { return nil },
		"func(ctx, string) error":     func(context.Context, string) error { return nil },
		"func(ctx, Note)":             reflect.MakeFunc(reflect.FuncOf([]reflect.Type{tCtx, note.Iface}, nil, false), func([]reflect.Value) []reflect.Value { return nil }).Interface(),
		"func(Note) error":            reflect.MakeFunc(reflect.FuncOf([]reflect.Type{note.Iface}, []reflect.Type{tErr}, false), func([]reflect.Value) []reflect.Value { return []reflect.Value{reflect.New(tErr).Elem()} }).Interface(),
		"func(ctx, Note, Note) error": reflect.MakeFunc(reflect.FuncOf([]reflect.Type{tCtx, note.Iface, note.Iface}, []reflect.Type{tErr}, false), func([]reflect.Value) []reflect.Value { return []reflect.Value{reflect.New(tErr).Elem()} }).Interface(),
	}
	good := mkCallback(log, 0, note, nil)
	goodPred := mkPredicate(log, note, true, nil)
	for name, w := range wrong {
		res.Case("ctor|" + name)
		if _, err := streams.NewJSONResolver(w); err == nil {
			res.Violate("constructor-accepts|JSONResolver|"+name, "NewJSONResolver accepts "+name, M{"check": "C14", "shape": name})
		}
		if _, err := streams.NewTypeResolver(good, w); err == nil {
			res.Violate("constructor-accepts|TypeResolver|"+name, "NewTypeResolver accepts "+name, M{"check": "C14", "shape": name})
		}
		dlg, _ := streams.NewTypeResolver(good)
		if _, err := streams.NewTypePredicatedResolver(dlg, w); err == nil {
			res.Violate("constructor-accepts|TypePredicatedResolver|"+name, "NewTypePredicatedResolver accepts "+name, M{"check": "C14", "shape": name})
		}
	}
	res.Case("ctor|predicate-shape-to-plain")
	if _, err := streams.NewJSONResolver(goodPred); err == nil {
		res.Violate("constructor-accepts|JSONResolver|predicate-shaped", "NewJSONResolver accepts a predicate-shaped function", M{"check": "C14"})
	}
	if _, err := streams.NewTypeResolver(goodPred); err == nil {
		res.Violate("constructor-accepts|TypeResolver|predicate-shaped", "NewTypeResolver accepts a predicate-shaped function", M{"check": "C14"})
	}
	dlg, _ := streams.NewTypeResolver(good)
	if _, err := streams.NewTypePredicatedResolver(dlg, good); err == nil {
		res.Violate("constructor-accepts|TypePredicatedResolver|callback-shaped", "NewTypePredicatedResolver accepts a plain callback as predicate", M{"check": "C14"})
	}

	res.Extra["types"] = len(keys)
	res.Rule = fmt.Sprintf("(1) all %d x %d (value type, callback type) pairs for JSONResolver, TypeResolver and TypePredicatedResolver (predicate outcomes (true,nil),(false,nil),(false,err),(true,err); and a passing own-type predicate in front of a delegate that has no callback for the type); (1c) one JSONResolver / TypeResolver value reused for a sequence of 7 values of different types; (2) for every value type all callback lists of length 0..%d over {own, own returning an error, own returning ErrNoCallbackMatch, a parent, a child, a sibling, a similarly named foreign type, a foreign type}, and registration lists of 5, 8, 16, 17 and 33 callbacks for other types with the own-type callbacks last / in the middle / absent; (3) all 'type' arrays of length 1..4 over {Note, Person, Emoji, an unknown name, an unknown prefixed name} x 6 callback sets (callbacks returning nil or one of the library's own unmatched sentinels, which must come back unchanged with nothing further invoked), with ToType as cross-check; (3a) 12 'type' members that name no type (empty array, arrays of non-strings, number, null, object, boolean, empty string, wrong case): nothing invoked, unmatched error; (3b) every type written under 12 @context / type spellings (own vocabulary URI, the same with the other of http / https, in a list, aliased {URI: alias} alone / in a list / after another alias map / with a type array, also one whose other entries - before, after, around it - name no known type) through JSONResolver and ToType; (4) 13 wrong constructor shapes x 3 constructors; callbacks are manufactured with reflect.MakeFunc from the ontology-derived binding table; oracle: exactly the first own-type callback is invoked and its error returned by identity, else nothing is invoked and IsUnmatchedErr holds", len(keys), len(keys), maxLen)
	res.Assumptions = []string{"for a multi-valued 'type' the value's own type is the first entry that names a known type (ToType is required to agree)"}
	return res.Finish()
}
