package schecks

import (
	"fmt"
	"net/url"
	"reflect"
	"sort"
	"strings"
	"sync"
	"time"

	"github.com/go-fed/activity/streams"
	"github.com/go-fed/activity/streams/vocab"

	"verif/bind"
	"verif/report"
)

// val is one value of the alphabet: how to pass it, and what an element holding it looks like.
type val struct {
	kind  string        // method suffix, e.g. "IRI", "XMLSchemaString", "ActivityStreamsNote"
	arg   reflect.Value // argument for Append<kind>/Set<kind>/...
	label string
	sig   string // signature of a singleton element holding this value (kinds + serialised form)
}

var (
	tURL  = reflect.TypeOf((*url.URL)(nil))
	tTime = reflect.TypeOf(time.Time{})
	tDur  = reflect.TypeOf(time.Duration(0))
	tLang = reflect.TypeOf(map[string]string(nil))
)

// argFor manufactures an argument of the parameter type.
func argFor(pt reflect.Type, variant int) (reflect.Value, bool) {
	switch {
	case pt == tURL:
		return reflect.ValueOf(mustURL(fmt.Sprintf("https://x.example/u%d", variant))), true
	case pt == tTime:
		return reflect.ValueOf(time.Date(2020, 1, 2, 3, 4, 5+variant, 0, time.UTC)), true
	case pt == tDur:
		return reflect.ValueOf(time.Duration(5+variant) * time.Second), true
	case pt == tLang:
		return reflect.ValueOf(map[string]string{"en": fmt.Sprintf("v%d", variant)}), true
	case pt.Kind() == reflect.String:
		return reflect.ValueOf(fmt.Sprintf("s%d", variant)).Convert(pt), true
	case pt.Kind() == reflect.Bool:
		return reflect.ValueOf(variant%2 == 0), true
	case pt.Kind() == reflect.Float64:
		return reflect.ValueOf(1.5 + float64(variant)), true
	case pt.Kind() == reflect.Int:
		return reflect.ValueOf(3 + variant), true
	case pt.Kind() == reflect.Interface:
		for _, tb := range bind.Types {
			if tb.Iface == pt {
				v := tb.New()
				id := streams.NewJSONLDIdProperty()
				id.Set(mustURL(fmt.Sprintf("https://x.example/obj%d", variant)))
				v.SetJSONLDId(id)
				return reflect.ValueOf(v), true
			}
		}
	}
	return reflect.Value{}, false
}

// kindsOf lists the value kinds a property offers through methods with the given prefix.
func kindsOf(prop interface{}, prefix string) map[string]reflect.Type {
	out := map[string]reflect.Type{}
	v := reflect.ValueOf(prop)
	t := v.Type()
	for i := 0; i < t.NumMethod(); i++ {
		n := t.Method(i).Name
		if !strings.HasPrefix(n, prefix) || n == prefix+"Type" {
			continue
		}
		mt := v.Method(i).Type()
		if prefix == "Append" && mt.NumIn() == 1 {
			out[n[len(prefix):]] = mt.In(0)
		}
		if prefix == "Set" && mt.NumIn() == 1 {
			out[n[len(prefix):]] = mt.In(0)
		}
	}
	return out
}

// elemSig observes one element: the Is* predicates that hold and its serialised form.
func elemSig(elem interface{}, ser interface{}) string {
	return kindsSig(elem) + "=" + short(ser)
}

// kindsSig lists the kinds an element reports. For elements of the IRI-only alphabet the cheap
// form (IsIRI + KindIndex) is used when cheapKinds is set; the mixed alphabet always asks every Is*.
func kindsSig(elem interface{}) string {
	return strings.Join(trueKinds(elem), "+")
}

type seqOp struct {
	name string // Append Prepend Insert Set Remove Swap
	i, j int
	v    int // index into the value alphabet
}

func (o seqOp) String() string {
	switch o.name {
	case "Append", "Prepend":
		return fmt.Sprintf("%s(v%d)", o.name, o.v)
	case "Insert", "Set":
		return fmt.Sprintf("%s(%d,v%d)", o.name, o.i, o.v)
	case "Remove":
		return fmt.Sprintf("Remove(%d)", o.i)
	}
	return fmt.Sprintf("Swap(%d,%d)", o.i, o.j)
}

// apply performs op on the real container and on the reference slice.
func applyOp(prop interface{}, ref []int, vals []val, op seqOp) []int {
	call := func(name string, args ...reflect.Value) { method(prop, name).Call(args) }
	switch op.name {
	case "Append":
		call("Append"+vals[op.v].kind, vals[op.v].arg)
		ref = append(ref, op.v)
	case "Prepend":
		call("Prepend"+vals[op.v].kind, vals[op.v].arg)
		ref = append([]int{op.v}, ref...)
	case "Insert":
		call("Insert"+vals[op.v].kind, reflect.ValueOf(op.i), vals[op.v].arg)
		ref = append(ref, 0)
		copy(ref[op.i+1:], ref[op.i:])
		ref[op.i] = op.v
	case "Set":
		name := "Set" + vals[op.v].kind
		if !method(prop, name).IsValid() {
			name = "Set" // a single-kind property names its setter Set(idx, v)
		}
		call(name, reflect.ValueOf(op.i), vals[op.v].arg)
		ref = append([]int(nil), ref...)
		ref[op.i] = op.v
	case "Remove":
		call("Remove", reflect.ValueOf(op.i))
		ref = append(append([]int(nil), ref[:op.i]...), ref[op.i+1:]...)
	case "Swap":
		call("Swap", reflect.ValueOf(op.i), reflect.ValueOf(op.j))
		ref = append([]int(nil), ref...)
		ref[op.i], ref[op.j] = ref[op.j], ref[op.i]
	}
	return ref
}

func opsFor(n, nvals int) []seqOp {
	var ops []seqOp
	for v := 0; v < nvals; v++ {
		ops = append(ops, seqOp{name: "Append", v: v}, seqOp{name: "Prepend", v: v})
		for i := 0; i <= n; i++ {
			ops = append(ops, seqOp{name: "Insert", i: i, v: v})
		}
		for i := 0; i < n; i++ {
			ops = append(ops, seqOp{name: "Set", i: i, v: v})
		}
	}
	for i := 0; i < n; i++ {
		ops = append(ops, seqOp{name: "Remove", i: i})
		for j := 0; j < n; j++ {
			ops = append(ops, seqOp{name: "Swap", i: i, j: j})
		}
	}
	return ops
}

// observe compares the container with the reference; returns "" or a discrepancy description
// together with the aspect that disagrees.
func observeSeq(prop interface{}, ref []int, vals []val) (aspect, detail string) {
	n := int(method(prop, "Len").Call(nil)[0].Int())
	if n != len(ref) {
		return "Len", fmt.Sprintf("Len()=%d, list has %d", n, len(ref))
	}
	if method(prop, "Empty").Call(nil)[0].Bool() != (len(ref) == 0) {
		return "Empty", "Empty() disagrees with Len()"
	}
	want := make([]string, len(ref))
	for i, r := range ref {
		want[i] = vals[r].sig
	}
	ser, err := callSerialize(prop)
	if err != nil {
		return "Serialize", "Serialize error: " + err.Error()
	}
	var serElems []interface{}
	if l, ok := ser.([]interface{}); ok && len(ref) != 1 {
		serElems = l
	} else {
		serElems = []interface{}{ser}
	}
	if len(ref) == 0 {
		serElems = nil
	}
	if len(ref) > 0 && len(serElems) != len(ref) {
		return "Serialize", fmt.Sprintf("serialised form has %d elements, list has %d", len(serElems), len(ref))
	}
	at := method(prop, "At")
	for i := range ref {
		e := at.Call([]reflect.Value{reflect.ValueOf(i)})[0].Interface()
		if got := elemSig(e, serElems[i]); got != want[i] {
			return "At", fmt.Sprintf("element %d is %s, list has %s", i, got, want[i])
		}
	}
	// the JSON name the property serialises under: '<name>Map' exactly when it holds a single language map
	if nm := method(prop, "Name"); nm.IsValid() {
		got := nm.Call(nil)[0].String()
		wantMap := len(ref) == 1 && vals[ref[0]].kind == "RDFLangString"
		if strings.HasSuffix(got, "Map") != wantMap {
			return "Name", fmt.Sprintf("Name() = %q with %d element(s) of kinds %v", got, len(ref), want)
		}
	}
	// forward walk
	var fw []string
	cur := method(prop, "Begin").Call(nil)[0]
	steps := 0
	for !isNilValue(cur) && steps <= len(ref)+2 {
		fw = append(fw, strings.Join(trueKinds(cur.Interface()), "+")+"@"+identity(cur.Interface()))
		cur = cur.MethodByName("Next").Call(nil)[0]
		steps++
	}
	var wantWalk []string
	for i := range ref {
		e := at.Call([]reflect.Value{reflect.ValueOf(i)})[0].Interface()
		wantWalk = append(wantWalk, strings.Join(trueKinds(e), "+")+"@"+identity(e))
	}
	if strings.Join(fw, ",") != strings.Join(wantWalk, ",") {
		return "forward-iteration", fmt.Sprintf("Begin/Next visits %v, list order is %v", fw, wantWalk)
	}
	// backward walk
	if len(ref) > 0 {
		var bw []string
		cur := at.Call([]reflect.Value{reflect.ValueOf(len(ref) - 1)})[0]
		steps := 0
		for !isNilValue(cur) && steps <= len(ref)+2 {
			bw = append(bw, strings.Join(trueKinds(cur.Interface()), "+")+"@"+identity(cur.Interface()))
			cur = cur.MethodByName("Prev").Call(nil)[0]
			steps++
		}
		var wantBack []string
		for i := len(wantWalk) - 1; i >= 0; i-- {
			wantBack = append(wantBack, wantWalk[i])
		}
		if strings.Join(bw, ",") != strings.Join(wantBack, ",") {
			return "backward-iteration", fmt.Sprintf("Prev from the last element visits %v, reversed list order is %v", bw, wantBack)
		}
	}
	return "", ""
}

// identity distinguishes element objects (pointer identity).
func identity(e interface{}) string {
	v := reflect.ValueOf(e)
	if v.Kind() == reflect.Ptr {
		return fmt.Sprintf("%x", v.Pointer()&0xffffff)
	}
	return "?"
}

func callSerialize(prop interface{}) (interface{}, error) {
	out := method(prop, "Serialize").Call(nil)
	var err error
	if !out[1].IsNil() {
		err = out[1].Interface().(error)
	}
	return out[0].Interface(), err
}

// alphabet builds the value alphabet of a non-functional property.
func seqAlphabet(newProp func() interface{}, mixed bool) []val {
	p := newProp()
	kinds := kindsOf(p, "Append")
	var names []string
	for k := range kinds {
		names = append(names, k)
	}
	sort.Strings(names)
	mk := func(kind string, variant int) (val, bool) {
		arg, ok := argFor(kinds[kind], variant)
		if !ok {
			return val{}, false
		}
		s := newProp()
		method(s, "Append"+kind).Call([]reflect.Value{arg})
		ser, _ := callSerialize(s)
		e := method(s, "At").Call([]reflect.Value{reflect.ValueOf(0)})[0].Interface()
		return val{kind: kind, arg: arg, label: fmt.Sprintf("%s#%d", kind, variant), sig: elemSig(e, ser)}, true
	}
	var vals []val
	if _, ok := kinds["IRI"]; ok {
		for v := 1; v <= 2; v++ {
			if x, ok := mk("IRI", v); ok {
				vals = append(vals, x)
			}
		}
	}
	if !mixed {
		return vals
	}
	vals = vals[:1]
	lit, typ := "", ""
	for _, n := range names {
		if n == "IRI" {
			continue
		}
		if kinds[n].Kind() == reflect.Interface {
			if typ == "" {
				typ = n
			}
		} else if lit == "" {
			lit = n
		}
	}
	for _, k := range []string{lit, typ} {
		if k != "" {
			if x, ok := mk(k, 1); ok {
				vals = append(vals, x)
			}
		}
	}
	return vals
}

type c18out struct {
	nodes       int
	prop        string
	states      map[string]struct{}
	transitions int
	viols       []report.Violation
	sample      interface{}
}

func exploreSeq(key string, newProp func() interface{}, depth int, mixed bool) *c18out {
	out := &c18out{prop: key, states: map[string]struct{}{}}
	vals := seqAlphabet(newProp, mixed)
	if len(vals) == 0 {
		return out
	}
	limit := depth
	var rec func(prefix []seqOp, ref []int)
	rec = func(prefix []seqOp, ref []int) {
		// rebuild the container by replaying the prefix (live objects do not copy)
		p := newProp()
		r := []int{}
		for _, op := range prefix {
			r = applyOp(p, r, vals, op)
		}
		out.states[fmt.Sprint(r)] = struct{}{}
		out.nodes++
		if aspect, detail := observeSeq(p, r, vals); aspect != "" {
			names := make([]string, len(prefix))
			hasSwap := false
			for i, op := range prefix {
				names[i] = op.String()
				if op.name == "Swap" && op.i != op.j {
					hasSwap = true
				}
			}
			k := "seq|" + aspect
			if hasSwap && (aspect == "forward-iteration" || aspect == "backward-iteration") {
				k = "seq|iteration-after-Swap"
			}
			if mixed {
				k += "|mixed-kinds"
			}
			out.viols = append(out.viols, report.Violation{Key: k, What: fmt.Sprintf("%s after %v: %s", key, names, detail),
				Replay: M{"check": "C18", "property": key, "ops": names, "mixed": mixed}})
			return // the subtree below a broken state adds nothing
		}
		if len(prefix) == limit {
			if out.sample == nil && len(prefix) >= 3 {
				names := make([]string, len(prefix))
				for i, op := range prefix {
					names[i] = op.String()
				}
				out.sample = M{"property": key, "ops": names, "final_list": r}
			}
			return
		}
		for _, op := range opsFor(len(r), len(vals)) {
			out.transitions++
			rec(append(append([]seqOp(nil), prefix...), op), r)
		}
	}
	rec(nil, nil)
	if !mixed {
		// longer containers: from a list of n appended values (n around the powers of two where a backing
		// array is exactly full, and beyond) every single operation at every index (thorough: every pair of
		// operations for n <= 9)
		for _, n := range []int{5, 6, 7, 8, 9, 16, 17, 33} {
			var prefix []seqOp
			var ref []int
			for i := 0; i < n; i++ {
				prefix = append(prefix, seqOp{name: "Append", v: i % len(vals)})
				ref = append(ref, i%len(vals))
			}
			limit = n + 1
			if longPairs && n <= 9 {
				limit = n + 2
			}
			rec(prefix, ref)
		}
		limit = depth
	}
	return out
}

// longPairs: thorough tier of the long-container family.
var longPairs bool

// ---- functional properties ----

func exploreFunc(key string, newProp func() interface{}, depth int) *c18out {
	out := &c18out{prop: key, states: map[string]struct{}{}}
	p := newProp()
	kinds := kindsOf(p, "Set")
	var names []string
	for k := range kinds {
		if k == "" {
			continue
		}
		names = append(names, k)
	}
	// single-kind functional properties use Set(v) / Get()
	if m := method(p, "Set"); m.IsValid() && m.Type().NumIn() == 1 {
		kinds[""] = m.Type().In(0)
		names = append(names, "")
	}
	sort.Strings(names)
	if len(names) > 4 {
		// IRI + up to 3 others (first literal kinds and first type kind)
		keep := []string{}
		if _, ok := kinds["IRI"]; ok {
			keep = append(keep, "IRI")
		}
		lits, typs := []string{}, []string{}
		for _, n := range names {
			if n == "IRI" {
				continue
			}
			if kinds[n].Kind() == reflect.Interface {
				typs = append(typs, n)
			} else {
				lits = append(lits, n)
			}
		}
		for _, n := range lits {
			if len(keep) < 3 {
				keep = append(keep, n)
			}
		}
		for _, n := range typs {
			if len(keep) < 4 {
				keep = append(keep, n)
			}
		}
		names = keep
	}
	type fval struct {
		kind string
		arg  reflect.Value
		sig  string
	}
	observe := func(q interface{}) string {
		ser, err := callSerialize(q)
		s := strings.Join(trueKinds(q), "+") + "=" + short(ser)
		if err != nil {
			s += " err=" + err.Error()
		}
		s += fmt.Sprintf(" HasAny=%v", method(q, "HasAny").Call(nil)[0].Bool())
		return s
	}
	var vals []fval
	for _, k := range names {
		for variant := 1; variant <= 2; variant++ {
			arg, ok := argFor(kinds[k], variant)
			if !ok {
				continue
			}
			s := newProp()
			method(s, "Set"+k).Call([]reflect.Value{arg})
			vals = append(vals, fval{k, arg, observe(s)})
			if len(names) > 2 {
				break // one variant per kind when there are several kinds
			}
		}
	}
	emptySig := observe(newProp())
	nops := len(vals) + 1 // + Clear
	var rec func(prefix []int)
	rec = func(prefix []int) {
		q := newProp()
		want := emptySig
		var names []string
		for _, o := range prefix {
			if o == len(vals) {
				method(q, "Clear").Call(nil)
				want = emptySig
				names = append(names, "Clear")
			} else {
				method(q, "Set"+vals[o].kind).Call([]reflect.Value{vals[o].arg})
				want = vals[o].sig
				names = append(names, "Set"+vals[o].kind)
			}
		}
		out.states[fmt.Sprint(prefix)] = struct{}{}
		out.nodes++
		if got := observe(q); got != want {
			out.viols = append(out.viols, report.Violation{Key: "slot|" + lastTwo(names), What: fmt.Sprintf("%s after %v reports %s, a single slot would report %s", key, names, got, want),
				Replay: M{"check": "C18", "property": key, "ops": names}})
			return
		}
		if len(prefix) == depth {
			return
		}
		for o := 0; o < nops; o++ {
			out.transitions++
			rec(append(append([]int(nil), prefix...), o))
		}
	}
	rec(nil)
	return out
}

// ---- every kind, short sequences (including the generic ...Type entry points) ----

// exploreSeqAllKinds: from a one-element container holding each kind k1 (stored through its own
// Append<kind> and, for type kinds, through AppendType), every second operation over EVERY kind k2:
// Append / Prepend / Insert(0) / Insert(1) / Set(0) with the kind-specific method and, for type
// kinds, with AppendType / PrependType / InsertType / SetType; and Remove(0).
func exploreSeqAllKinds(key string, newProp func() interface{}, stride int) *c18out {
	out := &c18out{prop: key, states: map[string]struct{}{}}
	p := newProp()
	kinds := kindsOf(p, "Append")
	var names []string
	for k := range kinds {
		names = append(names, k)
	}
	sort.Strings(names)
	if len(names) < 2 {
		return out
	}
	var vals []val
	for _, k := range names {
		arg, ok := argFor(kinds[k], 1)
		if !ok {
			continue
		}
		s := newProp()
		method(s, "Append"+k).Call([]reflect.Value{arg})
		ser, _ := callSerialize(s)
		e := method(s, "At").Call([]reflect.Value{reflect.ValueOf(0)})[0].Interface()
		vals = append(vals, val{kind: k, arg: arg, label: k, sig: elemSig(e, ser)})
	}
	type op2 struct {
		name    string // Append Prepend Insert0 Insert1 Set0 Remove0
		generic bool
		v       int
	}
	isType := func(v val) bool { return kinds[v.kind].Kind() == reflect.Interface }
	apply := func(q interface{}, ref []int, o op2) ([]int, bool) {
		v := vals[o.v]
		suffix := v.kind
		if o.generic {
			suffix = "Type"
		}
		m := func(n string) reflect.Value { return method(q, n) }
		switch o.name {
		case "Append":
			if !m("Append" + suffix).IsValid() {
				return ref, false
			}
			m("Append" + suffix).Call([]reflect.Value{v.arg})
			return append(append([]int(nil), ref...), o.v), true
		case "Prepend":
			if !m("Prepend" + suffix).IsValid() {
				return ref, false
			}
			m("Prepend" + suffix).Call([]reflect.Value{v.arg})
			return append([]int{o.v}, ref...), true
		case "Insert0", "Insert1":
			i := int(o.name[6] - '0')
			if !m("Insert"+suffix).IsValid() || i > len(ref) {
				return ref, false
			}
			m("Insert" + suffix).Call([]reflect.Value{reflect.ValueOf(i), v.arg})
			r := append(append(append([]int(nil), ref[:i]...), o.v), ref[i:]...)
			return r, true
		case "Set0":
			n := "Set" + suffix
			if !m(n).IsValid() && !o.generic {
				n = "Set"
			}
			if !m(n).IsValid() || len(ref) == 0 {
				return ref, false
			}
			m(n).Call([]reflect.Value{reflect.ValueOf(0), v.arg})
			r := append([]int(nil), ref...)
			r[0] = o.v
			return r, true
		case "Remove0":
			if len(ref) == 0 {
				return ref, false
			}
			m("Remove").Call([]reflect.Value{reflect.ValueOf(0)})
			return append([]int(nil), ref[1:]...), true
		}
		return ref, false
	}
	check := func(q interface{}, ref []int, ops []op2) bool {
		out.nodes++
		out.states[fmt.Sprint(ref)] = struct{}{}
		if aspect, detail := observeSeq(q, ref, vals); aspect != "" {
			var ns []string
			gen := false
			for _, o := range ops {
				n := o.name + "(" + vals[o.v].kind + ")"
				if o.generic {
					n = o.name + "Type(" + vals[o.v].kind + ")"
					gen = true
				}
				ns = append(ns, n)
			}
			k := "seq|" + aspect + "|all-kinds"
			if gen {
				k += "|generic-Type-entry-point"
			}
			out.viols = append(out.viols, report.Violation{Key: k, What: fmt.Sprintf("%s after %v: %s", key, ns, detail), Replay: M{"check": "C18", "property": key, "ops": ns}})
			return false
		}
		return true
	}
	for i1, v1 := range vals {
		for _, g1 := range []bool{false, true} {
			if g1 && !isType(v1) {
				continue
			}
			first := op2{"Append", g1, i1}
			for i2, v2 := range vals {
				if stride > 1 && (i1+i2)%stride != 0 && i1 != i2 && i2 != len(vals)-1 && i2 != 0 {
					continue
				}
				for _, g2 := range []bool{false, true} {
					if g2 && !isType(v2) {
						continue
					}
					for _, n2 := range []string{"Append", "Prepend", "Insert0", "Insert1", "Set0"} {
						q := newProp()
						ref, ok := apply(q, nil, first)
						if !ok {
							continue
						}
						ref, ok = apply(q, ref, op2{n2, g2, i2})
						if !ok {
							continue
						}
						out.transitions += 2
						if check(q, ref, []op2{first, {n2, g2, i2}}) && n2 == "Prepend" {
							// one step further from the prepended state
							ref3, ok := apply(q, ref, op2{"Remove0", false, 0})
							if ok {
								out.transitions++
								check(q, ref3, []op2{first, {n2, g2, i2}, {"Remove0", false, 0}})
							}
						}
					}
				}
			}
		}
	}
	return out
}

// exploreFuncAllKinds: Set k1 (also through SetType for type kinds), then Set k2 / SetType k2 / Clear,
// for EVERY pair of kinds of a functional property.
func exploreFuncAllKinds(key string, newProp func() interface{}, stride int) *c18out {
	out := &c18out{prop: key, states: map[string]struct{}{}}
	p := newProp()
	kinds := kindsOf(p, "Set")
	delete(kinds, "")
	var names []string
	for k := range kinds {
		names = append(names, k)
	}
	sort.Strings(names)
	if len(names) < 2 {
		return out
	}
	observe := func(q interface{}) string {
		ser, err := callSerialize(q)
		s := strings.Join(trueKinds(q), "+") + "=" + short(ser)
		if err != nil {
			s += " err=" + err.Error()
		}
		s += fmt.Sprintf(" HasAny=%v", method(q, "HasAny").Call(nil)[0].Bool())
		return s
	}
	type fval struct {
		kind string
		arg  reflect.Value
		sig  string
		typ  bool
	}
	var vals []fval
	for _, k := range names {
		arg, ok := argFor(kinds[k], 1)
		if !ok {
			continue
		}
		s := newProp()
		method(s, "Set"+k).Call([]reflect.Value{arg})
		vals = append(vals, fval{k, arg, observe(s), kinds[k].Kind() == reflect.Interface})
	}
	emptySig := observe(newProp())
	hasSetType := method(p, "SetType").IsValid()
	set := func(q interface{}, v fval, generic bool) string {
		if generic {
			method(q, "SetType").Call([]reflect.Value{v.arg})
			return "SetType(" + v.kind + ")"
		}
		method(q, "Set"+v.kind).Call([]reflect.Value{v.arg})
		return "Set" + v.kind
	}
	judge := func(q interface{}, want string, names []string) {
		out.nodes++
		out.states[strings.Join(names, ">")] = struct{}{}
		if got := observe(q); got != want {
			out.viols = append(out.viols, report.Violation{Key: "slot|all-kinds|" + lastTwo(names), What: fmt.Sprintf("%s after %v reports %s, a single slot would report %s", key, names, got, want),
				Replay: M{"check": "C18", "property": key, "ops": names}})
		}
	}
	for i1, v1 := range vals {
		for _, g1 := range []bool{false, true} {
			if g1 && !(v1.typ && hasSetType) {
				continue
			}
			{
				q := newProp()
				n1 := set(q, v1, g1)
				judge(q, v1.sig, []string{n1})
				method(q, "Clear").Call(nil)
				out.transitions += 2
				judge(q, emptySig, []string{n1, "Clear"})
			}
			for i2, v2 := range vals {
				if stride > 1 && (i1+i2)%stride != 0 && i1 != i2 && i2 != len(vals)-1 && i2 != 0 {
					continue
				}
				for _, g2 := range []bool{false, true} {
					if g2 && !(v2.typ && hasSetType) {
						continue
					}
					q := newProp()
					n1 := set(q, v1, g1)
					n2 := set(q, v2, g2)
					out.transitions += 2
					judge(q, v2.sig, []string{n1, n2})
				}
			}
		}
	}
	return out
}

func lastTwo(names []string) string {
	cls := func(n string) string {
		switch {
		case n == "Clear":
			return "Clear"
		case n == "SetIRI":
			return "SetIRI"
		case strings.Contains(n, "XMLSchema") || strings.Contains(n, "RDF") || strings.Contains(n, "RFC") || n == "Set":
			return "Set<literal>"
		}
		return "Set<type>"
	}
	if len(names) >= 2 {
		return cls(names[len(names)-2]) + ">" + cls(names[len(names)-1])
	}
	if len(names) == 1 {
		return cls(names[0])
	}
	return "initial"
}

// C18 — property containers behave as plain sequences / single slots.
func C18(tier string) int {
	res := report.NewResult("C18", tier, "model_checking")
	o := LoadOnto()
	depthIRI, depthMixed, depthFunc := 4, 3, 4
	if res.Thorough() {
		depthIRI, depthMixed = 5, 4
	}
	type job struct {
		key   string
		newP  func() interface{}
		fn    bool
		mixed bool
		all   bool // every kind, short sequences
		extra bool // c18b.go: element / SetLanguage setters, decoded start states
	}
	stride := 3
	if res.Thorough() {
		stride = 1
		longPairs = true
	}
	var jobs []job
	for _, pk := range o.PropKeys() {
		b := bind.Prop(pk)
		if b == nil {
			res.Violate("missing-binding|"+pk, "no binding for property "+pk, M{"check": "C18", "property": pk})
			continue
		}
		if o.Props[pk].Functional {
			jobs = append(jobs, job{pk, b.New, true, false, false, false}, job{pk, b.New, true, false, true, false}, job{pk, b.New, true, false, false, true})
		} else {
			jobs = append(jobs, job{pk, b.New, false, false, false, false}, job{pk, b.New, false, true, false, false}, job{pk, b.New, false, true, true, false}, job{pk, b.New, false, false, false, true})
		}
	}
	jobs = append(jobs, job{"JSONLD/type", func() interface{} { return streams.NewJSONLDTypeProperty() }, false, false, false, false},
		job{"JSONLD/type", func() interface{} { return streams.NewJSONLDTypeProperty() }, false, true, false, false},
		job{"JSONLD/type", func() interface{} { return streams.NewJSONLDTypeProperty() }, false, false, false, true},
		job{"JSONLD/id", func() interface{} { return streams.NewJSONLDIdProperty() }, true, false, false, false},
		job{"JSONLD/id", func() interface{} { return streams.NewJSONLDIdProperty() }, true, false, false, true})
	outs := make([]*c18out, len(jobs))
	var mu sync.Mutex
	par(len(jobs), func(i int) {
		j := jobs[i]
		var out *c18out
		func() {
			defer func() {
				if r := recover(); r != nil {
					out = &c18out{prop: j.key, states: map[string]struct{}{}}
					out.viols = append(out.viols, report.Violation{Key: "panic|" + fmt.Sprint(r), What: fmt.Sprintf("%s: container operation panicked: %v", j.key, r), Replay: M{"check": "C18", "property": j.key}})
				}
			}()
			if j.extra && j.fn {
				out = exploreFuncStarts(o, j.key, j.newP, stride)
			} else if j.extra {
				out = exploreElemSetters(o, j.key, j.newP, stride)
			} else if j.fn && j.all {
				out = exploreFuncAllKinds(j.key, j.newP, stride)
			} else if j.all {
				out = exploreSeqAllKinds(j.key, j.newP, stride)
			} else if j.fn {
				out = exploreFunc(j.key, j.newP, depthFunc)
			} else if j.mixed {
				out = exploreSeq(j.key, j.newP, depthMixed, true)
			} else {
				out = exploreSeq(j.key, j.newP, depthIRI, false)
			}
		}()
		mu.Lock()
		outs[i] = out
		mu.Unlock()
	})
	nseq, nfunc := 0, 0
	byCat := map[string]int{}
	for i, out := range outs {
		byCat[fmt.Sprintf("fn=%v mixed=%v all=%v extra=%v", jobs[i].fn, jobs[i].mixed, jobs[i].all, jobs[i].extra)] += out.nodes
		res.States += out.nodes // every operation sequence is its own state (hidden index fields forbid merging)
		res.Transitions += out.transitions
		res.Traces += out.nodes
		res.Evaluations += out.nodes
		for s := range out.states {
			_ = s
		}
		res.Nontrivial[fmt.Sprintf("%s|%v|%v|%v|%v", out.prop, jobs[i].fn, jobs[i].mixed, jobs[i].all, jobs[i].extra)] = struct{}{}
		for _, v := range out.viols {
			res.Violate(v.Key, v.What, v.Replay)
		}
		if out.sample != nil {
			res.Sample(out.sample)
		}
		if jobs[i].all || jobs[i].extra {
			continue
		}
		if jobs[i].fn {
			nfunc++
		} else if !jobs[i].mixed {
			nseq++
		}
	}
	distinctRef := 0
	for _, out := range outs {
		distinctRef += len(out.states)
	}
	res.Extra["distinct_reference_states"] = distinctRef
	res.Extra["sequences_by_exploration"] = byCat
	res.Extra["non_functional_properties"] = nseq
	res.Extra["functional_properties"] = nfunc
	res.Extra["depth_completed"] = M{"iri_alphabet": depthIRI, "mixed_alphabet": depthMixed, "functional": depthFunc}
	res.Rule = fmt.Sprintf("every non-functional property (%d): ALL operation sequences from the empty container up to depth %d over {Append,Prepend,Insert(i),Set(i),Remove(i),Swap(i,j)} with every valid index and 2 IRI values, and to depth %d with a mixed alphabet {IRI, first literal kind, first type kind}; after every step Len/Empty/At(i) kind+value/forward walk/backward walk/Serialize are compared with a plain Go slice driven by the same operations; from lists of 5, 6, 7, 8, 9, 16, 17 and 33 appended values every single operation at every index (thorough: every pair for lists up to 9); every functional property (%d): all Set*/SetIRI/Clear sequences up to length %d over IRI + up to 3 kinds; additionally EVERY kind of every property in short sequences (non-functional: a one-element container of kind k1 followed by Append/Prepend/Insert(0|1)/Set(0) of kind k2, Remove after Prepend; functional: Set k1 then Set k2 / Clear), each also through the generic AppendType/PrependType/InsertType/SetType entry points, for all pairs (k1,k2) (quick: a third of the pairs, always including k1=k2 and the first and last kind); further, the setters not named after a kind and start states other than a fresh container: every functional property from {fresh, decoded from the serialised form of each kind, decoded from each of 6 junk values the slot keeps as an opaque unknown} through every sequence of length 1..2 over {every Set<Kind>, SetIRI, SetLanguage, Clear}; every non-functional property as a list of 2-3 elements (built by Append, or decoded from a JSON array, also with a junk element kept as unknown in each position) with every in-place setter of every element reached through At(i) (Set<Kind> of every kind, SetIRI, SetType, SetLanguage), alone or followed by Remove / Swap / a second in-place set; states = distinct (property, reference state) pairs, transitions = operations applied; every state is rebuilt by replaying its operation list on a fresh real object", nseq, depthIRI, depthMixed, nfunc, depthFunc)
	res.Assumptions = []string{"an element's expected observation is the one a fresh single-element container shows for the same (kind, value): the check judges the container logic, not per-kind serialisation (C01/C12)"}
	return res.Finish()
}

var _ vocab.Type
