package schecks

import (
	"fmt"
	"math"
	"reflect"
	"regexp"
	"sort"
	"strings"
	"time"

	"github.com/go-fed/activity/streams/vocab"

	"verif/onto"
	"verif/report"
)

// ---- lexical acceptance, written from the kinds' definitions (not from the generated code) ----

const (
	no    = 0
	yes   = 1
	maybe = 2 // the definition leaves it open, or the shipped decoder is known to be laxer than the definition
)

var (
	reDuration = regexp.MustCompile(`^-?P(\d+Y)?(\d+M)?(\d+D)?(T(\d+H)?(\d+M)?(\d+(\.\d+)?S)?)?$`)
	reMime     = regexp.MustCompile(`^[a-zA-Z0-9!#$&^_.+-]+/[a-zA-Z0-9!#$&^_.+-]+(\s*;.*)?$`)
	reLang     = regexp.MustCompile(`^[a-zA-Z]{1,8}(-[a-zA-Z0-9]{1,8})*$`)
	reRel      = regexp.MustCompile(`^[^\s",;<>]+$`)
)

func isAbsURI(s string) bool {
	u, err := mustParse(s)
	return err == nil && u.Scheme != ""
}

// accepts says whether a JSON value is in the lexical space of a literal kind.
func accepts(kind string, v interface{}) int {
	s, isStr := v.(string)
	f, isNum := v.(float64)
	switch kind {
	case "xsd:string":
		if isStr {
			return yes
		}
	case "xsd:anyURI":
		if isStr && isAbsURI(s) {
			return yes
		}
	case "xsd:dateTime":
		if isStr {
			if _, err := time.Parse(time.RFC3339, s); err == nil {
				return yes
			}
			if _, err := time.Parse("2006-01-02T15:04Z07:00", s); err == nil {
				return maybe // ActivityStreams allows omitting the seconds
			}
		}
	case "xsd:boolean":
		if _, ok := v.(bool); ok {
			return yes
		}
		if isNum && (f == 0 || f == 1) {
			return maybe // xsd:boolean's lexical space has "0"/"1"; JSON numbers are a grey area
		}
	case "xsd:float":
		if isNum {
			return yes
		}
	case "xsd:nonNegativeInteger":
		if isNum && f >= 0 && f == math.Trunc(f) {
			return yes
		}
	case "xsd:duration":
		if isStr && reDuration.MatchString(s) && s != "P" && s != "-P" && !strings.HasSuffix(s, "T") {
			return yes
		}
		if isStr && strings.Contains(s, "P") {
			return maybe
		}
	case "rdf:langString":
		if m, ok := v.(map[string]interface{}); ok {
			for _, e := range m {
				if _, ok := e.(string); !ok {
					return maybe
				}
			}
			return yes
		}
	case "rfc:bcp47":
		if isStr && reLang.MatchString(s) {
			return yes
		} else if isStr {
			return maybe
		}
	case "rfc:rfc2045":
		if isStr && reMime.MatchString(s) {
			return yes
		} else if isStr {
			return maybe
		}
	case "rfc:rfc5988":
		if isStr && reRel.MatchString(s) {
			return yes
		} else if isStr {
			return maybe
		}
	}
	return no
}

// litSamples are distinctive JSON values per literal kind.
var litSamples = []struct {
	kind string
	v    interface{}
}{
	{"xsd:string", "hello world, plain text"},
	{"xsd:anyURI", "https://x.example/some/uri?q=1"},
	{"xsd:dateTime", "2020-02-29T23:59:58Z"},
	{"xsd:boolean", true},
	{"xsd:float", 1.5},
	{"xsd:nonNegativeInteger", float64(3)},
	{"xsd:duration", "PT5S"},
	{"rdf:langString", M{"en": "hi", "fr": "salut"}},
	{"rfc:bcp47", "en-US"},
	{"rfc:rfc2045", "text/html"},
	{"rfc:rfc5988", "next"},
	{"negative-number", float64(-2)},
	{"empty-object", M{}},
}

// hostFor picks a type that has the property.
func hostFor(o *onto.Onto, p string) string {
	for _, t := range o.TypeKeys() {
		if !o.Types[t].Typeless && o.HasProp(t, p) {
			return t
		}
	}
	for _, t := range o.TypeKeys() {
		if o.HasProp(t, p) {
			return t
		}
	}
	return ""
}

func baseDoc(o *onto.Onto, typeKey string) M {
	d := M{"@context": allContexts(o)}
	t := o.Types[typeKey]
	if !t.Typeless {
		d["type"] = t.Name
	}
	return d
}

// decodeAs decodes a document meant to be of type typeKey. A typeless type has no 'type' member
// and can only occur embedded: it is wrapped in the first property whose range names it and
// extracted again through that property's typed accessor.
func decodeAs(o *onto.Onto, typeKey string, doc M) (vocab.Type, error, interface{}) {
	t := o.Types[typeKey]
	if !t.Typeless {
		return decode(doc)
	}
	for _, pk := range o.PropKeys() {
		p := o.Props[pk]
		for _, r := range p.RangeTypes {
			if r != typeKey {
				continue
			}
			host := hostFor(o, pk)
			inner := M{}
			for k, v := range doc {
				if k != "@context" {
					inner[k] = v
				}
			}
			outer := baseDoc(o, host)
			outer[p.Name] = inner
			ht, err, pan := decode(outer)
			if ht == nil || err != nil || pan != nil {
				return nil, err, pan
			}
			prop, _ := getProp(ht, p.GoProp())
			if prop == nil {
				return nil, fmt.Errorf("typeless %s not decoded under %s", typeKey, pk), nil
			}
			elems, _ := elements(prop)
			if len(elems) != 1 {
				return nil, fmt.Errorf("typeless %s: %d elements", typeKey, len(elems)), nil
			}
			m := method(elems[0], "GetType")
			if !m.IsValid() {
				return nil, fmt.Errorf("no accessor GetType on %T", elems[0]), nil
			}
			out := m.Call(nil)[0]
			if isNilValue(out) {
				return nil, fmt.Errorf("typeless %s not recognised under %s", typeKey, pk), nil
			}
			return out.Interface().(vocab.Type), nil, nil
		}
	}
	return nil, fmt.Errorf("typeless %s is in no property's range", typeKey), nil
}

// embedded builds an embedded object of a type kind.
func embedded(o *onto.Onto, typeKey string, id string) M {
	t := o.Types[typeKey]
	if t.Typeless {
		return M{"id": id, "publicKeyPem": "PEM"}
	}
	return M{"type": t.Name, "id": id}
}

// kindName maps an ontology kind to the suffix of the Is<...>() predicate.
func kindGoName(o *onto.Onto, kind string) string {
	if t, ok := o.Types[kind]; ok {
		return t.GoType()
	}
	return onto.LitGoName(kind)
}

// sampleFor returns a valid value for the property (literal preferred, else IRI).
func sampleFor(p *onto.Prop) interface{} {
	for _, l := range p.RangeLits {
		for _, s := range litSamples {
			if s.kind == l && l != "rdf:langString" {
				return s.v
			}
		}
	}
	return "https://x.example/value"
}

// C12 — each type has exactly its ontology's properties, with the declared ranges.
func C12(tier string) int {
	res := report.NewResult("C12", tier, "exploration")
	o := LoadOnto()
	types, props := o.TypeKeys(), o.PropKeys()
	jsonNames := map[string][]string{}
	for _, p := range props {
		jsonNames[o.Props[p].Name] = append(jsonNames[o.Props[p].Name], p)
	}

	// ---------- (1) every (type, property) pair ----------
	for _, tk := range types {
		for _, pk := range props {
			p := o.Props[pk]
			has := o.HasProp(tk, pk)
			class := ""
			if has {
				class = "tp|" + tk + "|" + pk
			}
			res.Case(class)
			doc := baseDoc(o, tk)
			doc[p.Name] = sampleFor(p)
			rep := M{"check": "C12", "part": "type-property", "type": tk, "property": pk, "doc": doc}
			t, err, pan := decodeAs(o, tk, doc)
			if pan != nil || err != nil || t == nil {
				res.Violate(fmt.Sprintf("decode-failed|%s|%s", tk, pk), fmt.Sprintf("document %s does not decode: err=%v panic=%v", short(doc), err, pan), rep)
				continue
			}
			prop, exists := getProp(t, p.GoProp())
			unk := unknownOf(t)
			_, inUnknown := unk[p.Name]
			if has {
				if !exists {
					res.Violate(fmt.Sprintf("property-missing|%s|%s", tk, pk), fmt.Sprintf("%s lacks accessor Get%s although the ontology gives it %s", tk, p.GoProp(), pk), rep)
				} else if prop == nil {
					res.Violate(fmt.Sprintf("property-not-decoded|%s|%s", tk, pk), fmt.Sprintf("%s: member %q was not interpreted (accessor returns nil)", tk, p.Name), rep)
				}
				if inUnknown {
					res.Violate(fmt.Sprintf("known-member-kept-unknown|%s|%s", tk, pk), fmt.Sprintf("%s: member %q is both a property and an unknown member", tk, p.Name), rep)
				}
			} else {
				// another vocabulary's property of the same JSON name may legitimately claim the member
				claimed := false
				for _, other := range jsonNames[p.Name] {
					if other != pk && o.HasProp(tk, other) {
						claimed = true
					}
				}
				if exists {
					res.Violate(fmt.Sprintf("property-extra|%s|%s", tk, pk), fmt.Sprintf("%s exposes Get%s although the ontology withholds %s from it", tk, p.GoProp(), pk), rep)
				}
				if !claimed && !inUnknown {
					res.Violate(fmt.Sprintf("foreign-member-not-kept|%s|%s", tk, pk), fmt.Sprintf("%s: member %q (not a property of the type) is not kept as an unknown member", tk, p.Name), rep)
				}
			}
			if len(res.Samples) < 2 && has && tk == "ActivityStreams/Note" && pk > "ActivityStreams/n" {
				res.Sample(M{"part": "type-property", "doc": doc, "has": has})
			}
		}
		// id / type accessors
		t, _, _ := decodeAs(o, tk, baseDoc(o, tk))
		if t != nil {
			if !hasMethod(t, "GetJSONLDId") {
				res.Violate("no-id|"+tk, tk+" has no GetJSONLDId", M{"check": "C12", "type": tk})
			}
			if hasMethod(t, "GetJSONLDType") == o.Types[tk].Typeless {
				res.Violate("type-accessor|"+tk, fmt.Sprintf("%s typeless=%v but GetJSONLDType present=%v", tk, o.Types[tk].Typeless, hasMethod(t, "GetJSONLDType")), M{"check": "C12", "type": tk})
			}
		}
	}

	// ---------- (2) every (property, value kind) pair ----------
	for _, pk := range props {
		p := o.Props[pk]
		host := hostFor(o, pk)
		if host == "" {
			res.Violate("no-host|"+pk, "no type has property "+pk, M{"check": "C12", "property": pk})
			continue
		}
		admitTypes := map[string]bool{}
		for _, k := range o.KindTypes(pk) {
			admitTypes[k] = true
		}
		judge := func(kindLabel string, value interface{}, admissible map[string]int, member string) {
			doc := baseDoc(o, host)
			doc[member] = value
			rep := M{"check": "C12", "part": "property-kind", "property": pk, "kind": kindLabel, "doc": doc}
			t, err, pan := decodeAs(o, host, doc)
			if pan != nil {
				return // C11's business
			}
			if err != nil || t == nil {
				res.Violate(fmt.Sprintf("decode-failed|%s|%s", pk, kindLabel), fmt.Sprintf("document %s does not decode: %v", short(doc), err), rep)
				return
			}
			prop, _ := getProp(t, p.GoProp())
			var got []string
			if prop != nil {
				elems, _ := elements(prop)
				if len(elems) == 1 {
					got = trueKinds(elems[0])
				} else if len(elems) > 1 {
					got = []string{fmt.Sprintf("<%d elements>", len(elems))}
				}
			}
			// IRI and anyURI share a representation
			gotSet := map[string]bool{}
			for _, g := range got {
				gotSet[g] = true
			}
			anyYes := false
			for _, a := range admissible {
				if a == yes {
					anyYes = true
				}
			}
			nontriv := ""
			if len(admissible) > 0 {
				nontriv = "pk|" + pk + "|" + kindLabel
			}
			res.Case(nontriv)
			for g := range gotSet {
				if _, ok := admissible[g]; !ok {
					res.Violate(fmt.Sprintf("kind-not-in-range|%s|%s", pk, kindLabel),
						fmt.Sprintf("property %s given %s reports kind %s, which its range does not admit for that value (admissible: %v)", pk, short(value), g, keysOf(admissible)), rep)
				}
			}
			if anyYes && len(gotSet) == 0 {
				res.Violate(fmt.Sprintf("kind-rejected|%s|%s", pk, kindLabel),
					fmt.Sprintf("property %s given %s reports no kind although its range admits %v", pk, short(value), keysOf(admissible)), rep)
			}
			if len(gotSet) == 0 {
				// no kind: the raw value must survive serialisation
				out, _ := t.Serialize()
				if !reflect.DeepEqual(jsonNorm(out[member]), jsonNorm(value)) {
					res.Violate(fmt.Sprintf("raw-value-lost|%s|%s", pk, kindLabel),
						fmt.Sprintf("property %s: unrecognised value %s is not kept verbatim (serialised %s)", pk, short(value), short(out[member])), rep)
				}
			}
		}
		// literal samples
		for _, s := range litSamples {
			adm := map[string]int{}
			member := p.Name
			if s.kind == "rdf:langString" {
				member = p.Name + "Map"
				if !p.NatLang {
					// '<name>Map' of a non-natural-language property is just an unknown member
					doc := baseDoc(o, host)
					doc[member] = s.v
					t, _, _ := decodeAs(o, host, doc)
					res.Case("")
					if t != nil {
						if _, ok := unknownOf(t)[member]; !ok {
							res.Violate("map-member-of-non-natural-language|"+pk, fmt.Sprintf("%s: member %q should be an unknown member", pk, member), M{"check": "C12", "doc": doc})
						}
					}
					continue
				}
			}
			for _, l := range p.RangeLits {
				if s.kind == "rdf:langString" && l != "rdf:langString" {
					continue
				}
				if s.kind != "rdf:langString" && l == "rdf:langString" {
					continue
				}
				if a := accepts(l, jsonNorm(s.v)); a != no {
					adm[onto.LitGoName(l)] = a
				}
			}
			if _, isObj := s.v.(M); isObj && p.NatLang && member == p.Name {
				adm["RDFLangString"] = maybe // an object under the plain member name: left open
			}
			if _, isObj := s.v.(M); isObj {
				for rk := range admitTypes {
					if o.Types[rk].Typeless {
						adm[kindGoName(o, rk)] = maybe // a typeless range type admits any JSON object
					}
				}
			}
			if str, ok := s.v.(string); ok && isAbsURI(str) {
				adm["IRI"] = yes
				if _, ok := adm["XMLSchemaAnyURI"]; ok {
					adm["XMLSchemaAnyURI"] = yes
				}
			}
			judge(s.kind, s.v, adm, member)
		}
		// IRI
		{
			adm := map[string]int{"IRI": yes}
			for _, l := range p.RangeLits {
				if l == "rdf:langString" {
					continue
				}
				if a := accepts(l, "https://x.example/iri"); a != no {
					adm[onto.LitGoName(l)] = a
				}
			}
			judge("IRI", "https://x.example/iri", adm, p.Name)
		}
		// every type kind
		for _, kk := range types {
			adm := map[string]int{}
			if admitTypes[kk] {
				adm[kindGoName(o, kk)] = yes
			}
			// a typeless range type admits any JSON object
			for rk := range admitTypes {
				if o.Types[rk].Typeless {
					if _, ok := adm[kindGoName(o, rk)]; !ok {
						adm[kindGoName(o, rk)] = maybe
					}
				}
			}
			if p.NatLang {
				// an object whose values are all strings is lexically a language map; whether it is
				// read as one under the plain (non-'Map') member name is left open
				adm["RDFLangString"] = maybe
			}
			judge(kk, embedded(o, kk, "https://x.example/e"), adm, p.Name)
			if admitTypes[kk] && !o.Types[kk].Typeless {
				// a value carrying several types is of each of them: the vocabulary type first or last
				for vi, tl := range []L{{o.Types[kk].Name, "https://schema.example/Other"}, {"https://schema.example/Other", o.Types[kk].Name}, {"zz:A", o.Types[kk].Name, "zz:B"}} {
					e := embedded(o, kk, "https://x.example/e")
					e["type"] = tl
					judge(fmt.Sprintf("%s/type-array-%d", kk, vi), e, adm, p.Name)
				}
			}
		}
		// functional vs list
		doc := baseDoc(o, host)
		v := sampleFor(p)
		doc[p.Name] = L{v, v}
		t, _, pan := decodeAs(o, host, doc)
		res.Case("card|" + pk)
		if pan == nil && t != nil {
			prop, _ := getProp(t, p.GoProp())
			if p.Functional {
				if prop != nil && (hasMethod(prop, "Len") || hasMethod(prop, "At")) {
					res.Violate("functional-is-list|"+pk, pk+" is functional but its property type has Len/At", M{"check": "C12", "property": pk})
				}
			} else if prop == nil || !hasMethod(prop, "Len") {
				res.Violate("list-is-single|"+pk, pk+" is non-functional but its property type is not a list", M{"check": "C12", "property": pk})
			} else if elems, _ := elements(prop); len(elems) != 2 {
				res.Violate("list-length|"+pk, fmt.Sprintf("%s: a 2-element list decodes to %d elements", pk, len(elems)), M{"check": "C12", "doc": doc})
			}
		}
		// natural-language map round trip
		if p.NatLang {
			doc := baseDoc(o, host)
			lm := M{"en": "hi", "fr": "salut"}
			doc[p.Name+"Map"] = lm
			t, _, pan := decodeAs(o, host, doc)
			res.Case("natlang|" + pk)
			if pan == nil && t != nil {
				out, _ := t.Serialize()
				if !reflect.DeepEqual(jsonNorm(out[p.Name+"Map"]), jsonNorm(lm)) {
					res.Violate("natlang-map-not-written|"+pk, fmt.Sprintf("%s: language map is serialised as %s", pk, short(out)), M{"check": "C12", "doc": doc})
				}
				prop, _ := getProp(t, p.GoProp())
				if prop != nil {
					elems, _ := elements(prop)
					if len(elems) == 1 {
						if m := method(elems[0], "GetRDFLangString"); m.IsValid() {
							got := m.Call(nil)[0].Interface()
							if !reflect.DeepEqual(got, map[string]string{"en": "hi", "fr": "salut"}) {
								res.Violate("natlang-map-value|"+pk, fmt.Sprintf("%s: GetRDFLangString() = %v", pk, got), M{"check": "C12", "doc": doc})
							}
						}
					}
				}
			}
		}
	}

	// ---------- (3) literal semantics ----------
	literalSemantics(res, o)

	res.Extra["types"] = len(types)
	res.Extra["properties"] = len(props)
	res.Rule = fmt.Sprintf("(1) all %d x %d (type, property) pairs: a document of the type carrying a valid value under the property's JSON name, inspected through reflection (accessor exists & decoded  <=>  the ontology gives the type the property; otherwise kept unknown); (2) all %d properties x (%d type kinds, admitted ones also with a multi-valued type naming the vocabulary type first / last / in the middle, + %d literal/junk samples + IRI): the element must report a kind its declared range admits for that lexical form, or none and keep the raw value; functional/list shape; natural-language maps; (3) typed accessors vs an independent evaluation over enumerated lexical grammars (durations, timestamps x zones x {whole seconds, seconds omitted, fractional seconds}, counts, booleans, floats, language maps, URIs); non-trivial = pairs the ontology says exist / kinds with a non-empty admissible set", len(types), len(props), len(props), len(types), len(litSamples))
	res.Assumptions = []string{"lexical acceptance marked 'maybe' (rfc kinds for arbitrary strings, 0/1 for booleans, timestamps without seconds, any object for a typeless type) allows both outcomes"}
	return res.Finish()
}

func keysOf(m map[string]int) []string {
	var o []string
	for k, v := range m {
		o = append(o, fmt.Sprintf("%s:%d", k, v))
	}
	sort.Strings(o)
	return o
}

func unknownOf(t vocab.Type) map[string]interface{} {
	m := method(t, "GetUnknownProperties")
	if !m.IsValid() {
		return nil
	}
	out, _ := m.Call(nil)[0].Interface().(map[string]interface{})
	return out
}

// literalSemantics compares typed accessors with an independent evaluation of the lexical form.
func literalSemantics(res *report.Result, o *onto.Onto) {
	get := func(typ, member string, value interface{}, goProp string) (interface{}, M) {
		doc := M{"@context": allContexts(o), "type": typ, member: value}
		t, _, pan := decode(doc)
		if pan != nil || t == nil {
			return nil, doc
		}
		p, _ := getProp(t, goProp)
		return p, doc
	}
	// durations
	vals := []int{-1, 0, 1, 12, 60, 200} // -1 = component absent
	n := 0
	for _, sign := range []string{"", "-"} {
		for _, y := range vals {
			for _, mo := range vals {
				for _, d := range vals {
					for _, h := range vals {
						for _, mi := range vals {
							for _, s := range vals {
								if y < 0 && mo < 0 && d < 0 && h < 0 && mi < 0 && s < 0 {
									continue
								}
								if !res.Thorough() && (n%7 != 0) { // quick: every 7th string of the grammar
									n++
									continue
								}
								n++
								str := sign + "P"
								var want time.Duration
								add := func(v int, unit string, dur time.Duration) {
									if v >= 0 {
										str += fmt.Sprintf("%d%s", v, unit)
										want += time.Duration(v) * dur
									}
								}
								add(y, "Y", 365*24*time.Hour)
								add(mo, "M", 30*24*time.Hour)
								add(d, "D", 24*time.Hour)
								if h >= 0 || mi >= 0 || s >= 0 {
									str += "T"
								}
								add(h, "H", time.Hour)
								add(mi, "M", time.Minute)
								add(s, "S", time.Second)
								if sign == "-" {
									want = -want
								}
								p, doc := get("Note", "duration", str, "ActivityStreamsDuration")
								res.Case("duration|" + str)
								bad := ""
								if p == nil {
									bad = "not decoded"
								} else if !method(p, "IsXMLSchemaDuration").Call(nil)[0].Bool() {
									bad = "not recognised as a duration"
								} else if got := method(p, "Get").Call(nil)[0].Interface().(time.Duration); got != want {
									bad = fmt.Sprintf("Get() = %v, the lexical form denotes %v", got, want)
								}
								if bad != "" {
									res.Violate("duration-value|"+durationShape(y, mo, d, h, mi, s, sign), fmt.Sprintf("duration %q: %s", str, bad), M{"check": "C12", "doc": doc})
								}
							}
						}
					}
				}
			}
		}
	}
	// timestamps
	instants := []time.Time{}
	for _, y := range []int{1, 1000, 1900, 1969, 1970, 1999, 2000, 2019, 2020, 2038, 2100, 9999} {
		for _, md := range [][2]int{{1, 1}, {1, 31}, {2, 28}, {2, 29}, {3, 1}, {4, 30}, {10, 9}, {12, 1}, {12, 31}} {
			if md[0] == 2 && md[1] == 29 && !(y%4 == 0 && (y%100 != 0 || y%400 == 0)) {
				continue
			}
			for _, hm := range [][3]int{{0, 0, 0}, {0, 0, 1}, {9, 8, 7}, {12, 0, 0}, {23, 59, 59}} {
				if (y == 1 || y == 9999) && (md[0] == 1 && md[1] == 1 || md[0] == 12 && md[1] == 31) {
					continue // a zone offset would carry the local date out of the years 0001..9999
				}
				instants = append(instants, time.Date(y, time.Month(md[0]), md[1], hm[0], hm[1], hm[2], 0, time.UTC))
			}
		}
	}
	zones := []struct {
		s   string
		off int
	}{{"Z", 0}, {"+00:00", 0}, {"-00:00", 0}, {"+01:00", 3600}, {"-08:00", -8 * 3600}, {"+05:30", 5*3600 + 1800}, {"+14:00", 14 * 3600}, {"-12:00", -12 * 3600}, {"+00:30", 1800}}
	// seconds: written, omitted (ActivityStreams allows it; the instant is then at second 0), or with a fraction
	secForms := []struct {
		suffix string // written after the minutes
		frac   time.Duration
		noSec  bool
	}{{":05", 0, false}, {"", 0, true}, {":05.5", 500 * time.Millisecond, false}, {":05.891", 891 * time.Millisecond, false},
		{":05.000", 0, false}, {":05.000000001", 1, false}}
	for _, in0 := range instants {
		for _, z := range zones {
			for _, sf := range secForms {
				in := in0
				if sf.noSec {
					in = in0.Add(-time.Duration(in0.Second()) * time.Second)
				}
				local := in.Add(time.Duration(z.off) * time.Second)
				str := local.Format("2006-01-02T15:04") + strings.Replace(sf.suffix, ":05", local.Format(":05"), 1) + z.s
				in = in.Add(sf.frac)
				p, doc := get("Note", "published", str, "ActivityStreamsPublished")
				res.Case("dateTime|" + str)
				bad := ""
				if p == nil {
					bad = "not decoded"
				} else if !method(p, "IsXMLSchemaDateTime").Call(nil)[0].Bool() {
					bad = "not recognised as a dateTime"
				} else if got := method(p, "Get").Call(nil)[0].Interface().(time.Time); !got.Equal(in) {
					bad = fmt.Sprintf("Get() = %v, the lexical form denotes %v", got.UTC(), in)
				}
				if bad != "" {
					res.Violate("dateTime-value|zone="+z.s+"|seconds="+sf.suffix, fmt.Sprintf("timestamp %q: %s", str, bad), M{"check": "C12", "doc": doc})
				}
			}
		}
	}
	// counts
	for _, c := range []float64{0, 1, 9, 10, 255, 256, 65535, 65536, 2147483647, 2147483648, 4294967295, 4294967296, 1e15, 9007199254740991, 9007199254740992} {
		p, doc := get("Collection", "totalItems", c, "ActivityStreamsTotalItems")
		res.Case(fmt.Sprintf("count|%v", c))
		if p == nil || !method(p, "IsXMLSchemaNonNegativeInteger").Call(nil)[0].Bool() {
			res.Violate(fmt.Sprintf("count-rejected|%v", c), fmt.Sprintf("totalItems %v not recognised as a count", c), M{"check": "C12", "doc": doc})
		} else if got := method(p, "Get").Call(nil)[0].Int(); float64(got) != c {
			res.Violate(fmt.Sprintf("count-value|%v", c), fmt.Sprintf("totalItems %v: Get() = %d", c, got), M{"check": "C12", "doc": doc})
		}
	}
	// counts beyond the accessor's integer type: either not recognised (kept as the raw value) or returned exactly
	for _, c := range []float64{9223372036854775808, 1e19, 18446744073709551616, 1e30} {
		for _, pm := range [][3]string{{"Collection", "totalItems", "ActivityStreamsTotalItems"}, {"OrderedCollectionPage", "startIndex", "ActivityStreamsStartIndex"}, {"Image", "height", "ActivityStreamsHeight"}} {
			p, doc := get(pm[0], pm[1], c, pm[2])
			res.Case(fmt.Sprintf("count-huge|%s|%v", pm[1], c))
			if p != nil && method(p, "IsXMLSchemaNonNegativeInteger").Call(nil)[0].Bool() {
				if got := method(p, "Get").Call(nil)[0].Int(); float64(got) != c {
					res.Violate(fmt.Sprintf("count-value|%s|beyond-int64", pm[1]), fmt.Sprintf("%s %v: recognised as a count with Get() = %d", pm[1], c, got), M{"check": "C12", "doc": doc})
				}
			}
		}
	}
	for _, c := range []float64{-1, 1.5, -0.5, 0.1, 1e-9, -2147483648} {
		p, doc := get("Collection", "totalItems", c, "ActivityStreamsTotalItems")
		res.Case(fmt.Sprintf("count|%v", c))
		if p != nil && method(p, "IsXMLSchemaNonNegativeInteger").Call(nil)[0].Bool() {
			res.Violate(fmt.Sprintf("count-accepted|%v", c), fmt.Sprintf("totalItems %v is accepted as a non-negative integer", c), M{"check": "C12", "doc": doc})
		}
	}
	// floats
	for _, f := range []float64{0, 1.5, -2.25, 1e10, 3, -3, 1e-10, -1e-10, 0.1, 1e21, 1e300, -1e300, 5e-324, 123456789.125, 16777217} {
		p, doc := get("Place", "radius", f, "ActivityStreamsRadius")
		res.Case(fmt.Sprintf("float|%v", f))
		if p == nil || !method(p, "IsXMLSchemaFloat").Call(nil)[0].Bool() {
			res.Violate(fmt.Sprintf("float-rejected|%v", f), fmt.Sprintf("radius %v not recognised", f), M{"check": "C12", "doc": doc})
		} else if got := method(p, "Get").Call(nil)[0].Float(); got != f {
			res.Violate(fmt.Sprintf("float-value|%v", f), fmt.Sprintf("radius %v: Get() = %v", f, got), M{"check": "C12", "doc": doc})
		}
	}
	// booleans
	for _, b := range []bool{true, false} {
		if o.Props["Toot/discoverable"] == nil {
			break // vocabulary not loaded (extension runs)
		}
		p, doc := get("Person", "discoverable", b, "TootDiscoverable")
		res.Case(fmt.Sprintf("bool|%v", b))
		if p == nil || !method(p, "IsXMLSchemaBoolean").Call(nil)[0].Bool() {
			res.Violate(fmt.Sprintf("bool-rejected|%v", b), "discoverable not recognised", M{"check": "C12", "doc": doc})
		} else if got := method(p, "Get").Call(nil)[0].Bool(); got != b {
			res.Violate(fmt.Sprintf("bool-value|%v", b), fmt.Sprintf("discoverable %v: Get() = %v", b, got), M{"check": "C12", "doc": doc})
		}
	}
	// plain strings, language tags, media types, link relations: the accessor returns the string itself
	for _, sc := range []struct {
		typ, member, goProp, is string
		vals                    []string
	}{
		{"Note", "content", "ActivityStreamsContent", "IsXMLSchemaString", []string{"x", "", " leading and trailing ", "line\nbreak \"quoted\" \\ back", "\u00e4\u00f6\u00fc \u4e16\u754c \U0001F600", "<p>html &amp; entities</p>", "null", "true", "5"}},
		{"Link", "hreflang", "ActivityStreamsHreflang", "IsRFCBcp47", []string{"en", "en-US", "zh-Hant-TW", "de-CH-1901", "x-private"}},
		{"Link", "mediaType", "ActivityStreamsMediaType", "IsRFCRfc2045", []string{"text/html", "application/ld+json; profile=\"https://www.w3.org/ns/activitystreams\"", "image/svg+xml", "text/plain; charset=utf-8"}},
		{"Link", "rel", "ActivityStreamsRel", "IsRFCRfc5988", []string{"next", "prev", "canonical", "me"}},
	} {
		if o.Props["ActivityStreams/"+sc.member] == nil {
			continue
		}
		for _, v := range sc.vals {
			p, doc := get(sc.typ, sc.member, v, sc.goProp)
			res.Case("string-like|" + sc.member + "|" + v)
			el := p
			if p != nil && method(p, "Len").IsValid() {
				if method(p, "Len").Call(nil)[0].Int() != 1 {
					res.Violate("string-value|"+sc.member+"|element-count", fmt.Sprintf("%s %q: %d elements", sc.member, v, method(p, "Len").Call(nil)[0].Int()), M{"check": "C12", "doc": doc})
					continue
				}
				el = method(p, "At").Call([]reflect.Value{reflect.ValueOf(0)})[0].Interface()
			}
			if el == nil {
				res.Violate("string-rejected|"+sc.member, fmt.Sprintf("%s %q not decoded", sc.member, v), M{"check": "C12", "doc": doc})
				continue
			}
			getter := "Get"
			if !method(el, getter).IsValid() || method(el, sc.is).IsValid() && method(el, "Get"+strings.TrimPrefix(sc.is, "Is")).IsValid() {
				getter = "Get" + strings.TrimPrefix(sc.is, "Is")
			}
			if m := method(el, sc.is); m.IsValid() && !m.Call(nil)[0].Bool() {
				res.Violate("string-kind|"+sc.member, fmt.Sprintf("%s %q: %s() is false", sc.member, v, sc.is), M{"check": "C12", "doc": doc})
				continue
			}
			if g := method(el, getter); g.IsValid() {
				if got := fmt.Sprint(g.Call(nil)[0].Interface()); got != v {
					res.Violate("string-value|"+sc.member, fmt.Sprintf("%s %q: %s() = %q", sc.member, v, getter, got), M{"check": "C12", "doc": doc})
				}
			}
		}
	}
	// language maps: every entry reachable through the map accessor and through GetLanguage / HasLanguage
	for _, lm := range []map[string]string{{"en": "hello"}, {"en": "hello", "fr": "salut", "zh-Hant": "\u4f60\u597d"}, {"und": ""}} {
		raw := M{}
		for k, v := range lm {
			raw[k] = v
		}
		p, doc := get("Note", "nameMap", raw, "ActivityStreamsName")
		res.Case(fmt.Sprintf("langmap|%d", len(lm)))
		if p == nil || method(p, "Len").Call(nil)[0].Int() != 1 {
			res.Violate("langmap-rejected", fmt.Sprintf("nameMap %v not decoded as one element", lm), M{"check": "C12", "doc": doc})
			continue
		}
		el := method(p, "At").Call([]reflect.Value{reflect.ValueOf(0)})[0].Interface()
		if !method(el, "IsRDFLangString").Call(nil)[0].Bool() {
			res.Violate("langmap-kind", fmt.Sprintf("nameMap %v: IsRDFLangString() is false", lm), M{"check": "C12", "doc": doc})
			continue
		}
		got, _ := method(el, "GetRDFLangString").Call(nil)[0].Interface().(map[string]string)
		if !reflect.DeepEqual(got, lm) {
			res.Violate("langmap-value", fmt.Sprintf("nameMap %v: GetRDFLangString() = %v", lm, got), M{"check": "C12", "doc": doc})
		}
		for k, v := range lm {
			if !method(el, "HasLanguage").Call([]reflect.Value{reflect.ValueOf(k)})[0].Bool() || method(el, "GetLanguage").Call([]reflect.Value{reflect.ValueOf(k)})[0].String() != v {
				res.Violate("langmap-language-accessors", fmt.Sprintf("nameMap %v: HasLanguage / GetLanguage(%q) disagree with the map", lm, k), M{"check": "C12", "doc": doc})
			}
		}
		if method(el, "HasLanguage").Call([]reflect.Value{reflect.ValueOf("xx-absent")})[0].Bool() {
			res.Violate("langmap-language-accessors", fmt.Sprintf("nameMap %v: HasLanguage of an absent language is true", lm), M{"check": "C12", "doc": doc})
		}
	}
	// URIs
	for _, u := range []string{"https://x.example/a?b=c#d", "http://x.example:8080/", "mailto:a@x.example", "urn:uuid:123"} {
		p, doc := get("Link", "href", u, "ActivityStreamsHref")
		res.Case("uri|" + u)
		if p == nil {
			res.Violate("uri-rejected|"+u, "href not decoded", M{"check": "C12", "doc": doc})
		} else if got := method(p, "Get").Call(nil)[0].Interface(); fmt.Sprint(got) != u {
			res.Violate("uri-value|"+u, fmt.Sprintf("href %q: Get() = %v", u, got), M{"check": "C12", "doc": doc})
		}
	}
}

func durationShape(y, mo, d, h, mi, s int, sign string) string {
	f := func(v int, c string) string {
		if v < 0 {
			return ""
		}
		return c
	}
	return sign + "P" + f(y, "Y") + f(mo, "M") + f(d, "D") + "T" + f(h, "H") + f(mi, "M") + f(s, "S")
}
