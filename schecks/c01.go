package schecks

import (
	"encoding/json"
	"fmt"
	"reflect"
	"sort"
	"strings"
	"sync"

	"github.com/go-fed/activity/streams"

	"verif/onto"
	"verif/report"
)

// canonical literal samples (canonical lexical form: they must survive a round trip exactly)
var canonLits = map[string][]interface{}{
	"xsd:string":             {"hello world", "", "ünï©ødé \"quoted\" \\ /"},
	"xsd:anyURI":             {"https://x.example/a/b?q=1#frag", "urn:isbn:0451450523"},
	"xsd:dateTime":           {"2020-02-29T23:59:58Z", "1999-12-31T00:00:00+05:30"},
	"xsd:boolean":            {true, false},
	"xsd:float":              {1.5, float64(0), -2.25},
	"xsd:nonNegativeInteger": {float64(0), float64(7)},
	"xsd:duration":           {"PT5S", "PT0S", "P1Y2M3DT4H5M6S", "-P1D"},
	"rfc:bcp47":              {"en-US"},
	"rfc:rfc2045":            {"text/html"},
	"rfc:rfc5988":            {"next"},
}

// usedVocabs computes, from the document description alone, the vocabularies a document uses.
func usedVocabs(o *onto.Onto, doc M, typeKey string, into map[string]bool) {
	if typeKey != "" {
		into[o.Types[typeKey].Vocab] = true
	}
	for k, v := range doc {
		if k == "@context" || k == "type" || k == "id" {
			continue
		}
		name := strings.TrimSuffix(k, "Map")
		var pk string
		for _, cand := range o.PropKeys() {
			p := o.Props[cand]
			if (p.Name == k || (p.NatLang && p.Name == name)) && (typeKey == "" || o.HasProp(typeKey, cand)) {
				pk = cand
				break
			}
		}
		if pk == "" {
			continue // unknown member: no vocabulary
		}
		into[o.Props[pk].Vocab] = true
		var walk func(x interface{})
		walk = func(x interface{}) {
			switch e := x.(type) {
			case []interface{}:
				for _, y := range e {
					walk(y)
				}
			case map[string]interface{}:
				if strings.HasSuffix(k, "Map") {
					return
				}
				tk := ""
				if tn, ok := e["type"].(string); ok {
					for _, cand := range o.TypeKeys() {
						if o.Types[cand].Name == tn {
							tk = cand
						}
					}
				} else {
					for _, r := range o.Props[pk].RangeTypes {
						if o.Types[r].Typeless {
							tk = r
						}
					}
				}
				if tk != "" {
					usedVocabs(o, e, tk, into)
				}
			}
		}
		walk(v)
	}
}

func vocabURIs(o *onto.Onto, set map[string]bool) []string {
	var out []string
	for _, v := range o.Vocabs {
		if set[v.Name] {
			out = append(out, v.URI)
		}
	}
	sort.Strings(out)
	return out
}

func withContext(o *onto.Onto, doc M, typeKey string) M {
	set := map[string]bool{}
	usedVocabs(o, jsonNorm(doc).(map[string]interface{}), typeKey, set)
	uris := vocabURIs(o, set)
	d := M{}
	for k, v := range doc {
		d[k] = v
	}
	if len(uris) == 1 {
		d["@context"] = uris[0]
	} else {
		l := L{}
		for _, u := range uris {
			l = append(l, u)
		}
		d["@context"] = l
	}
	return d
}

// ctxSet normalises an @context value to a sorted list of strings (nil if it is not a set of strings).
func ctxSet(v interface{}) []string {
	switch c := v.(type) {
	case string:
		return []string{c}
	case []interface{}:
		var out []string
		for _, e := range c {
			s, ok := e.(string)
			if !ok {
				return nil
			}
			out = append(out, s)
		}
		sort.Strings(out)
		return out
	}
	return nil
}

// equalModCtx compares two documents treating the top-level @context as a set.
func equalModCtx(a, b map[string]interface{}) bool {
	ca, cb := ctxSet(a["@context"]), ctxSet(b["@context"])
	if !reflect.DeepEqual(ca, cb) {
		return false
	}
	a2, b2 := map[string]interface{}{}, map[string]interface{}{}
	for k, v := range a {
		if k != "@context" {
			a2[k] = v
		}
	}
	for k, v := range b {
		if k != "@context" {
			b2[k] = v
		}
	}
	return reflect.DeepEqual(a2, b2)
}

// roundTrip decodes and encodes; out is nil if the decoder rejects the document.
func roundTrip(doc M) (out map[string]interface{}, err error, pan interface{}) {
	t, err, pan := decode(doc)
	if pan != nil || err != nil || t == nil {
		return nil, err, pan
	}
	func() {
		defer func() {
			if r := recover(); r != nil {
				pan = r
			}
		}()
		var m map[string]interface{}
		m, err = streams.Serialize(t)
		if err == nil {
			out = jsonNorm(m).(map[string]interface{})
		}
	}()
	return
}

// memberLoss reports members of in that do not reappear in out (natural-language members may
// switch spelling; nested @context and nulls for known properties may vanish).
func memberLoss(o *onto.Onto, in, out map[string]interface{}, path string, top bool) []string {
	var lost []string
	natBase := func(k string) (string, bool) {
		b := strings.TrimSuffix(k, "Map")
		for _, pk := range o.PropKeys() {
			if o.Props[pk].NatLang && o.Props[pk].Name == b {
				return b, true
			}
		}
		return "", false
	}
	known := func(k string) bool {
		if k == "id" || k == "type" {
			return true
		}
		for _, pk := range o.PropKeys() {
			if o.Props[pk].Name == k {
				return true
			}
		}
		_, nl := natBase(k)
		return nl
	}
	count := func(m map[string]interface{}, base string) int {
		n := 0
		if _, ok := m[base]; ok {
			n++
		}
		if _, ok := m[base+"Map"]; ok {
			n++
		}
		return n
	}
	for k, v := range in {
		if k == "@context" {
			continue
		}
		if v == nil && known(k) {
			continue
		}
		if b, ok := natBase(k); ok {
			nin := 0
			for _, kk := range []string{b, b + "Map"} {
				if vv, ok := in[kk]; ok && vv != nil {
					nin++
				}
			}
			if count(out, b) < nin {
				lost = append(lost, path+k)
			}
			// the entries of a language map are members too: each language must reappear (under either spelling)
			if im, ok := v.(map[string]interface{}); ok {
				for lang := range im {
					found := false
					for _, kk := range []string{b, b + "Map"} {
						for _, e := range append([]interface{}{out[kk]}, listOf(out[kk])...) {
							if om, ok := e.(map[string]interface{}); ok {
								if _, ok := om[lang]; ok {
									found = true
								}
							}
						}
					}
					if !found {
						lost = append(lost, path+k+"."+lang)
					}
				}
			}
			continue
		}
		ov, ok := out[k]
		if !ok {
			lost = append(lost, path+k)
			continue
		}
		// recurse into embedded objects (same position)
		switch iv := v.(type) {
		case map[string]interface{}:
			if om, ok := ov.(map[string]interface{}); ok {
				lost = append(lost, memberLoss(o, iv, om, path+k+".", false)...)
			}
		case []interface{}:
			if ol, ok := ov.([]interface{}); ok && len(ol) == len(iv) {
				for i := range iv {
					im, ok1 := iv[i].(map[string]interface{})
					om, ok2 := ol[i].(map[string]interface{})
					if ok1 && ok2 {
						lost = append(lost, memberLoss(o, im, om, fmt.Sprintf("%s%s[%d].", path, k, i), false)...)
					}
				}
			}
		}
	}
	return lost
}

// appendCtx returns the @context value c extended by one more entry.
func appendCtx(c interface{}, extra interface{}) interface{} {
	l := L{}
	switch x := c.(type) {
	case string:
		l = append(l, x)
	case []interface{}:
		l = append(l, x...)
	}
	return append(l, extra)
}

func listOf(v interface{}) []interface{} {
	l, _ := v.([]interface{})
	return l
}

func hasNullOrNestedArray(v interface{}, inArray bool) bool {
	switch x := v.(type) {
	case nil:
		return true
	case []interface{}:
		if inArray {
			return true
		}
		for _, e := range x {
			if hasNullOrNestedArray(e, true) {
				return true
			}
		}
	case map[string]interface{}:
		for _, e := range x {
			if hasNullOrNestedArray(e, false) {
				return true
			}
		}
	}
	return false
}

type c01case struct {
	class string // family|feature (used for violation keys)
	doc   M
	canon bool
	// exactCtx, if set, is the @context the re-encoded document must carry (the input names more
	// than it uses; the output must name exactly the vocabularies used)
	exactCtx interface{}
}

// C01 — ActivityStreams documents survive decode -> encode without loss.
func C01(tier string) int {
	res := report.NewResult("C01", tier, "exploration")
	o := LoadOnto()
	types, props := o.TypeKeys(), o.PropKeys()
	var cases []c01case
	add := func(class string, doc M, canon bool) {
		cases = append(cases, c01case{class: class, doc: doc, canon: canon})
	}
	emb := func(tk string, n int) M { return embedded(o, tk, fmt.Sprintf("https://x.example/e%d", n)) }
	maxSamples := 1
	if res.Thorough() {
		maxSamples = 3
	}
	topTypes := []string{}
	for _, tk := range types {
		if !o.Types[tk].Typeless {
			topTypes = append(topTypes, tk)
		}
	}

	// F1: every (type, property, kind) x shape, canonical form
	for _, tk := range topTypes {
		for _, pk := range props {
			if !o.HasProp(tk, pk) {
				continue
			}
			p := o.Props[pk]
			base := func() M { return M{"type": o.Types[tk].Name, "id": "https://x.example/doc"} }
			var kindVals [][2]interface{} // (kind label, value)
			kindVals = append(kindVals, [2]interface{}{"IRI", "https://x.example/iri"})
			for _, l := range p.RangeLits {
				if l == "rdf:langString" {
					continue
				}
				for i, s := range canonLits[l] {
					if i >= maxSamples {
						break
					}
					// a URI-looking string is decoded as an IRI: canonical only where anyURI/IRI is meant
					kindVals = append(kindVals, [2]interface{}{l, s})
				}
			}
			for i, kk := range o.KindTypes(pk) {
				kindVals = append(kindVals, [2]interface{}{kk, emb(kk, i)})
			}
			for _, kv := range kindVals {
				d := base()
				d[p.Name] = kv[1]
				add("canonical|scalar", withContext(o, d, tk), true)
				if !p.Functional {
					d2 := base()
					v2 := kv[1]
					if m, ok := v2.(M); ok {
						cp := M{}
						for k, v := range m {
							cp[k] = v
						}
						cp["id"] = "https://x.example/second"
						v2 = cp
					}
					d2[p.Name] = L{kv[1], v2}
					add("canonical|list2", withContext(o, d2, tk), true)
				}
			}
			if !p.Functional && len(kindVals) >= 3 {
				d := base()
				l := L{}
				for i, kv := range kindVals {
					if i >= 4 {
						break
					}
					l = append(l, kv[1])
				}
				d[p.Name] = l
				add("canonical|mixed-list", withContext(o, d, tk), true)
			}
			if p.NatLang {
				d := base()
				d[p.Name+"Map"] = M{"en": "hi", "fr": "salut"}
				add("canonical|language-map", withContext(o, d, tk), true)
			}
		}
	}
	// F1f: literal boundaries - for every property with a literal kind in its range (on the first type that has
	// it) every value of a boundary list for that kind: extreme instants and zone offsets, floats with many
	// significant digits / beyond 2^24 / tiny / huge, large counts, long and escape-laden strings
	boundary := map[string][]interface{}{
		"xsd:dateTime":           {"0001-01-01T00:00:00Z", "9999-12-31T23:59:59Z", "1970-01-01T00:00:00Z", "2016-02-29T12:00:00-12:00", "2020-12-31T23:59:59+14:00", "1969-12-31T23:59:59Z"},
		"xsd:float":              {52.521918, float64(123456789), float64(16777217), 1e-7, 0.1, 1e21, -1e-10, 1.7976931348623157e308, 5e-324, -0.000123456789012345, 3.141592653589793},
		"xsd:nonNegativeInteger": {float64(255), float64(65536), float64(2147483648), float64(4294967296), float64(9007199254740991)},
		"xsd:duration":           {"PT59S", "PT23H59M59S", "P11M", "P29D", "-PT1S", "P100Y"},
		"xsd:string":             {strings.Repeat("long ", 4000), `line\nbreak\ttab \u0000 \u2028 \ud83d\ude00 \u00e9 <>&`, " leading and trailing ", "null", "true", "123", "{}", "[]"},
	}
	for _, pk := range props {
		for _, tk := range topTypes {
			if !o.HasProp(tk, pk) {
				continue
			}
			p := o.Props[pk]
			for _, l := range p.RangeLits {
				for _, bv := range boundary[l] {
					if sv, ok := bv.(string); ok && l == "xsd:string" {
						var dec string
						if json.Unmarshal([]byte("\""+sv+"\""), &dec) == nil {
							bv = dec // the escapes above are JSON escapes
						}
						// a property that also admits numbers / booleans / IRIs may read such a string as one of those
						if len(p.RangeLits) > 1 && (dec == "true" || dec == "123" || dec == "null") {
							continue
						}
					}
					d := M{"type": o.Types[tk].Name, "id": "https://x.example/doc", p.Name: bv}
					add("canonical|literal-boundary|"+l, withContext(o, d, tk), true)
				}
			}
			break
		}
	}
	// F1e: IRIs of less usual but URL-normal shape (explicit port, IPv6 literal, query, fragment, userinfo,
	// percent-escape, punycode host, no path) as the value of every property (on the first type that has it)
	// and as the document's id
	iriShapes := []string{"https://x.example:8443/a", "https://[2001:db8::1]/a", "https://[2001:db8::1]:8443/a", "https://x.example/a?b=c&d=e", "https://x.example/a#frag",
		"https://user@x.example/a", "https://x.example/a%20b", "https://xn--bcher-kva.example/a", "http://x.example/", "https://x.example", "https://x.example/a/../b/./c", "https://x.example/a?"}
	for _, pk := range props {
		for _, tk := range topTypes {
			if !o.HasProp(tk, pk) {
				continue
			}
			p := o.Props[pk]
			for _, iri := range iriShapes {
				d := M{"type": o.Types[tk].Name, "id": "https://x.example/doc", p.Name: iri}
				add("canonical|iri-shape", withContext(o, d, tk), true)
			}
			break
		}
	}
	for i, tk := range topTypes {
		d := M{"type": o.Types[tk].Name, "id": iriShapes[i%len(iriShapes)], "name": "n"}
		add("canonical|iri-shape-as-id", withContext(o, d, tk), true)
	}
	// F2: nesting to depth 3 through carrier properties
	carriers := []string{"object", "attachment", "tag", "inReplyTo"}
	for i, tk := range topTypes {
		inner := emb(tk, i)
		inner["name"] = "inner"
		if !o.HasProp(tk, "ActivityStreams/name") {
			delete(inner, "name")
		}
		for _, c1 := range carriers {
			d := M{"type": "Create", "id": "https://x.example/c", "actor": "https://x.example/actor", c1: inner}
			add("canonical|depth2", withContext(o, d, "ActivityStreams/Create"), true)
			for _, c2 := range carriers {
				mid := M{"type": "Note", "id": "https://x.example/mid", "content": "mid", c2: inner}
				d := M{"type": "Create", "id": "https://x.example/c", c1: L{mid, "https://x.example/other"}}
				add("canonical|depth3", withContext(o, d, "ActivityStreams/Create"), true)
			}
		}
	}
	// typeless embedded key with all its properties
	add("canonical|typeless", withContext(o, M{"type": "Person", "id": "https://x.example/p", "inbox": "https://x.example/p/inbox",
		"publicKey": M{"id": "https://x.example/p#key", "owner": "https://x.example/p", "publicKeyPem": "-----BEGIN-----"}}, "ActivityStreams/Person"), true)
	// F3: unknown members
	unknownVals := []struct {
		n string
		v interface{}
	}{{"string", "x"}, {"number", 12.5}, {"bool", true}, {"empty-object", M{}}, {"object", M{"a": M{"b": L{1.0, "c"}}}},
		{"object-with-context", M{"@context": "https://other.example/ns", "k": "v"}}, {"array", L{"a", 2.0, M{"x": "y"}}}, {"empty-array", L{}},
		{"null", nil}, {"array-in-array", L{L{"x"}, L{}}}}
	for i, tk := range topTypes {
		for _, uv := range unknownVals {
			for _, key := range []string{"zzUnknownMember", "schema:value", "https://ext.example/ns#full"} {
				d := M{"type": o.Types[tk].Name, "id": "https://x.example/doc", key: uv.v}
				canon := uv.n != "null" && uv.n != "array-in-array" && uv.n != "object-with-context"
				add("unknown-member|"+uv.n, withContext(o, d, tk), canon)
				if i%8 == 0 {
					inner := emb(tk, 1)
					inner[key] = uv.v
					d := M{"type": "Create", "id": "https://x.example/c", "object": inner}
					add("unknown-member-nested|"+uv.n, withContext(o, d, "ActivityStreams/Create"), canon)
				}
			}
		}
	}
	// F3b: a member named like a property that exists in the vocabularies but not on this type
	// (including the properties explicitly withheld from it) is an unknown member there
	propNames := []string{}
	seenName := map[string]bool{}
	for _, pk := range props {
		if n := o.Props[pk].Name; !seenName[n] {
			seenName[n] = true
			propNames = append(propNames, n)
		}
	}
	for ti, tk := range topTypes {
		for ni, n := range propNames {
			has := false
			for _, pk := range props {
				if o.Props[pk].Name == n && o.HasProp(tk, pk) {
					has = true
				}
			}
			if has || n == "id" || n == "type" {
				continue
			}
			vals := []interface{}{"https://x.example/v", M{"k": "v"}, L{"a", M{"type": "Note", "id": "https://x.example/inner"}}}
			if !res.Thorough() {
				vals = vals[(ti+ni)%3 : (ti+ni)%3+1]
			}
			for _, v := range vals {
				add("foreign-property-name", withContext(o, M{"type": o.Types[tk].Name, "id": "https://x.example/doc", n: v}, tk), true)
			}
			if (ti+ni)%16 == 0 {
				inner := emb(tk, 1)
				inner[n] = "https://x.example/v"
				add("foreign-property-name-nested", withContext(o, M{"type": "Create", "id": "https://x.example/c", "object": inner}, "ActivityStreams/Create"), true)
			}
		}
	}
	add("canonical|typeless-with-type-member", withContext(o, M{"type": "Person", "id": "https://x.example/p", "inbox": "https://x.example/p/inbox",
		"publicKey": M{"id": "https://x.example/p#key", "owner": "https://x.example/p", "publicKeyPem": "-----BEGIN-----", "type": "Key"}}, "ActivityStreams/Person"), true)
	// F3c: a vocabulary used only inside one element of a list (any position, among elements of the
	// same kind) must still be named by @context
	var foreign []string
	for _, tk := range topTypes {
		if o.Types[tk].Vocab != "ActivityStreams" {
			foreign = append(foreign, tk)
		}
	}
	listCarriers := []struct{ host, prop string }{{"Create", "object"}, {"Collection", "items"}, {"OrderedCollection", "orderedItems"}, {"Note", "tag"}, {"Note", "attachment"}}
	for fi, ftk := range foreign {
		for _, lc := range listCarriers {
			for _, elemT := range []string{"Note", "Person"} {
				for n := 2; n <= 3; n++ {
					for pos := 0; pos < n; pos++ {
						l := L{}
						for i := 0; i < n; i++ {
							e := M{"type": elemT, "id": fmt.Sprintf("https://x.example/el%d", i), "name": fmt.Sprintf("el%d", i)}
							if i == pos {
								e["attachment"] = emb(ftk, fi)
							}
							l = append(l, e)
						}
						add("canonical|foreign-vocabulary-in-one-list-element", withContext(o, M{"type": lc.host, "id": "https://x.example/doc", lc.prop: l}, "ActivityStreams/"+lc.host), true)
					}
				}
			}
		}
		// the same through a typeless value (publicKey) in a later Person
		for pos := 0; pos < 2; pos++ {
			l := L{}
			for i := 0; i < 2; i++ {
				e := M{"type": "Person", "id": fmt.Sprintf("https://x.example/p%d", i)}
				if i == pos {
					e["publicKey"] = M{"id": fmt.Sprintf("https://x.example/p%d#key", i), "owner": fmt.Sprintf("https://x.example/p%d", i), "publicKeyPem": "-----BEGIN-----"}
				}
				l = append(l, e)
			}
			if fi == 0 {
				add("canonical|foreign-vocabulary-in-one-list-element", withContext(o, M{"type": "OrderedCollection", "id": "https://x.example/doc", "orderedItems": l}, "ActivityStreams/OrderedCollection"), true)
			}
		}
	}
	// F3d: one list whose elements come from SEVERAL vocabularies: every sequence of length 2..4 over one
	// element per vocabulary (a plain ActivityStreams Note; the first type of each other vocabulary; a
	// Person carrying a typeless publicKey for vocabularies that have typeless values only) - the
	// vocabulary an element brings must be named whatever came before it in the list
	{
		type elemMk func(i int) M
		alpha := []elemMk{func(i int) M {
			return M{"type": "Note", "id": fmt.Sprintf("https://x.example/el%d", i), "name": fmt.Sprintf("el%d", i)}
		}}
		seenV := map[string]bool{"ActivityStreams": true}
		for _, ftk := range foreign {
			if v := o.Types[ftk].Vocab; !seenV[v] {
				seenV[v] = true
				ftk := ftk
				alpha = append(alpha, func(i int) M { return embedded(o, ftk, fmt.Sprintf("https://x.example/el%d", i)) })
			}
		}
		if pk := o.Props["W3IDSecurityV1/publicKey"]; pk != nil && !seenV["W3IDSecurityV1"] {
			alpha = append(alpha, func(i int) M {
				id := fmt.Sprintf("https://x.example/el%d", i)
				return M{"type": "Person", "id": id, "publicKey": M{"id": id + "#key", "owner": id, "publicKeyPem": "-----BEGIN-----"}}
			})
		}
		var seqs [][]int
		var gen func(cur []int)
		gen = func(cur []int) {
			if len(cur) >= 2 {
				seqs = append(seqs, append([]int(nil), cur...))
			}
			if len(cur) == 4 {
				return
			}
			for k := range alpha {
				gen(append(cur, k))
			}
		}
		gen(nil)
		for _, lc := range listCarriers {
			for _, sq := range seqs {
				l := L{}
				for i, k := range sq {
					l = append(l, alpha[k](i))
				}
				add("canonical|list-over-several-vocabularies", withContext(o, M{"type": lc.host, "id": "https://x.example/doc", lc.prop: l}, "ActivityStreams/"+lc.host), true)
			}
		}
	}
	// F3e: long lists (5, 8, 16, 17 and 33 elements) of IRIs, of embedded objects and of both in turn, in every
	// list-carrying property of the family above and in to / cc / name
	for _, lc := range append(append([]struct{ host, prop string }(nil), listCarriers...), struct{ host, prop string }{"Note", "to"}, struct{ host, prop string }{"Create", "cc"}, struct{ host, prop string }{"Note", "name"}) {
		for _, n := range []int{5, 8, 16, 17, 33} {
			for _, kind := range []string{"iri", "embedded", "alternating"} {
				l := L{}
				for i := 0; i < n; i++ {
					switch {
					case lc.prop == "name":
						l = append(l, fmt.Sprintf("name %d", i))
					case kind == "iri" || (kind == "alternating" && i%2 == 0):
						l = append(l, fmt.Sprintf("https://x.example/long/%d", i))
					default:
						l = append(l, M{"type": "Note", "id": fmt.Sprintf("https://x.example/long/%d", i), "name": fmt.Sprintf("el%d", i)})
					}
				}
				if lc.prop == "name" && kind != "iri" {
					continue
				}
				add("canonical|long-list", withContext(o, M{"type": lc.host, "id": "https://x.example/doc", lc.prop: l}, "ActivityStreams/"+lc.host), true)
			}
		}
	}
	// F3b: canonical documents whose own @context names MORE than the document uses (every shipped
	// vocabulary; an unknown extension URL; an inline term map): the re-encoded @context names exactly
	// the vocabularies used
	for _, tk := range topTypes {
		d := M{"type": o.Types[tk].Name, "id": "https://x.example/v"}
		if o.HasProp(tk, "ActivityStreams/name") {
			d["name"] = "x"
		}
		exact := withContext(o, d, tk)
		all := L{}
		for _, v := range o.Vocabs {
			all = append(all, rawURI(v))
		}
		for vi, sup := range []interface{}{all, appendCtx(exact["@context"], "https://unknown.example/ext/v1"), appendCtx(exact["@context"], M{"Hashtag": "as:Hashtag", "sensitive": "as:sensitive"})} {
			if vi == 0 && len(all) == len(ctxSet(exact["@context"])) {
				continue
			}
			dd := M{}
			for k, v := range exact {
				dd[k] = v
			}
			dd["@context"] = sup
			cases = append(cases, c01case{class: fmt.Sprintf("canonical|context-names-more-than-used-%d", vi), doc: dd, canon: true, exactCtx: exact["@context"]})
		}
	}
	// F3c: one document carrying the same literal magnitude in different senses at different places
	// (decoding one value must not depend on which values were decoded before it)
	for _, mag := range []string{"PT5S", "P1DT2H3M4S", "P2Y", "PT0S"} {
		for _, outerNeg := range []bool{true, false} {
			a, b := "-"+mag, mag
			if !outerNeg {
				a, b = mag, "-"+mag
			}
			if mag == "PT0S" {
				a, b = "PT0S", "PT1S"
			}
			d := M{"type": "Note", "id": "https://x.example/n", "duration": a, "attachment": M{"type": "Video", "id": "https://x.example/v", "duration": b,
				"attachment": M{"type": "Audio", "id": "https://x.example/a", "duration": a}}}
			add("canonical|same-magnitude-both-signs", withContext(o, d, "ActivityStreams/Note"), true)
		}
	}
	for _, pair := range [][2]interface{}{{"2020-01-02T03:04:05Z", "2020-01-02T03:04:05+01:00"}, {float64(3), float64(30)}, {"https://x.example/u?a=1", "https://x.example/u?a=2"}} {
		d := M{"type": "Collection", "id": "https://x.example/c"}
		switch v := pair[0].(type) {
		case float64:
			d["totalItems"] = v
			d["items"] = M{"type": "Collection", "id": "https://x.example/c2", "totalItems": pair[1]}
		case string:
			if strings.HasPrefix(v, "http") {
				d["url"] = v
				d["items"] = M{"type": "Note", "id": "https://x.example/n2", "url": pair[1]}
			} else {
				d["published"] = v
				d["items"] = M{"type": "Note", "id": "https://x.example/n2", "published": pair[1], "updated": v}
			}
		}
		add("canonical|near-equal-literals-in-one-document", withContext(o, d, "ActivityStreams/Collection"), true)
	}
	// F4: accepted but non-canonical forms (no-loss and idempotence clauses only)
	nc := func(class string, d M) { add("non-canonical|"+class, withContext(o, d, "ActivityStreams/Note"), false) }
	note := func(kv ...interface{}) M {
		d := M{"type": "Note", "id": "https://x.example/n"}
		for i := 0; i+1 < len(kv); i += 2 {
			d[kv[i].(string)] = kv[i+1]
		}
		return d
	}
	nc("one-element-list", note("to", L{"https://x.example/a"}, "name", L{"x"}))
	nc("upper-case-scheme", note("to", "HTTPS://X.example/A", "url", "HTTP://x.example/%7Euser"))
	nc("string-that-parses-as-iri", note("content", "mailto:someone@x.example", "name", "urn:x"))
	nc("fractional-seconds", note("published", "2020-01-02T03:04:05.678Z"))
	nc("no-seconds", note("published", "2020-01-02T03:04Z"))
	nc("zero-duration", note("duration", "PT0S"))
	nc("big-units-duration", note("duration", "PT3600S"))
	nc("fractional-duration", note("duration", "PT1.5S"))
	nc("null-known", note("content", nil, "to", nil, "name", "x"))
	nc("name-and-nameMap", note("name", "plain", "nameMap", M{"en": "mapped"}))
	nc("content-and-contentMap", note("content", "plain", "contentMap", M{"en": "mapped"}))
	nc("list-of-maps", note("nameMap", L{M{"en": "a"}, M{"fr": "b"}}))
	nc("number-for-string", note("content", 5.0, "summary", true))
	nc("float-for-count", M{"type": "Collection", "id": "https://x.example/c", "totalItems": 2.5})
	nc("bool-as-number", M{"type": "Person", "id": "https://x.example/p", "discoverable": 1.0, "manuallyApprovesFollowers": 0.0})
	nc("type-array", M{"type": L{"Note", "Zz"}, "id": "https://x.example/n", "content": "x"})
	nc("aliased-context", M{"@context": M{"as": "https://www.w3.org/ns/activitystreams"}, "type": "as:Note", "id": "https://x.example/n", "as:content": "x"})
	nc("context-with-extras", M{"@context": L{"https://www.w3.org/ns/activitystreams", M{"ext": "https://ext.example/ns#"}}, "type": "Note", "id": "https://x.example/n", "ext:thing": "x"})
	nc("nested-context", note("attachment", M{"@context": "https://www.w3.org/ns/activitystreams", "type": "Image", "url": "https://x.example/i.png"}))
	nc("embedded-without-id", note("attachment", M{"type": "Image", "name": "no id"}))
	nc("empty-lists", note("to", L{}, "tag", L{}, "attachment", L{}))
	// language maps holding entries that are not strings (the map must then be kept whole, not thinned out)
	for vi, bad := range []interface{}{5.0, true, L{}, L{"a"}, M{"x": "y"}, nil} {
		for _, member := range []string{"contentMap", "content", "nameMap", "summaryMap"} {
			nc(fmt.Sprintf("language-map-with-non-string-entry-%d", vi), note(member, M{"en": "kept", "fr": bad}))
			nc(fmt.Sprintf("language-map-with-non-string-entry-%d", vi), note(member, M{"fr": bad}))
		}
		nc(fmt.Sprintf("language-map-with-non-string-entry-%d", vi), M{"type": "Person", "id": "https://x.example/p", "preferredUsernameMap": M{"en": "kept", "fr": bad}})
		nc(fmt.Sprintf("language-map-with-non-string-entry-%d", vi), note("attachment", M{"type": "Image", "id": "https://x.example/i", "nameMap": M{"en": "kept", "fr": bad}}))
	}
	// empty language maps and empty objects under natural-language members
	for _, member := range []string{"contentMap", "content", "nameMap", "summaryMap"} {
		nc("empty-language-map", note(member, M{}))
		nc("empty-language-map", note(member, L{M{}, M{"en": "x"}}))
		nc("empty-language-map", note("attachment", M{"type": "Image", "id": "https://x.example/i", member: M{}}))
	}
	nc("empty-language-map", M{"type": "Person", "id": "https://x.example/p", "preferredUsernameMap": M{}})
	// the library's alias form of @context ({vocabulary URI: alias}), per vocabulary
	for _, v := range o.Vocabs {
		for _, k := range o.TypeKeys() {
			t := o.Types[k]
			if t.Vocab != v.Name || t.Typeless {
				continue
			}
			nc("alias-map-context", M{"@context": L{rawURI(o.Vocabs[0]), M{rawURI(v): "zz"}}, "type": "zz:" + t.Name, "id": "https://x.example/v", "name": "x"})
			break
		}
	}
	nc("empty-string-members", note("content", "", "summary", ""))

	// ---- run ----
	res.Rule = fmt.Sprintf("documents derived from the ontology grammar: every (type, property, kind in range closure + IRI) x {scalar, list of 2, mixed list <=4, language map} (canonical), nesting depth 2-3 through object/attachment/tag/inReplyTo for every type, unknown members from a 10-value alphabet under 3 key spellings at top level and nested, every (type, name of a property the type does not have) as a member (top level; every 16th nested), lists of 2-3 same-kind elements of which exactly one (each position) nests a value of another vocabulary, literal boundaries for every property with a literal kind (extreme instants and offsets, floats with many significant digits / beyond 2^24 / tiny / huge, large counts, long and escape-laden strings), IRIs of 12 less usual URL-normal shapes (port, IPv6 literal, query, fragment, userinfo, percent-escape, punycode, no path, dot segments, empty query) as the value of every property and as ids, lists of 5, 8, 16, 17 and 33 IRIs / embedded objects / both in turn in 8 properties, every list of 2-4 elements over one element per vocabulary (x 5 carrying properties), every type under an @context that names more than it uses (all shipped vocabularies / an unknown extension URL / an inline term map), and %d accepted-but-non-canonical shapes; %d documents in total; oracle: (a) canonical: encode(decode(d)) JSON-equal to d with @context compared as a set that must equal the vocabularies the oracle says the document uses; (b) no member lost except nested @context / null for a known property, natural-language members modulo the Map spelling; (c) a second round trip changes nothing unless the document holds such a null or an array directly inside an array; non-trivial = documents the decoder accepted, distinct by (family, type, member names)", 22+6*10+len(o.Vocabs), len(cases))
	var mu sync.Mutex
	chunk := 4000
	par((len(cases)+chunk-1)/chunk, func(ci int) {
		lo, hi := ci*chunk, (ci+1)*chunk
		if hi > len(cases) {
			hi = len(cases)
		}
		type viol struct {
			key, what string
			rep       M
		}
		var vs []viol
		classes := map[string]struct{}{}
		outc := map[string]int{}
		for _, c := range cases[lo:hi] {
			in := jsonNorm(c.doc).(map[string]interface{})
			out, err, pan := roundTrip(c.doc)
			fam := strings.SplitN(c.class, "|", 2)[0]
			if pan != nil {
				outc["panic(C11)"]++
				continue
			}
			if out == nil {
				outc["rejected"]++
				if c.canon {
					vs = append(vs, viol{"canonical-document-rejected|" + c.class, fmt.Sprintf("decoder rejects %s: %v", short(in), err), M{"check": "C01", "doc": in}})
				}
				continue
			}
			outc["accepted:"+fam]++
			names := make([]string, 0, len(in))
			for k := range in {
				names = append(names, k)
			}
			sort.Strings(names)
			classes[fmt.Sprintf("%s|%v|%s", c.class, in["type"], strings.Join(names, ","))] = struct{}{}
			if c.exactCtx != nil {
				in2 := map[string]interface{}{}
				for k, v := range in {
					in2[k] = v
				}
				in2["@context"] = jsonNorm(c.exactCtx)
				in = in2
			}
			if c.canon && !equalModCtx(in, out) {
				vs = append(vs, viol{"not-json-equal|" + c.class + "|" + diffMembers(in, out), fmt.Sprintf("round trip of canonical document differs in %s: in=%s out=%s", diffMembers(in, out), short(in), short(out)), M{"check": "C01", "doc": in, "out": out}})
			}
			if lost := memberLoss(o, in, out, "", true); len(lost) > 0 {
				sort.Strings(lost)
				key := "member-dropped|" + c.class
				if strings.HasPrefix(c.class, "non-canonical|") && strings.Contains(c.class, "-and-") {
					key = "member-dropped|both-spellings-of-a-natural-language-member"
				}
				vs = append(vs, viol{key, fmt.Sprintf("members %v are silently dropped: in=%s out=%s", lost, short(in), short(out)), M{"check": "C01", "doc": in, "out": out}})
			}
			if !hasNullOrNestedArray(in, false) {
				out2, _, pan2 := roundTrip(M(out))
				if pan2 == nil && (out2 == nil || !equalModCtx(out, out2)) {
					vs = append(vs, viol{"not-idempotent|" + c.class, fmt.Sprintf("second round trip changes the document: first=%s second=%s", short(out), short(out2)), M{"check": "C01", "doc": in, "first": out, "second": out2}})
				}
			}
		}
		mu.Lock()
		defer mu.Unlock()
		res.Evaluations += hi - lo
		for k := range classes {
			res.Nontrivial[k] = struct{}{}
		}
		for k, v := range outc {
			res.Outcomes[k] += v
		}
		for _, v := range vs {
			res.Violate(v.key, v.what, v.rep)
		}
	})
	for _, i := range []int{0, len(cases) / 3, len(cases) / 2, len(cases) - 30, len(cases) - 5} {
		res.Sample(M{"class": cases[i].class, "doc": cases[i].doc})
	}
	res.Extra["documents"] = len(cases)
	res.Assumptions = []string{"the vocabulary URI of a document is compared after URL normalisation (an empty fragment is dropped)",
		"exactness is asserted for the canonical families only; non-canonical accepted forms are judged by the no-loss and idempotence clauses"}
	return res.Finish()
}

func diffMembers(a, b map[string]interface{}) string {
	var d []string
	for k, v := range a {
		if k == "@context" {
			if !reflect.DeepEqual(ctxSet(v), ctxSet(b[k])) {
				d = append(d, "@context")
			}
			continue
		}
		if !reflect.DeepEqual(v, b[k]) {
			d = append(d, memberClass(k))
		}
	}
	for k := range b {
		if _, ok := a[k]; !ok {
			d = append(d, "+"+memberClass(k))
		}
	}
	sort.Strings(d)
	if len(d) > 3 {
		d = d[:3]
	}
	return strings.Join(d, ",")
}

func memberClass(k string) string { return k }
