#!/bin/bash
# setup_cmd: warm the build cache for every checker, offline, from files on disk only.
# (run.sh rebuilds incrementally on every invocation; nothing built here is required by it.)
cd "$(dirname "$0")"
export GOFLAGS=-mod=mod GOPROXY=off GOSUMDB=off GOTOOLCHAIN=local GOCACHE=/verif/.gocache
mkdir -p bin evidence replays
T=bin/setup.$$; mkdir -p $T; trap 'rm -rf "$T" ".overlay.$$"' EXIT
go run ./cmd/mkbind bind/zz_bind.go github.com/go-fed/activity/streams \
   /repo/astool/activitystreams.jsonld /repo/astool/security-v1.jsonld /repo/astool/toot.jsonld /repo/astool/forgefed.jsonld || exit 1
go build -trimpath -o $T/verif ./cmd/verif || exit 1
go build -trimpath -o $T/verifs ./cmd/verifs || exit 1
go build -trimpath -o $T/verifa ./cmd/verifa || exit 1
# pre-build the race-instrumented test binary and the overlay build (warm caches)
go test -race -count=1 -run XXX ./racetest/ > /dev/null 2>&1
go run ./cmd/mkoverlay /repo "$(pwd)/.overlay.$$" && go build -tags verifoverlay -overlay .overlay.$$/overlay.json -o $T/verift ./cmd/verift
echo setup-ok
