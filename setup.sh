#!/bin/bash
# setup_cmd: warm the build cache and build the checkers, offline, from files on disk only.
cd "$(dirname "$0")"
export GOFLAGS=-mod=mod GOPROXY=off GOSUMDB=off GOTOOLCHAIN=local GOCACHE=/verif/.gocache
mkdir -p bin evidence replays
go run ./cmd/mkbind bind/zz_bind.go github.com/go-fed/activity/streams \
   /repo/astool/activitystreams.jsonld /repo/astool/security-v1.jsonld /repo/astool/toot.jsonld /repo/astool/forgefed.jsonld || exit 1
go build -trimpath -o bin/verif ./cmd/verif || exit 1
go build -trimpath -o bin/verifs ./cmd/verifs || exit 1
# pre-build the race-instrumented test binary and the overlay build (warm caches)
go test -race -count=1 -run XXX ./racetest/ > /dev/null 2>&1
go run ./cmd/mkoverlay /repo "$(pwd)/.overlay" && go build -tags verifoverlay -overlay .overlay/overlay.json -o bin/verift ./cmd/verift
echo setup-ok
