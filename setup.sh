#!/bin/bash
# setup_cmd: warm the build cache and build the checkers, offline, from files on disk only.
cd "$(dirname "$0")"
export GOFLAGS=-mod=mod GOPROXY=off GOSUMDB=off GOTOOLCHAIN=local GOCACHE=/verif/.gocache
mkdir -p bin evidence replays
go run ./cmd/mkbind bind/zz_bind.go github.com/go-fed/activity/streams \
   /repo/astool/activitystreams.jsonld /repo/astool/security-v1.jsonld /repo/astool/toot.jsonld /repo/astool/forgefed.jsonld || exit 1
go build -trimpath -o bin/verif ./cmd/verif || exit 1
go build -trimpath -o bin/verifs ./cmd/verifs || exit 1
echo setup-ok
