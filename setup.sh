#!/bin/bash
# setup_cmd: warm the build cache and build the checker, offline, from files on disk only.
cd "$(dirname "$0")"
export GOFLAGS=-mod=mod GOPROXY=off GOSUMDB=off GOTOOLCHAIN=local GOCACHE=/verif/.gocache
mkdir -p bin evidence
go build -trimpath -o bin/verif ./cmd/verif || exit 1
echo setup-ok
