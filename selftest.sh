#!/bin/bash
# selftest.sh [pattern] — run the checks against /verif/mutants/*.patch (own deliberate property-breaking
# changes). For each: the change must compile and keep the 700 baseline tests green in a scratch
# worktree (else it is not a "surviving" change), and the property's quick check must report a VIOLATION.
export GOFLAGS=-mod=mod GOPROXY=off GOSUMDB=off GOTOOLCHAIN=local
WT=/tmp/selftest-wt
git -C /repo worktree remove --force $WT 2>/dev/null
git -C /repo worktree add --detach $WT HEAD -q || exit 2
trap "git -C /repo worktree remove --force $WT" EXIT
for p in /verif/mutants/${1:-*}.patch; do
  n=$(basename $p .patch); prop=${n%%-*}
  git -C $WT checkout -q -- . ; git -C $WT apply $p 2>/dev/null || { echo "$n: PATCH-DOES-NOT-APPLY"; continue; }
  (cd $WT && go build ./... 2>/dev/null) || { echo "$n: DOES-NOT-COMPILE"; continue; }
  if [ "$SKIP_BASELINE" != 1 ]; then
    /verif/baseline.sh $WT > /tmp/selftest.base 2>&1 || { echo "$n: BASELINE-TESTS-CATCH-IT ($(grep -c 'NOT PASSING' /tmp/selftest.base) tests)"; continue; }
  fi
  out=$(timeout 1800 /verif/seedtest.sh $p $prop 2>&1)
  if echo "$out" | grep -q "^VIOLATION"; then echo "$n: DETECTED [$(echo "$out" | grep -m1 '^  key=' | sed 's/^  key=//')]"; else echo "$n: NOT DETECTED"; fi
done
