// Package mc is the explorer: executions of real code are determined by the list of choices
// taken at their choice points; Explore enumerates, depth-first, every choice list whose
// cumulative cost per kind (preemptions, faults, environment deviations) fits a budget.
// An optional state key per point gives sound visited-state pruning (see DESIGN.md 2.1).
package mc

import (
	"fmt"
	"hash/fnv"
	"time"
)

// Kind of a choice point.
type Kind int

const (
	KSched Kind = iota // which thread runs next; cost 1 = preemption of a still-enabled thread
	KFault             // 0 = the call proceeds, 1 = the call fails
	KEnv               // a non-default environment answer
	nKinds
)

func (k Kind) String() string { return [...]string{"sched", "fault", "env"}[k] }

// PointRec is one recorded choice point of an execution.
type PointRec struct {
	Kind   Kind
	N      int    // number of alternatives
	Chosen int    // alternative taken
	Costs  []int  // cost per alternative (nil = alternative 0 costs 0, others 1)
	Key    uint64 // state key just before the choice (0 = none)
	Label  string
}

func (p *PointRec) cost(alt int) int {
	if p.Costs != nil {
		return p.Costs[alt]
	}
	if alt == 0 {
		return 0
	}
	return 1
}

// Nondeterminism is raised (as a panic) when replaying a prefix meets a choice point
// that does not admit the recorded choice.
type Nondeterminism struct{ Msg string }

func (n Nondeterminism) Error() string { return "nondeterminism: " + n.Msg }

// Exec is one execution.
type Exec struct {
	prefix []int
	Points []PointRec
	// Data the harness attaches.
	Tag interface{}
}

// NewExec builds an execution that replays prefix then takes defaults.
func NewExec(prefix []int) *Exec { return &Exec{prefix: prefix} }

// Replaying reports whether the execution is still inside its prefix.
func (x *Exec) Replaying() bool { return len(x.Points) < len(x.prefix) }

// Choose is a choice point with n alternatives. Alternative 0 is the default.
func (x *Exec) Choose(kind Kind, n int, costs []int, key uint64, label string) int {
	if n <= 0 {
		panic(Nondeterminism{fmt.Sprintf("choice point %q with %d alternatives", label, n)})
	}
	c := 0
	i := len(x.Points)
	if i < len(x.prefix) {
		c = x.prefix[i]
		if c < 0 || c >= n {
			panic(Nondeterminism{fmt.Sprintf("replay point %d %q: recorded choice %d but %d alternatives", i, label, c, n)})
		}
	}
	x.Points = append(x.Points, PointRec{Kind: kind, N: n, Chosen: c, Costs: costs, Key: key, Label: label})
	return c
}

// Choices returns the list of choices made.
func (x *Exec) Choices() []int {
	out := make([]int, len(x.Points))
	for i, p := range x.Points {
		out[i] = p.Chosen
	}
	return out
}

// Explorer drives the depth-first enumeration.
type Explorer struct {
	// Budget per kind; negative = unbounded.
	Budget [nKinds]int
	// Run executes one execution of the system under test and checks it. It returns
	// false to stop the whole exploration (e.g. a violation was found and recorded).
	Run func(x *Exec) bool
	// Prune enables visited (state key, alternative) pruning for points that carry a key.
	Prune bool
	// MaxExecs / Deadline cap the run; hitting either clears Exhaustive.
	MaxExecs int
	Deadline time.Time

	Execs       int
	PointsSeen  int
	Transitions int
	Pruned      int
	MaxPoints   int
	Exhaustive  bool
	Stopped     bool
	visited     map[vkey]struct{}
	States      map[uint64]struct{}
}

type vkey struct {
	key  uint64
	alt  int
	used [nKinds]int
}

// Explore enumerates everything within budget. It returns false if Run stopped it.
func (e *Explorer) Explore() bool {
	e.Exhaustive = true
	e.visited = map[vkey]struct{}{}
	e.States = map[uint64]struct{}{}
	return e.explore(nil, [nKinds]int{})
}

func (e *Explorer) capped() bool {
	if e.MaxExecs > 0 && e.Execs >= e.MaxExecs {
		return true
	}
	if !e.Deadline.IsZero() && e.Execs%64 == 0 && time.Now().After(e.Deadline) {
		return true
	}
	return false
}

func (e *Explorer) explore(prefix []int, usedAtPrefixEnd [nKinds]int) bool {
	if e.capped() {
		e.Exhaustive = false
		return true
	}
	x := NewExec(prefix)
	e.Execs++
	ok := e.Run(x)
	e.PointsSeen += len(x.Points)
	if len(x.Points) > e.MaxPoints {
		e.MaxPoints = len(x.Points)
	}
	if !ok {
		e.Stopped = true
		return false
	}
	used := usedAtPrefixEnd
	for i := len(prefix); i < len(x.Points); i++ {
		p := &x.Points[i]
		if p.Key != 0 {
			e.States[p.Key] = struct{}{}
		}
		e.Transitions++
		for alt := 1; alt < p.N; alt++ {
			nu := used
			nu[p.Kind] += p.cost(alt)
			if e.Budget[p.Kind] >= 0 && nu[p.Kind] > e.Budget[p.Kind] {
				continue
			}
			if e.Prune && p.Key != 0 {
				vk := vkey{key: p.Key, alt: alt}
				for k := range vk.used {
					if e.Budget[k] >= 0 { // a state reached with less budget used has more futures
						vk.used[k] = used[k]
					}
				}
				if _, seen := e.visited[vk]; seen {
					e.Pruned++
					continue
				}
				e.visited[vk] = struct{}{}
			}
			np := make([]int, i+1)
			for j := 0; j < i; j++ {
				np[j] = x.Points[j].Chosen
			}
			np[i] = alt
			if !e.explore(np, nu) {
				return false
			}
		}
		// the default continuation at this point costs p.cost(0) (normally 0)
		used[p.Kind] += p.cost(p.Chosen)
	}
	return true
}

// Hash helpers ------------------------------------------------------------------------------

// H is a small incremental hash.
type H struct{ v uint64 }

func NewH() *H { return &H{14695981039346656037} }

func (h *H) Str(s string) *H {
	for i := 0; i < len(s); i++ {
		h.v ^= uint64(s[i])
		h.v *= 1099511628211
	}
	h.v ^= 0xff
	h.v *= 1099511628211
	return h
}

func (h *H) Bytes(b []byte) *H {
	for i := 0; i < len(b); i++ {
		h.v ^= uint64(b[i])
		h.v *= 1099511628211
	}
	h.v ^= 0xfe
	h.v *= 1099511628211
	return h
}

func (h *H) U64(u uint64) *H {
	for i := 0; i < 8; i++ {
		h.v ^= (u >> (8 * uint(i))) & 0xff
		h.v *= 1099511628211
	}
	return h
}

func (h *H) Sum() uint64 {
	if h.v == 0 {
		return 1
	}
	return h.v
}

// HashStr hashes a string (FNV-1a 64).
func HashStr(s string) uint64 {
	f := fnv.New64a()
	f.Write([]byte(s))
	return f.Sum64()
}
