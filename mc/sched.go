package mc

import (
	"fmt"
	"runtime/debug"
	"sort"
	"strings"
)

// Op describes the operation a thread is about to perform at a scheduling point.
type Op struct {
	Name    string
	Res     string // resource (lock id, channel, ...) if any
	Acquire bool   // blocking acquisition of Res: enabled iff Res is free
	// Enabled, if non-nil, overrides the enabledness test (used by the sync shims).
	Enabled func() bool
}

// T is one controlled thread.
type T struct {
	ID     int
	Name   string
	resume chan struct{}
	done   bool
	pend   Op
	hist   *H
	Steps  int
	f      func(t *T)
	// Panic is the value of a genuine panic that ended the thread (nil otherwise).
	Panic      interface{}
	PanicStack string
	s          *Sched
}

type abortSentinel struct{}

// Sched is a cooperative scheduler: exactly one controlled thread runs at a time and the
// explorer picks the next one at every Point.
type Sched struct {
	X        *Exec
	threads  []*T
	cur      int
	parked   chan struct{}
	Aborting bool
	// Outcome
	Deadlock     bool
	DeadlockInfo string
	Horizon      int // max steps per thread (0 = 4000)
	HorizonHit   bool
	// Locks is the table of held resources: resource -> holder thread id.
	Locks map[string]int
	// KeyFn hashes the shared application state (nil = no state keys).
	KeyFn func() uint64
	// Schedule records which thread ran at each scheduling step ("tid:op").
	Trace []string
}

// NewSched builds a scheduler bound to one execution.
func NewSched(x *Exec) *Sched {
	return &Sched{X: x, cur: -1, parked: make(chan struct{}), Locks: map[string]int{}}
}

// Go registers a thread; it starts running when Run picks it.
func (s *Sched) Go(name string, f func(t *T)) *T {
	t := &T{ID: len(s.threads), Name: name, resume: make(chan struct{}), hist: NewH(), f: f, s: s,
		pend: Op{Name: "start"}}
	s.threads = append(s.threads, t)
	return t
}

// Spawn registers and starts a thread while the scheduler is already running (used by the
// `go` statement shim). The new thread is parked at its start point; the caller continues.
func (s *Sched) Spawn(name string, f func(t *T)) *T {
	t := s.Go(name, f)
	go s.body(t)
	return t
}

func (s *Sched) body(t *T) {
	defer func() {
		if r := recover(); r != nil {
			if _, ok := r.(abortSentinel); !ok {
				t.Panic = r
				t.PanicStack = string(debug.Stack())
			}
		}
		t.done = true
		s.parked <- struct{}{}
	}()
	<-t.resume
	if s.Aborting {
		panic(abortSentinel{})
	}
	t.f(t)
}

// Observe folds a result the thread has seen into its history hash.
func (t *T) Observe(s string) { t.hist.Str(s) }

// Point is a scheduling point: the calling thread parks until the explorer resumes it.
func (s *Sched) Point(t *T, op Op) {
	if s.Aborting {
		return
	}
	t.Steps++
	h := s.Horizon
	if h == 0 {
		h = 4000
	}
	if t.Steps > h {
		s.HorizonHit = true
		s.Aborting = true
		panic(abortSentinel{})
	}
	t.hist.Str(op.Name).Str(op.Res)
	t.pend = op
	s.parked <- struct{}{}
	<-t.resume
	if s.Aborting {
		panic(abortSentinel{})
	}
	if op.Acquire {
		s.Locks[op.Res] = t.ID
	}
}

// Release frees a resource held by anyone.
func (s *Sched) Release(res string) { delete(s.Locks, res) }

func (s *Sched) enabled(t *T) bool {
	if t.done {
		return false
	}
	if t.pend.Enabled != nil {
		return t.pend.Enabled()
	}
	if t.pend.Acquire {
		_, held := s.Locks[t.pend.Res]
		return !held
	}
	return true
}

func (s *Sched) key(used string) uint64 {
	if s.KeyFn == nil {
		return 0
	}
	h := NewH()
	h.U64(s.KeyFn())
	ks := make([]string, 0, len(s.Locks))
	for k, v := range s.Locks {
		ks = append(ks, fmt.Sprintf("%s=%d", k, v))
	}
	sort.Strings(ks)
	for _, k := range ks {
		h.Str(k)
	}
	for _, t := range s.threads {
		if t.done {
			h.Str("done")
		} else {
			h.Str(t.pend.Name).Str(t.pend.Res)
		}
		h.U64(t.hist.Sum())
	}
	h.U64(uint64(s.cur + 1))
	return h.Sum()
}

// Run runs all registered threads to completion (or deadlock / horizon).
func (s *Sched) Run() {
	for _, t := range s.threads {
		go s.body(t)
	}
	started := len(s.threads)
	for {
		// threads spawned while running were started by Spawn
		_ = started
		var en []*T
		var curT *T
		for _, t := range s.threads {
			if s.enabled(t) {
				if t.ID == s.cur {
					curT = t
				} else {
					en = append(en, t)
				}
			}
		}
		if curT != nil {
			en = append([]*T{curT}, en...)
		}
		if len(en) == 0 {
			all := true
			for _, t := range s.threads {
				if !t.done {
					all = false
				}
			}
			if !all {
				s.Deadlock = true
				var sb strings.Builder
				for _, t := range s.threads {
					if !t.done {
						fmt.Fprintf(&sb, "[thread %d %s waits at %s(%s) held-by=%v] ", t.ID, t.Name, t.pend.Name, t.pend.Res, s.Locks[t.pend.Res])
					}
				}
				s.DeadlockInfo = sb.String()
				s.abortAll()
			}
			return
		}
		idx := 0
		if len(en) > 1 {
			var costs []int
			if curT != nil {
				costs = make([]int, len(en))
				for i := 1; i < len(en); i++ {
					costs[i] = 1
				}
			} else {
				costs = make([]int, len(en)) // free switch: the running thread blocked or finished
			}
			idx = s.X.Choose(KSched, len(en), costs, s.key(""), "sched")
		}
		next := en[idx]
		s.cur = next.ID
		s.Trace = append(s.Trace, fmt.Sprintf("%d:%s(%s)", next.ID, next.pend.Name, short(next.pend.Res)))
		next.resume <- struct{}{}
		<-s.parked
		if s.Aborting {
			s.abortAll()
			return
		}
	}
}

func short(s string) string {
	if i := strings.Index(s, "://"); i >= 0 {
		s = s[i+3:]
		if j := strings.Index(s, "/"); j >= 0 {
			s = s[j:]
		}
	}
	return s
}

func (s *Sched) abortAll() {
	s.Aborting = true
	for _, t := range s.threads {
		if !t.done {
			t.resume <- struct{}{}
			<-s.parked
		}
	}
}

// Threads returns the controlled threads.
func (s *Sched) Threads() []*T { return s.threads }

// Current returns the thread that is running now (nil before the first pick).
func (s *Sched) Current() *T {
	if s.cur < 0 || s.cur >= len(s.threads) {
		return nil
	}
	return s.threads[s.cur]
}
