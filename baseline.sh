#!/bin/bash
# Runs the repository's own test suite (hook guard OFF: no build tags, no overlays) and checks that
# every test listed as stable in /root/.vp/BASELINE.json passes.  usage: baseline.sh [repo-dir]
export GOFLAGS=-mod=mod GOPROXY=off GOSUMDB=off GOTOOLCHAIN=local
REPO=${1:-/repo}
OUT=$(mktemp)
(cd "$REPO" && go test -json -vet=off -count=1 -timeout 25m ./... > "$OUT" 2>/dev/null)
python3 - "$OUT" <<'PY'
import json,sys
passed=set(); failed=set()
for l in open(sys.argv[1]):
    try: e=json.loads(l)
    except Exception: continue
    if e.get('Test') and e.get('Action') in ('pass','fail'):
        (passed if e['Action']=='pass' else failed).add(e['Package']+'::'+e['Test'])
try:
    base=set(json.load(open('/root/.vp/BASELINE.json'))['stable_pass'])
except Exception:
    base=None
if base is None:
    print('baseline file unavailable; passed=%d failed=%d'%(len(passed),len(failed))); sys.exit(0 if passed else 1)
missing=sorted(base-passed)
print('baseline stable=%d passed_now=%d missing=%d'%(len(base),len(passed),len(missing)))
for m in missing[:20]: print('  NOT PASSING:',m)
sys.exit(1 if missing else 0)
PY
rc=$?
rm -f "$OUT"
exit $rc
