#!/usr/bin/env python3
"""Regenerates the table of DESIGN.md section 10.2 from /verif/seeded/*/meta.json."""
import json, glob, os, re
root = os.path.dirname(os.path.abspath(__file__))
rows = []
for p in sorted(glob.glob(os.path.join(root, 'seeded', '*', 'meta.json'))):
    m = json.load(open(p))
    sid = os.path.basename(os.path.dirname(p))
    det = m.get('detected_by')
    if isinstance(det, list):
        det = '; '.join(det) if det else 'NOT DETECTED'
    rows.append('| %s | %s | %s |' % (sid, m.get('needs_to_manifest', '').replace('|', '\\|'), str(det).replace('|', '\\|')))
design = os.path.join(root, 'DESIGN.md')
s = open(design).read()
head = '| Seed | Needs, to manifest | Detected by [first violation key] |\n|------|--------------------|-----------------------------------|\n'
i = s.index(head)
s = s[:i] + head + '\n'.join(rows) + '\n'
open(design, 'w').write(s)
print(len(rows), 'rows;', sum('NOT DETECTED' in r for r in rows), 'not detected')
