#!/bin/bash
# mkseedjobs.sh <root> [Cnn...] — prepare scratch worktrees for a round of independently seeded changes:
# <root>/<Cnn>/wt (detached worktree of /repo HEAD), <root>/<Cnn>/out/{m1,m2}, <root>/<Cnn>/PROMPT.txt
# (property title + statement only; nothing from /verif apart from the baseline helper).
ROOT=${1:?root}; shift
ids=${@:-$(python3 -c "import json;print(' '.join(json.loads(l)['id'] for l in open('/verif/properties.jsonl')))")}
mkdir -p $ROOT; cp /verif/baseline.sh $ROOT/baseline.sh
for id in $ids; do
  mkdir -p $ROOT/$id/out/m1 $ROOT/$id/out/m2
  [ -d $ROOT/$id/wt ] || git -C /repo worktree add --detach $ROOT/$id/wt HEAD -q
  python3 - $id $ROOT <<'PY'
import json,sys
id,root=sys.argv[1],sys.argv[2]
p=[json.loads(l) for l in open('/verif/properties.jsonl') if json.loads(l)['id']==id][0]
open('%s/%s/PROMPT.txt'%(root,id),'w').write('''You are testing how well a verification effort can detect subtle regressions in the Go library go-fed/activity
(ActivityStreams / ActivityPub: `astool` generates the `streams` vocabulary package from RDF ontologies, `pub` implements the
client-to-server / server-to-server side effects and delivery). You have your own scratch git worktree of the library at
%(root)s/%(id)s/wt (work ONLY there and under %(root)s/%(id)s/; never touch /repo or /verif, and do not read /verif).

The property under study ("%(title)s"):

  %(statement)s

Task: produce TWO different, realistic changes to the library (not to its tests) that each BREAK this property while the library
still compiles and its existing test suite still passes. Each must need something specific to manifest - a particular
interleaving, a fault at a particular point, a multi-step sequence of operations, an unusual-but-legal input or configuration,
or two cooperating sites that each look fine alone - NOT something ordinary use or the obvious happy-path check would expose at
once. The obvious sites and the obvious defect classes have been used in earlier rounds, so look at helper functions,
less-travelled branches, rarely combined options, interactions between two features, and different clauses of the property
than the first one that comes to mind; the two changes should break different clauses or live in different code. Make them look
like plausible maintenance edits (refactor, "optimisation", "simplification"), small (a few lines, a couple of sites at most).
If a change touches generated code under streams/, also change the generator under astool/ consistently where that is practical
(or say in the notes that only the generated file was edited).

Environment: no network. In every shell call first run
  export GOFLAGS=-mod=mod GOPROXY=off GOSUMDB=off GOTOOLCHAIN=local
The existing test suite is checked with `%(root)s/baseline.sh %(root)s/%(id)s/wt` (prints `baseline stable=700 passed_now=... missing=N`,
exit 0 iff all 700 stable tests still pass; takes a few minutes - some tests in the repository always fail, they are not in the
stable list). `go build ./...` must succeed.

For each change k in {1,2} write into %(root)s/%(id)s/out/m<k>/:
  patch.diff    - `git diff` of the library change only (must apply with `git apply` to a clean checkout of the worktree's HEAD)
  demo_test.go  - a Go test file (package `pub`, `streams` or the package concerned; self-contained, uniquely named Test
                  functions and helpers prefixed so they cannot clash, e.g. TestSeed%(id)sM<k>...) that FAILS with the change and
                  PASSES without it when copied into the package directory and run with
                  `go test -vet=off -count=1 -run <its tests> ./<dir>/`. It must fail deterministically (no sleeps-as-oracle
                  flakiness; for interleavings, force the schedule with channels/hooks in the test's own fake application).
  NOTES.md      - what was changed, why it breaks the property (which clause), exactly what is needed for it to manifest,
                  and the commands you ran with their results (build, baseline with patch, demo with patch, demo without).
Verify all of it yourself: apply the patch, build, run the baseline script, run the demo (fails), revert the patch
(`git checkout -- . && git clean -fdq` in the worktree, keeping out/; never use `git stash`: all scratch worktrees share one stash), run the demo (passes). Leave the worktree clean
(no patch applied, no demo file) when done. Your final message: two lines, one per change, saying what it needs to manifest.
''' % dict(root=root,id=id,title=p['title'],statement=p['statement']))
PY
done
echo prepared $ids under $ROOT
