#!/bin/bash
# run.sh <Cnn> <quick|thorough>   |   run.sh replay <path>
# Rebuilds the checker from /repo's current working tree (go build is incremental) and runs one check.
cd "$(dirname "$0")"
export GOFLAGS=-mod=mod GOPROXY=off GOSUMDB=off GOTOOLCHAIN=local GOCACHE=/verif/.gocache
export VERIF_ROOT="$(pwd)"
mkdir -p bin evidence
if ! go build -trimpath -o bin/verif ./cmd/verif 2> bin/build.err; then
  # A tree that no longer compiles against the checkers is a tool error, not a verdict.
  cat bin/build.err >&2
  echo "BUILD-ERROR: the checker does not compile against /repo's current tree" >&2
  exit 2
fi
exec ./bin/verif "$@"
