#!/bin/bash
# run.sh <Cnn> <quick|thorough>   |   run.sh replay <path>
# Rebuilds the checkers from /repo's current working tree (go build is incremental) and runs one check.
# Safe to run several instances at once: builds are serialised with flock and every instance runs its
# own copy of the binaries / overlay directory.
cd "$(dirname "$0")"
export GOFLAGS=-mod=mod GOPROXY=off GOSUMDB=off GOTOOLCHAIN=local GOCACHE=/verif/.gocache
export VERIF_ROOT="$(pwd)"
REPO=${VERIF_REPO:-/repo}
mkdir -p bin evidence replays
RUN=bin/run.$$
mkdir -p $RUN
if [ "$REPO" != "/repo" ]; then
  # checks against a scratch copy of the repository (pseedrun.sh): same module, other replace target
  sed "s#^replace github.com/go-fed/activity => .*#replace github.com/go-fed/activity => $REPO#" go.mod > $RUN/go.mod
  cp go.sum $RUN/go.sum
  export GOFLAGS="$GOFLAGS -modfile=$(pwd)/$RUN/go.mod"
  export VERIF_REPO="$REPO"
fi
trap 'rm -rf "$RUN" ".overlay.$$"' EXIT
build() { # build <output> <go build args...>
  local out=$1; shift
  flock bin/.buildlock go build -trimpath -o "$out" "$@"
}
if [ "$1" = "replay" ]; then
  # replay <file>: schedules recorded by C08/C09 are re-executed step by step; every other violation
  # is replayed by re-running the originating check at the recorded tier and looking for the same key.
  [ -f "$2" ] || { echo "no such replay file: $2" >&2; exit 2; }
  prop=$(jq -r .property "$2"); tier=$(jq -r '.tier // "quick"' "$2"); key=$(jq -r .key "$2")
  if ! jq -e '(.replay.check=="C08" or .replay.check=="C09") and (.replay.choices|type=="array")' "$2" > /dev/null 2>&1; then
    echo "replaying $prop key=$key by re-running the $tier check"
    VERIF_REPLAY_KEY="$key" exec "$0" "$prop" "$tier"
  fi
fi
case "$1" in
  C01|C12|C13|C14|C18)
    # streams checks: regenerate the binding table from the current vocabulary files, then build
    # (the table is a build input shared by all instances: regenerate and build under one lock)
    if ! flock bin/.bindlock bash -c "go run ./cmd/mkbind bind/zz_bind.go github.com/go-fed/activity/streams \
         $REPO/astool/activitystreams.jsonld $REPO/astool/security-v1.jsonld $REPO/astool/toot.jsonld $REPO/astool/forgefed.jsonld \
         && go build -trimpath -o $RUN/verifs ./cmd/verifs" 2> $RUN/build-s.err; then
      cat $RUN/build-s.err >&2
      if grep -q "bind/zz_bind.go" $RUN/build-s.err; then
        # the generated API lacks a type / property / predicate the ontology prescribes
        cp $RUN/build-s.err replays/$1-binding-does-not-compile.txt
        python3 - "$1" "$2" <<'PY'
import json,sys
id,tier=sys.argv[1],sys.argv[2]
json.dump({"property_id":id,"tier":tier,"seed":0,"level":"exploration","wall_s":0.0,"violations":1,
 "coverage":{"evaluations":1,"distinct_nontrivial":2,"rule":"binding table generated from the ontology must compile against the generated API","samples":["binding table does not compile"],"exhaustive":False}},
 open("/verif/evidence/%s.json"%id,"w"),indent=1)
PY
        echo "VIOLATION property=$1 replay=$(pwd)/replays/$1-binding-does-not-compile.txt"
        exit 1
      fi
      echo "BUILD-ERROR: the streams checker does not compile against the current tree" >&2
      exit 2
    fi
    ./$RUN/verifs "$@"
    exit $?
    ;;
esac
if [ "$1" = "C08" ]; then
  # supplementary free-running pass under the race detector
  VERIF_TIER=$2 timeout 1200 go test -race -count=1 ./racetest/ -run TestC08 > $RUN/c08race.log 2>&1
  export VERIF_C08_RACE="$(pwd)/$RUN/c08race.log"
fi
if [ "$1" = "C11" ]; then
  # supplementary free-running pass: concurrent decoding under the race detector
  timeout 900 go test -race -count=1 ./racetest/ -run TestC11 > $RUN/c11race.log 2>&1
  export VERIF_C11_RACE="$(pwd)/$RUN/c11race.log"
fi
if [ "$1" = "C15" ]; then
  build $RUN/verifa ./cmd/verifa || { echo "BUILD-ERROR: verifa" >&2; exit 2; }
  ./$RUN/verifa "$@"
  exit $?
fi
if [ "$1" = "C19" ]; then
  # schedule exploration needs pub/transport.go rebuilt through the sync overlay; if the current
  # file cannot be rewritten or built that way the check runs without it (exhaustive:false)
  unset VERIF_C19_SCHED
  OV="$(pwd)/.overlay.$$"
  if go run ./cmd/mkoverlay $REPO "$OV" 2> $RUN/overlay.err && \
     flock bin/.buildlock go build -tags verifoverlay -overlay $OV/overlay.json -o $RUN/verift ./cmd/verift 2>> $RUN/overlay.err; then
    export VERIF_C19_SCHED="$(pwd)/$RUN/verift"
  else
    echo "C19: sync overlay unavailable for the current pub/transport.go:" >&2; head -5 $RUN/overlay.err >&2
  fi
  # supplementary free-running pass under the race detector
  VERIF_TIER=$2 timeout 900 go test -race -count=1 ./racetest/ -run TestC19 > $RUN/c19race.log 2>&1
  export VERIF_C19_RACE="$(pwd)/$RUN/c19race.log"
fi
if ! build $RUN/verif ./cmd/verif 2> $RUN/build.err; then
  # A tree that no longer compiles against the checkers is a tool error, not a verdict.
  cat $RUN/build.err >&2
  echo "BUILD-ERROR: the checker does not compile against the current tree" >&2
  exit 2
fi
./$RUN/verif "$@"
exit $?
