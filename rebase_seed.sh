#!/bin/bash
# rebase_seed.sh <seed-dir> <base-commit>: re-express a seeded patch (made against <base-commit>) on /repo HEAD.
# Writes <seed-dir>/patch.diff (rebased; original kept as patch.orig.diff). Exit 1 on conflict.
D=$1; BASE=$2
WT=/tmp/rebase-$$
[ -f $D/patch.orig.diff ] || cp $D/patch.diff $D/patch.orig.diff
if git -C /repo apply --check $D/patch.orig.diff 2>/dev/null; then cp $D/patch.orig.diff $D/patch.diff; echo "applies-as-is $D"; exit 0; fi
git -C /repo worktree add --detach $WT $BASE -q || exit 2
trap "git -C /repo worktree remove --force $WT" EXIT
cd $WT && git apply $D/patch.orig.diff && git add -A && git -c user.name=seed -c user.email=seed@x commit -qm seed || { echo "CANNOT-APPLY-ON-BASE $D"; exit 1; }
if git -c user.name=seed -c user.email=seed@x rebase -q $(git -C /repo rev-parse HEAD) 2>/dev/null; then
  git diff HEAD~1 HEAD > $D/patch.diff; echo "rebased $D"
else
  git rebase --abort 2>/dev/null; echo "CONFLICT $D"; exit 1
fi
