#!/usr/bin/env python3
"""applyseedlog.py <log>: copy the 'id -> detections' lines of a pseedrun.sh / seedrun.sh log (e.g. from a
`vp run` snapshot) into /verif/seeded/<id>/meta.json."""
import json, sys, re, os
n = 0
for l in open(sys.argv[1]):
    m = re.match(r'^(C\d+-m\d+) -> +(.*)$', l.strip())
    if not m:
        continue
    sid, det = m.group(1), m.group(2).strip()
    p = '/verif/seeded/%s/meta.json' % sid
    if not os.path.exists(p):
        continue
    meta = json.load(open(p))
    meta['detected_by'] = [] if det == 'NOT DETECTED' else det.split(' ')
    meta['ran'] = "pseedrun.sh: patch applied to a scratch worktree of /repo; VERIF_REPO=<worktree> ./run.sh <check> quick"
    json.dump(meta, open(p, 'w'), indent=1)
    n += 1
print(n, 'seeds updated;', 'log', sys.argv[1])
