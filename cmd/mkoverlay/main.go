// Command mkoverlay writes a go build overlay that replaces pub/transport.go by a copy whose
// synchronisation goes through the zzsync shim:  mkoverlay <repo> <outdir>
// Exit 3 = the file uses a construct the rewriter does not support (callers fall back).
package main

import (
	"bytes"
	"encoding/json"
	"fmt"
	"go/ast"
	"go/format"
	"go/parser"
	"go/token"
	"os"
	"path/filepath"
	"strconv"
)

func unsupported(fset *token.FileSet, n ast.Node, what string) {
	fmt.Fprintf(os.Stderr, "mkoverlay: unsupported construct at %s: %s\n", fset.Position(n.Pos()), what)
	os.Exit(3)
}

func main() {
	repo, outdir := os.Args[1], os.Args[2]
	src := filepath.Join(repo, "pub", "transport.go")
	fset := token.NewFileSet()
	f, err := parser.ParseFile(fset, src, nil, parser.ParseComments)
	if err != nil {
		fmt.Fprintln(os.Stderr, err)
		os.Exit(2)
	}
	// import "sync" -> the shim, under the same name
	found := false
	for _, im := range f.Imports {
		if im.Path.Value == strconv.Quote("sync") {
			im.Path.Value = strconv.Quote("github.com/go-fed/activity/pub/zzsync")
			im.Name = ast.NewIdent("sync")
			found = true
		}
		if im.Path.Value == strconv.Quote("sync/atomic") {
			unsupported(fset, im, "sync/atomic")
		}
	}
	if !found {
		unsupported(fset, f, "pub/transport.go no longer imports sync")
	}
	tmp := 0
	chosen := map[ast.Stmt]bool{} // communications of a select case the scheduler has already chosen: they cannot block
	// rewrite statement lists
	var rewriteList func(list []ast.Stmt) []ast.Stmt
	rewriteList = func(list []ast.Stmt) []ast.Stmt {
		var out []ast.Stmt
		for _, st := range list {
			if chosen[st] {
				out = append(out, st)
				continue
			}
			switch s := st.(type) {
			case *ast.GoStmt:
				// evaluate the arguments now, run the call on a controlled thread
				var pre []ast.Stmt
				call := s.Call
				for i, a := range call.Args {
					tmp++
					name := fmt.Sprintf("zzarg%d", tmp)
					pre = append(pre, &ast.AssignStmt{Lhs: []ast.Expr{ast.NewIdent(name)}, Tok: token.DEFINE, Rhs: []ast.Expr{a}})
					call.Args[i] = ast.NewIdent(name)
				}
				if _, ok := call.Fun.(*ast.FuncLit); !ok {
					tmp++
					name := fmt.Sprintf("zzfn%d", tmp)
					pre = append(pre, &ast.AssignStmt{Lhs: []ast.Expr{ast.NewIdent(name)}, Tok: token.DEFINE, Rhs: []ast.Expr{call.Fun}})
					call.Fun = ast.NewIdent(name)
				}
				goCall := &ast.ExprStmt{X: &ast.CallExpr{
					Fun:  &ast.SelectorExpr{X: ast.NewIdent("sync"), Sel: ast.NewIdent("Go")},
					Args: []ast.Expr{&ast.FuncLit{Type: &ast.FuncType{Params: &ast.FieldList{}}, Body: &ast.BlockStmt{List: []ast.Stmt{&ast.ExprStmt{X: call}}}}},
				}}
				out = append(out, &ast.BlockStmt{List: append(pre, goCall)})
				continue
			case *ast.SendStmt:
				ready := &ast.FuncLit{Type: &ast.FuncType{Params: &ast.FieldList{}, Results: &ast.FieldList{List: []*ast.Field{{Type: ast.NewIdent("bool")}}}},
					Body: &ast.BlockStmt{List: []ast.Stmt{&ast.ReturnStmt{Results: []ast.Expr{&ast.BinaryExpr{
						X:  &ast.CallExpr{Fun: ast.NewIdent("len"), Args: []ast.Expr{s.Chan}},
						Op: token.LSS,
						Y:  &ast.CallExpr{Fun: ast.NewIdent("cap"), Args: []ast.Expr{s.Chan}}}}}}}}
				out = append(out, &ast.ExprStmt{X: &ast.CallExpr{Fun: &ast.SelectorExpr{X: ast.NewIdent("sync"), Sel: ast.NewIdent("BeforeSend")}, Args: []ast.Expr{ready}}})
			case *ast.AssignStmt, *ast.ExprStmt, *ast.DeclStmt, *ast.ReturnStmt, *ast.IfStmt:
				// a plain (blocking) receive inside the statement's own expressions
				for _, ch := range receivesOf(st) {
					ready := &ast.FuncLit{Type: &ast.FuncType{Params: &ast.FieldList{}, Results: &ast.FieldList{List: []*ast.Field{{Type: ast.NewIdent("bool")}}}},
						Body: &ast.BlockStmt{List: []ast.Stmt{&ast.ReturnStmt{Results: []ast.Expr{&ast.BinaryExpr{
							X:  &ast.CallExpr{Fun: ast.NewIdent("len"), Args: []ast.Expr{ch}},
							Op: token.GTR,
							Y:  &ast.BasicLit{Kind: token.INT, Value: "0"}}}}}}}
					out = append(out, &ast.ExprStmt{X: &ast.CallExpr{Fun: &ast.SelectorExpr{X: ast.NewIdent("sync"), Sel: ast.NewIdent("BeforeRecv")}, Args: []ast.Expr{ready}}})
				}
			case *ast.SelectStmt:
				// select { case comm_i: body_i ... [default: body] }  becomes
				//   switch sync.Select(hasDefault, ready_0, ready_1, ...) { case i: comm_i; body_i ... case -1: body }
				// Select is a scheduling point that is enabled when some case is ready (or there is a
				// default) and then lets the explorer choose among the ready cases - the choice Go makes
				// at random. Readiness: send = room in the buffer; receive from x.Done() = closed
				// (probed without consuming); any other receive = a value is buffered.
				hasDefault := false
				var readies []ast.Expr
				sw := &ast.SwitchStmt{Body: &ast.BlockStmt{}}
				boolFn := func(e ast.Expr) ast.Expr {
					return &ast.FuncLit{Type: &ast.FuncType{Params: &ast.FieldList{}, Results: &ast.FieldList{List: []*ast.Field{{Type: ast.NewIdent("bool")}}}},
						Body: &ast.BlockStmt{List: []ast.Stmt{&ast.ReturnStmt{Results: []ast.Expr{e}}}}}
				}
				idx := 0
				for _, c := range s.Body.List {
					cc := c.(*ast.CommClause)
					if cc.Comm == nil {
						hasDefault = true
						sw.Body.List = append(sw.Body.List, &ast.CaseClause{List: []ast.Expr{&ast.UnaryExpr{Op: token.SUB, X: &ast.BasicLit{Kind: token.INT, Value: "1"}}}, Body: cc.Body})
						continue
					}
					var ready ast.Expr
					switch cm := cc.Comm.(type) {
					case *ast.SendStmt:
						ready = &ast.BinaryExpr{X: &ast.CallExpr{Fun: ast.NewIdent("len"), Args: []ast.Expr{cm.Chan}}, Op: token.LSS, Y: &ast.CallExpr{Fun: ast.NewIdent("cap"), Args: []ast.Expr{cm.Chan}}}
					default:
						chs := receivesOf(cc.Comm)
						if len(chs) != 1 {
							unsupported(fset, cc, "select case that is neither a send nor a single receive")
						}
						ch := chs[0]
						if call, ok := ch.(*ast.CallExpr); ok {
							if sel, ok := call.Fun.(*ast.SelectorExpr); ok && sel.Sel.Name == "Done" && len(call.Args) == 0 {
								ready = &ast.CallExpr{Fun: &ast.SelectorExpr{X: ast.NewIdent("sync"), Sel: ast.NewIdent("Closed")}, Args: []ast.Expr{ch}}
							}
						}
						if ready == nil {
							ready = &ast.BinaryExpr{X: &ast.CallExpr{Fun: ast.NewIdent("len"), Args: []ast.Expr{ch}}, Op: token.GTR, Y: &ast.BasicLit{Kind: token.INT, Value: "0"}}
						}
					}
					readies = append(readies, boolFn(ready))
					chosen[cc.Comm] = true
					sw.Body.List = append(sw.Body.List, &ast.CaseClause{List: []ast.Expr{&ast.BasicLit{Kind: token.INT, Value: strconv.Itoa(idx)}}, Body: append([]ast.Stmt{cc.Comm}, cc.Body...)})
					idx++
				}
				hd := "false"
				if hasDefault {
					hd = "true"
				}
				sw.Tag = &ast.CallExpr{Fun: &ast.SelectorExpr{X: ast.NewIdent("sync"), Sel: ast.NewIdent("Select")}, Args: append([]ast.Expr{ast.NewIdent(hd)}, readies...)}
				out = append(out, sw)
				continue
			}
			out = append(out, st)
		}
		return out
	}
	ast.Inspect(f, func(n ast.Node) bool {
		switch x := n.(type) {
		case *ast.BlockStmt:
			x.List = rewriteList(x.List)
		case *ast.CaseClause:
			x.Body = rewriteList(x.Body)
		case *ast.CommClause:
			x.Body = rewriteList(x.Body)
		case *ast.LabeledStmt:
			if g, ok := x.Stmt.(*ast.GoStmt); ok {
				unsupported(fset, g, "labelled go statement")
			}
			if g, ok := x.Stmt.(*ast.SelectStmt); ok {
				unsupported(fset, g, "labelled select statement")
			}
		case *ast.UnaryExpr:
			if x.Op == token.ARROW {
				// receives are only supported as the communication of a select-with-default clause
				return true
			}
		case *ast.RangeStmt:
			// ranging over a channel blocks
			return true
		}
		return true
	})
	// a receive used as the condition of a for loop cannot be hooked by a preceding statement
	ast.Inspect(f, func(n ast.Node) bool {
		if fs, ok := n.(*ast.ForStmt); ok && fs.Cond != nil {
			ast.Inspect(fs.Cond, func(m ast.Node) bool {
				if u, ok := m.(*ast.UnaryExpr); ok && u.Op == token.ARROW {
					unsupported(fset, u, "channel receive in a for condition")
				}
				return true
			})
		}
		if rs, ok := n.(*ast.RangeStmt); ok {
			_ = rs // ranging over a channel would block; transport.go does not do it (types are not known here)
		}
		return true
	})
	var buf bytes.Buffer
	if err := format.Node(&buf, fset, f); err != nil {
		fmt.Fprintln(os.Stderr, err)
		os.Exit(2)
	}
	os.MkdirAll(outdir, 0o755)
	must(os.WriteFile(filepath.Join(outdir, "transport.go"), buf.Bytes(), 0o644))
	shim, err := os.ReadFile(filepath.Join(filepath.Dir(os.Args[0]), "..", "shims", "zzsync", "zzsync.go.txt"))
	if err != nil {
		shim, err = os.ReadFile("/verif/shims/zzsync/zzsync.go.txt")
	}
	must(err)
	must(os.WriteFile(filepath.Join(outdir, "zzsync.go"), shim, 0o644))
	ov := map[string]map[string]string{"Replace": {
		src: filepath.Join(outdir, "transport.go"),
		filepath.Join(repo, "pub", "zzsync", "zzsync.go"): filepath.Join(outdir, "zzsync.go"),
	}}
	b, _ := json.MarshalIndent(ov, "", " ")
	must(os.WriteFile(filepath.Join(outdir, "overlay.json"), b, 0o644))
}

func must(err error) {
	if err != nil {
		fmt.Fprintln(os.Stderr, err)
		os.Exit(2)
	}
}

// receivesOf lists the channel operands of receive expressions that belong to the statement itself
// (not to nested blocks or function literals, which are rewritten when their own lists are visited).
func receivesOf(st ast.Stmt) []ast.Expr {
	var out []ast.Expr
	var exprs []ast.Expr
	switch s := st.(type) {
	case *ast.AssignStmt:
		exprs = s.Rhs
	case *ast.ExprStmt:
		exprs = []ast.Expr{s.X}
	case *ast.ReturnStmt:
		exprs = s.Results
	case *ast.IfStmt:
		if s.Cond != nil {
			exprs = []ast.Expr{s.Cond}
		}
		if a, ok := s.Init.(*ast.AssignStmt); ok {
			exprs = append(exprs, a.Rhs...)
		}
	case *ast.DeclStmt:
		if gd, ok := s.Decl.(*ast.GenDecl); ok {
			for _, sp := range gd.Specs {
				if vs, ok := sp.(*ast.ValueSpec); ok {
					exprs = append(exprs, vs.Values...)
				}
			}
		}
	}
	for _, e := range exprs {
		ast.Inspect(e, func(n ast.Node) bool {
			switch x := n.(type) {
			case *ast.FuncLit:
				return false
			case *ast.UnaryExpr:
				if x.Op == token.ARROW {
					out = append(out, x.X)
				}
			}
			return true
		})
	}
	return out
}
