//go:build verifoverlay

// Command verift explores BatchDeliver / Deliver / Dereference of the bundled transport under the
// cooperative scheduler. It is built with the sync overlay (cmd/mkoverlay), which routes the
// mutexes, WaitGroup, go statements and channel operations of pub/transport.go through zzsync.
package main

import (
	"bytes"
	"context"
	"crypto"
	"encoding/json"
	"fmt"
	"io/ioutil"
	"net/http"
	"net/url"
	"os"
	"sort"
	"strings"
	"time"

	"github.com/go-fed/activity/pub"
	"github.com/go-fed/activity/pub/zzsync"

	"verif/mc"
)

type hooks struct {
	s *mc.Sched
	x *mc.Exec
}

// Choose: which of several ready select cases runs (Go decides at random; here the explorer does).
func (h hooks) Choose(name string, n int) int { return h.x.Choose(mc.KEnv, n, nil, 0, name) }

func (h hooks) Point(name string, enabled func() bool) {
	t := h.s.Current()
	if t == nil {
		return
	}
	h.s.Point(t, mc.Op{Name: name, Enabled: enabled})
}
func (h hooks) Go(f func()) { h.s.Spawn("worker", func(t *mc.T) { f() }) }

type outcome struct {
	name string
	st   int   // HTTP status (0 = n/a)
	cerr bool  // client error
	serr bool  // signer error
}

var outcomes = []outcome{{"200", 200, false, false}, {"202", 202, false, false}, {"404", 404, false, false}, {"500", 500, false, false}, {"client-error", 0, true, false}, {"signer-error", 0, false, true}}

func (o outcome) fails() bool { return o.cerr || o.serr || !(o.st == 200 || o.st == 201 || o.st == 202) }

type world struct {
	s        *mc.Sched
	plan     map[string][]outcome // url -> outcomes for successive attempts
	attempts map[string]int       // SignRequest calls per url
	dos      map[string]int       // Do calls per url
	busy     map[string]bool      // signer busy flags (get / post)
	overlap  []string
}

type signer struct {
	w    *world
	name string
}

func (sg signer) SignRequest(pKey crypto.PrivateKey, pubKeyId string, r *http.Request, body []byte) error {
	w := sg.w
	u := r.URL.String()
	if w.busy[sg.name] {
		w.overlap = append(w.overlap, sg.name+" signer entered for "+u+" while busy")
	}
	w.busy[sg.name] = true
	if t := w.s.Current(); t != nil {
		w.s.Point(t, mc.Op{Name: "SignRequest", Res: u}) // a yield in the middle of signing
	}
	w.busy[sg.name] = false
	n := w.attempts[u]
	w.attempts[u]++
	if o := w.pick(u, n); o.serr {
		return fmt.Errorf("signer-failure-token-%s-%d", tokenOf(u), n)
	}
	r.Header.Set("Signature", "x")
	return nil
}
func (sg signer) SignResponse(crypto.PrivateKey, string, http.ResponseWriter, []byte) error { return nil }

func (w *world) pick(u string, n int) outcome {
	p := w.plan[u]
	if n < len(p) {
		return p[n]
	}
	return outcomes[0]
}

func tokenOf(u string) string { return strings.NewReplacer("https://", "", "/", "_", ".", "_").Replace(u) }

type client struct{ w *world }

func (c client) Do(req *http.Request) (*http.Response, error) {
	w := c.w
	u := req.URL.String()
	if t := w.s.Current(); t != nil {
		w.s.Point(t, mc.Op{Name: "Do", Res: u})
	}
	// the attempt this Do belongs to is the latest signed one that has not been sent yet
	n := w.dos[u]
	// skip attempts that ended with a signer error (they never reach the client)
	for w.pick(u, n).serr {
		n++
	}
	w.dos[u] = n + 1
	o := w.pick(u, n)
	if o.cerr {
		return nil, fmt.Errorf("client-failure-token-%s-%d", tokenOf(u), n)
	}
	return &http.Response{StatusCode: o.st, Status: fmt.Sprintf("%d %s", o.st, http.StatusText(o.st)), Body: ioutil.NopCloser(bytes.NewReader([]byte("{}")))}, nil
}

type clock struct{}

func (clock) Now() time.Time { return time.Date(2020, 1, 2, 3, 4, 5, 0, time.UTC) }

type scenario struct {
	name    string
	batches [][]string  // recipient lists, one per concurrent BatchDeliver
	outs    [][]outcome // outcome per entry, per batch
	deref   bool        // plus one concurrent Dereference
	derefs  int         // further concurrent Dereference calls
	singles []string    // plus concurrent single Deliver calls to these URLs
	ctxDone bool        // the caller's context is already cancelled when the batch is handed over
	big     bool        // a batch of five or more recipients: explored without preemptions (thorough: one)
}

type result struct {
	Executions  int           `json:"executions"`
	States      int           `json:"states"`
	Transitions int           `json:"transitions"`
	Distinct    int           `json:"distinct"`
	Exhaustive  bool          `json:"exhaustive"`
	Violations  []interface{} `json:"violations"`
	Samples     []interface{} `json:"samples"`
	Scenarios   interface{}   `json:"scenarios"`
}

func runScenario(sc scenario, x *mc.Exec) (w *world, s *mc.Sched, errs []error, rets []bool) {
	s = mc.NewSched(x)
	w = &world{s: s, plan: map[string][]outcome{}, attempts: map[string]int{}, dos: map[string]int{}, busy: map[string]bool{}}
	for bi, b := range sc.batches {
		for i, u := range b {
			w.plan[u] = append(w.plan[u], sc.outs[bi][i])
		}
	}
	zzsync.H = hooks{s, x}
	tp := pub.NewHttpSigTransport(client{w}, "app", clock{}, signer{w, "get"}, signer{w, "post"}, "key", []byte("k"))
	errs = make([]error, len(sc.batches))
	rets = make([]bool, len(sc.batches)+1+sc.derefs+len(sc.singles))
	for bi := range sc.batches {
		bi := bi
		s.Go(fmt.Sprintf("batch%d", bi), func(t *mc.T) {
			var rs []*url.URL
			for _, u := range sc.batches[bi] {
				pu, _ := url.Parse(u)
				rs = append(rs, pu)
			}
			ctx := context.Background()
			if sc.ctxDone {
				c2, cancel := context.WithCancel(ctx)
				cancel()
				ctx = c2
			}
			errs[bi] = tp.BatchDeliver(ctx, []byte("payload"), rs)
			rets[bi] = true
		})
	}
	if sc.deref {
		s.Go("deref", func(t *mc.T) {
			pu, _ := url.Parse("https://r9.example/doc")
			tp.Dereference(context.Background(), pu)
			rets[len(sc.batches)] = true
		})
	} else {
		rets[len(sc.batches)] = true
	}
	for d := 0; d < sc.derefs; d++ {
		d := d
		s.Go(fmt.Sprintf("deref%d", d+2), func(t *mc.T) {
			pu, _ := url.Parse(fmt.Sprintf("https://r9.example/doc%d", d+2))
			tp.Dereference(context.Background(), pu)
			rets[len(sc.batches)+1+d] = true
		})
	}
	for i, u := range sc.singles {
		i, u := i, u
		s.Go(fmt.Sprintf("deliver%d", i), func(t *mc.T) {
			pu, _ := url.Parse(u)
			tp.Deliver(context.Background(), []byte("payload"), pu)
			rets[len(sc.batches)+1+sc.derefs+i] = true
		})
	}
	s.Run()
	return
}

func main() {
	tier := "quick"
	if len(os.Args) > 2 {
		tier = os.Args[2]
	}
	thorough := tier == "thorough"
	shard, nshards := 0, 1
	if len(os.Args) > 4 {
		fmt.Sscan(os.Args[3], &shard)
		fmt.Sscan(os.Args[4], &nshards)
	}
	urls := []string{"https://r1.example/in", "https://r2.example/in", "https://r3.example/in"}
	var scs []scenario
	// single batches: n = 0..3, every outcome combination, distinct recipients and one duplicate
	var gen func(n int, cur []outcome)
	gen = func(n int, cur []outcome) {
		if len(cur) == n {
			rec := urls[:n]
			scs = append(scs, scenario{name: fmt.Sprintf("batch n=%d %v", n, names(cur)), batches: [][]string{append([]string(nil), rec...)}, outs: [][]outcome{append([]outcome(nil), cur...)}})
			if n >= 1 && n <= 2 {
				scs = append(scs, scenario{name: fmt.Sprintf("batch n=%d cancelled-context %v", n, names(cur)), batches: [][]string{append([]string(nil), rec...)}, outs: [][]outcome{append([]outcome(nil), cur...)}, ctxDone: true})
			}
			if n >= 2 {
				dup := append([]string(nil), rec...)
				dup[n-1] = dup[0]
				scs = append(scs, scenario{name: fmt.Sprintf("batch n=%d dup %v", n, names(cur)), batches: [][]string{dup}, outs: [][]outcome{append([]outcome(nil), cur...)}})
			}
			return
		}
		for _, o := range outcomes {
			if n == 3 && !thorough && len(cur) == 2 && o.name != cur[0].name && o.name != cur[1].name && o.name != "200" {
				continue // quick: n=3 keeps combinations with at most two distinct non-200 outcomes
			}
			gen(n, append(cur, o))
		}
	}
	maxN := 3
	for n := 0; n <= maxN; n++ {
		gen(n, nil)
	}
	// larger batches: 5 and 6 (thorough: 9) recipients with four outcome patterns each
	bigSizes := []int{5, 6}
	if thorough {
		bigSizes = []int{5, 6, 9}
	}
	for _, n := range bigSizes {
		var rec []string
		for i := 0; i < n; i++ {
			rec = append(rec, fmt.Sprintf("https://big%d.example/in", i))
		}
		for pi, pat := range []func(i int) outcome{
			func(i int) outcome { return outcomes[3] },
			func(i int) outcome {
				if i == n-1 {
					return outcomes[0]
				}
				return outcomes[3]
			},
			func(i int) outcome {
				if i == n-1 {
					return outcomes[4]
				}
				return outcomes[0]
			},
			func(i int) outcome {
				if i%2 == 1 {
					return outcomes[5]
				}
				return outcomes[1]
			}} {
			var outs []outcome
			for i := 0; i < n; i++ {
				outs = append(outs, pat(i))
			}
			scs = append(scs, scenario{name: fmt.Sprintf("batch n=%d pattern=%d", n, pi), batches: [][]string{rec}, outs: [][]outcome{outs}, big: true})
		}
	}
	// concurrent use of one transport value
	scs = append(scs,
		scenario{name: "two batches + dereference", batches: [][]string{{urls[0], urls[1]}, {urls[1]}}, outs: [][]outcome{{outcomes[0], outcomes[3]}, {outcomes[4]}}, deref: true},
		scenario{name: "two batches signer error", batches: [][]string{{urls[0]}, {urls[1], urls[2]}}, outs: [][]outcome{{outcomes[5]}, {outcomes[0], outcomes[5]}}, deref: false},
		scenario{name: "batch + dereference", batches: [][]string{{urls[0], urls[1]}}, outs: [][]outcome{{outcomes[5], outcomes[0]}}, deref: true},
		// calls that share a signer: fetches with fetches, single deliveries with single deliveries and with a batch
		scenario{name: "two dereferences", deref: true, derefs: 1},
		scenario{name: "three dereferences", deref: true, derefs: 2},
		scenario{name: "two single deliveries", singles: []string{urls[0], urls[1]}},
		scenario{name: "two dereferences + two single deliveries", deref: true, derefs: 1, singles: []string{urls[0], urls[1]}},
		scenario{name: "batch + single delivery + dereference", batches: [][]string{{urls[0], urls[1]}}, outs: [][]outcome{{outcomes[0], outcomes[0]}}, singles: []string{urls[2]}, deref: true},
	)
	bound := 2
	if thorough {
		bound = 3
	}
	res := result{Exhaustive: true}
	per := map[string]interface{}{}
	seenKeys := map[string]bool{}
	deadline := time.Now().Add(10 * time.Minute)
	if thorough {
		deadline = time.Now().Add(40 * time.Minute)
	}
	for si, sc := range scs {
		sc := sc
		if si%nshards != shard {
			continue
		}
		e := &mc.Explorer{Deadline: deadline}
		b := bound
		nThreads := 0
		for _, bt := range sc.batches {
			nThreads += 1 + len(bt)
		}
		if sc.deref {
			nThreads++
		}
		nThreads += sc.derefs + len(sc.singles)
		if nThreads >= 5 {
			b = bound - 1 // many threads: one preemption less
		}
		if sc.big {
			b = 0 // six or more threads: the non-preemptive schedules only (every order in which threads are picked when one blocks or ends)
			if thorough && len(sc.batches[0]) <= 5 {
				b = 1 // (one preemption over ten threads does not finish within the budget)
			}
		}
		e.Budget = [3]int{b, 0, -1} // every choice among simultaneously ready select cases
		finals := map[string]bool{}
		e.Run = func(x *mc.Exec) bool {
			w, s, errs, rets := runScenario(sc, x)
			viol := func(key, what string) {
				if !seenKeys[key] {
					seenKeys[key] = true
					res.Violations = append(res.Violations, map[string]interface{}{"key": key, "what": fmt.Sprintf("scenario %q schedule %v: %s", sc.name, s.Trace, what),
						"replay": map[string]interface{}{"check": "C19", "part": "schedule", "scenario": sc.name, "choices": x.Choices(), "schedule": s.Trace}})
				}
			}
			if s.Deadlock {
				viol("batch|deadlock", "deadlock: "+s.DeadlockInfo)
				return true
			}
			if s.HorizonHit {
				viol("batch|no-return", "a thread exceeded the step horizon")
				return true
			}
			for _, t := range s.Threads() {
				if t.Panic != nil {
					viol(fmt.Sprintf("batch|panic|%v", t.Panic), fmt.Sprintf("thread %s panicked: %v", t.Name, t.Panic))
					return true
				}
			}
			for i, r := range rets {
				if !r {
					viol("batch|did-not-finish", fmt.Sprintf("call %d did not return", i))
				}
			}
			for _, o := range w.overlap {
				viol("batch|signer-calls-overlap", o)
			}
			// one attempt per recipient entry
			want := map[string]int{}
			for _, b := range sc.batches {
				for _, u := range b {
					want[u]++
				}
			}
			for _, u := range sc.singles {
				want[u]++
			}
			for u, n := range want {
				if w.attempts[u] != n {
					viol("batch|attempt-count", fmt.Sprintf("%s was attempted %d times, it is listed %d times", u, w.attempts[u], n))
				}
			}
			// error iff some attempt failed, naming each failure
			for bi, b := range sc.batches {
				anyFail := false
				for i := range b {
					if sc.outs[bi][i].fails() {
						anyFail = true
					}
				}
				if len(sc.batches) == 1 {
					if (errs[bi] != nil) != anyFail {
						viol("batch|error-iff-failure", fmt.Sprintf("batch %d returned %v, outcomes %v", bi, errs[bi], names(sc.outs[bi])))
					}
					if errs[bi] != nil {
						txt := errs[bi].Error()
						// with duplicates the attempt order decides which entry meets which outcome: count failures
						nf := 0
						for i := range b {
							if sc.outs[bi][i].fails() {
								nf++
							}
						}
						got := strings.Count(txt, "failure-token-") + strings.Count(txt, "request to ")
						if got != nf {
							viol("batch|error-does-not-name-each-failure", fmt.Sprintf("%d attempts failed, the error names %d: %q", nf, got, txt))
						}
					}
				}
			}
			var fk []string
			for u, n := range w.attempts {
				fk = append(fk, fmt.Sprintf("%s=%d", u, n))
			}
			sort.Strings(fk)
			finals[strings.Join(fk, ",")+fmt.Sprint(errs)] = true
			return true
		}
		e.Explore()
		res.Executions += e.Execs
		res.Transitions += e.PointsSeen // scheduling steps executed
		res.States += e.Transitions     // nodes of the schedule tree (choice points past the replayed prefixes)
		res.Distinct++
		if !e.Exhaustive {
			res.Exhaustive = false
		}
		if len(per) < 400 {
			per[sc.name] = map[string]interface{}{"executions": e.Execs, "bound_completed": fmt.Sprintf("<=%d preemptions", b), "exhaustive": e.Exhaustive}
		}
	}
	res.Scenarios = map[string]interface{}{"count": len(scs), "preemption_bound": bound, "examples": firstN(per, 6)}
	res.Samples = append(res.Samples, map[string]interface{}{"part": "schedule", "scenario": scs[len(scs)-3].name, "bound": bound})
	if res.Violations == nil {
		res.Violations = []interface{}{}
	}
	json.NewEncoder(os.Stdout).Encode(res)
}

func names(os []outcome) []string {
	var s []string
	for _, o := range os {
		s = append(s, o.name)
	}
	return s
}

func firstN(m map[string]interface{}, n int) map[string]interface{} {
	ks := make([]string, 0, len(m))
	for k := range m {
		ks = append(ks, k)
	}
	sort.Strings(ks)
	o := map[string]interface{}{}
	for i, k := range ks {
		if i%(len(ks)/n+1) == 0 {
			o[k] = m[k]
		}
	}
	return o
}
