// Command mkmaporder writes a go build overlay in which every `range` over a map in the given
// packages of the repository iterates through the zzmaporder shim.
//   mkmaporder <repo> <outdir> <shim-virtual-dir-relative-to-repo> <pattern>...
// It prints "sites N files M" and writes <outdir>/overlay.json and <outdir>/sites.txt.
package main

import (
	"encoding/json"
	"fmt"
	"go/ast"
	"go/token"
	"go/types"
	"os"
	"path/filepath"
	"sort"
	"strings"

	"golang.org/x/tools/go/packages"
)

type site struct {
	file string
	rs   *ast.RangeStmt
	id   int
}

func main() {
	repo, outdir, shimRel := os.Args[1], os.Args[2], os.Args[3]
	patterns := os.Args[4:]
	cfg := &packages.Config{Mode: packages.NeedName | packages.NeedFiles | packages.NeedCompiledGoFiles | packages.NeedSyntax | packages.NeedTypes | packages.NeedTypesInfo | packages.NeedImports | packages.NeedDeps, Dir: repo}
	pkgs, err := packages.Load(cfg, patterns...)
	if err != nil {
		fmt.Fprintln(os.Stderr, err)
		os.Exit(2)
	}
	fset := pkgs[0].Fset
	byFile := map[string][]*ast.RangeStmt{}
	var files []string
	for _, p := range pkgs {
		if len(p.Errors) > 0 {
			fmt.Fprintln(os.Stderr, "package errors:", p.Errors)
			os.Exit(2)
		}
		for i, f := range p.Syntax {
			name := p.CompiledGoFiles[i]
			if strings.HasSuffix(name, "_test.go") {
				continue
			}
			ast.Inspect(f, func(n ast.Node) bool {
				if rs, ok := n.(*ast.RangeStmt); ok {
					if t := p.TypesInfo.TypeOf(rs.X); t != nil {
						if _, isMap := t.Underlying().(*types.Map); isMap {
							if _, ok := byFile[name]; !ok {
								files = append(files, name)
							}
							byFile[name] = append(byFile[name], rs)
						}
					}
				}
				return true
			})
		}
	}
	sort.Strings(files)
	os.MkdirAll(outdir, 0o755)
	importPath := "github.com/go-fed/activity/" + shimRel
	replace := map[string]string{}
	var sitesTxt strings.Builder
	id := 0
	for _, name := range files {
		src, err := os.ReadFile(name)
		if err != nil {
			fmt.Fprintln(os.Stderr, err)
			os.Exit(2)
		}
		rss := byFile[name]
		sort.Slice(rss, func(i, j int) bool { return rss[i].Pos() < rss[j].Pos() })
		ids := make([]int, len(rss))
		for i := range rss {
			id++
			ids[i] = id
			pos := fset.Position(rss[i].Pos())
			fmt.Fprintf(&sitesTxt, "%d %s:%d\n", id, strings.TrimPrefix(name, repo+"/"), pos.Line)
		}
		out := string(src)
		off := func(p token.Pos) int { return fset.Position(p).Offset }
		for i := len(rss) - 1; i >= 0; i-- {
			rs := rss[i]
			x := string(src[off(rs.X.Pos()):off(rs.X.End())])
			ev := fmt.Sprintf("zze%d", ids[i])
			okv := fmt.Sprintf("zzok%d", ids[i])
			header := fmt.Sprintf("for _, %s := range zzmaporder.Iter(%s, %d) {", ev, x, ids[i])
			keyName, valName := "", ""
			if id, ok := rs.Key.(*ast.Ident); ok && id.Name != "_" {
				keyName = id.Name
			} else if rs.Key != nil {
				if _, isIdent := rs.Key.(*ast.Ident); !isIdent {
					keyName = string(src[off(rs.Key.Pos()):off(rs.Key.End())])
				}
			}
			if rs.Value != nil {
				if id, ok := rs.Value.(*ast.Ident); ok && id.Name != "_" {
					valName = id.Name
				} else if !ok {
					valName = string(src[off(rs.Value.Pos()):off(rs.Value.End())])
				}
			}
			var pro strings.Builder
			define := rs.Tok == token.DEFINE
			if valName != "" {
				if define {
					fmt.Fprintf(&pro, " %s, %s := %s.Get(); if !%s { continue };", valName, okv, ev, okv)
				} else {
					fmt.Fprintf(&pro, " var %s bool; %s, %s = %s.Get(); if !%s { continue };", okv, valName, okv, ev, okv)
				}
			} else {
				fmt.Fprintf(&pro, " if !%s.Live() { continue };", ev)
			}
			if keyName != "" {
				if define {
					fmt.Fprintf(&pro, " %s := %s.K;", keyName, ev)
				} else {
					fmt.Fprintf(&pro, " %s = %s.K;", keyName, ev)
				}
			}
			start, lbrace := off(rs.For), off(rs.Body.Lbrace)
			out = out[:start] + header + pro.String() + out[lbrace+1:]
		}
		// imports + language version
		pk := strings.Index(out, "\npackage ")
		if strings.HasPrefix(out, "package ") {
			pk = -1
		}
		lineEnd := strings.Index(out[pk+1:], "\n") + pk + 1
		out = out[:lineEnd+1] + "\nimport zzmaporder \"" + importPath + "\"\n" + out[lineEnd+1:]
		out = "//go:build go1.18\n\n" + out
		dst := filepath.Join(outdir, strings.ReplaceAll(strings.TrimPrefix(name, repo+"/"), "/", "__"))
		if err := os.WriteFile(dst, []byte(out), 0o644); err != nil {
			fmt.Fprintln(os.Stderr, err)
			os.Exit(2)
		}
		replace[name] = dst
	}
	shim, err := os.ReadFile("/verif/shims/zzmaporder/zzmaporder.go.txt")
	if err != nil {
		fmt.Fprintln(os.Stderr, err)
		os.Exit(2)
	}
	shimDst := filepath.Join(outdir, "zzmaporder.go")
	os.WriteFile(shimDst, shim, 0o644)
	replace[filepath.Join(repo, shimRel, "zzmaporder.go")] = shimDst
	b, _ := json.MarshalIndent(map[string]interface{}{"Replace": replace}, "", " ")
	os.WriteFile(filepath.Join(outdir, "overlay.json"), b, 0o644)
	os.WriteFile(filepath.Join(outdir, "sites.txt"), []byte(sitesTxt.String()), 0o644)
	fmt.Printf("sites %d files %d\n", id, len(files))
}
