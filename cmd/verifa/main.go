// Command verifa runs the astool check: verifa C15 <quick|thorough>.
package main

import (
	"fmt"
	"os"

	"verif/achecks"
)

func main() {
	if len(os.Args) < 3 || os.Args[1] != "C15" {
		fmt.Fprintln(os.Stderr, "usage: verifa C15 <quick|thorough>")
		os.Exit(2)
	}
	os.Exit(achecks.C15(os.Args[2]))
}
