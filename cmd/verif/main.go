// Command verif runs one property check: verif <Cnn> <quick|thorough> | verif replay <path>.
package main

import (
	"encoding/json"
	"fmt"
	"os"

	"verif/checks"
)

var table = map[string]func(tier string) int{
	"C02": checks.C02,
	"C03": checks.C03,
	"C04": checks.C04,
	"C06": checks.C06,
	"C05": checks.C05,
	"C07": checks.C07,
	"C08": checks.C08,
	"C09": checks.C09,
	"C10": checks.C10,
	"C11": checks.C11,
	"C16": checks.C16,
	"C17": checks.C17,
	"C19": checks.C19,
	"C20": checks.C20,
}

func main() {
	if len(os.Args) < 3 {
		fmt.Fprintln(os.Stderr, "usage: verif <Cnn> <quick|thorough> | verif replay <path>")
		os.Exit(2)
	}
	if os.Args[1] == "replay" {
		b, err := os.ReadFile(os.Args[2])
		if err != nil {
			fmt.Fprintln(os.Stderr, err)
			os.Exit(2)
		}
		var doc map[string]interface{}
		json.Unmarshal(b, &doc)
		rep, _ := doc["replay"].(map[string]interface{})
		fmt.Println("replaying", doc["property"], doc["key"])
		checks.Replay(rep)
		return
	}
	if os.Args[1] == "C08worker" {
		checks.StartWatchdog("", "")
	}
	if os.Args[1] == "C11worker" {
		os.Exit(checks.C11Worker(os.Args[2:]))
	}
	if os.Args[1] == "C08worker" {
		os.Exit(checks.C08Worker(os.Args[2:]))
	}
	f, ok := table[os.Args[1]]
	if !ok {
		fmt.Fprintln(os.Stderr, "unknown check", os.Args[1])
		os.Exit(2)
	}
	checks.StartWatchdog(os.Args[1], os.Args[2])
	os.Exit(f(os.Args[2]))
}
