// Command verifs runs one check of the generated streams package: verifs <Cnn> <quick|thorough>.
package main

import (
	"fmt"
	"os"

	"verif/schecks"
)

var table = map[string]func(tier string) int{
	"C01": schecks.C01,
	"C12": schecks.C12,
	"C13": schecks.C13,
	"C14": schecks.C14,
	"C18": schecks.C18,
}

func main() {
	if len(os.Args) < 3 {
		fmt.Fprintln(os.Stderr, "usage: verifs <Cnn> <quick|thorough>")
		os.Exit(2)
	}
	f, ok := table[os.Args[1]]
	if !ok {
		fmt.Fprintln(os.Stderr, "unknown check", os.Args[1])
		os.Exit(2)
	}
	os.Exit(f(os.Args[2]))
}
