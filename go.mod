module verif

go 1.23

require (
	github.com/go-fed/activity v0.0.0
	github.com/go-fed/httpsig v0.1.1-0.20190914113940-c2de3672e5b5
)

require (
	golang.org/x/mod v0.22.0 // indirect
	golang.org/x/sync v0.10.0 // indirect
)

require (
	golang.org/x/crypto v0.0.0-20180527072434-ab813273cd59 // indirect
	golang.org/x/sys v0.29.0 // indirect
	golang.org/x/tools v0.29.0
)

replace github.com/go-fed/activity => /repo
