module verif

go 1.23

require (
	github.com/go-fed/activity v0.0.0
	github.com/go-fed/httpsig v0.1.1-0.20190914113940-c2de3672e5b5
)

require (
	golang.org/x/crypto v0.0.0-20180527072434-ab813273cd59 // indirect
	golang.org/x/sys v0.0.0-20180525142821-c11f84a56e43 // indirect
)

replace github.com/go-fed/activity => /repo
