#!/bin/bash
# seedrun.sh [id...] — rebase every seeded change onto /repo HEAD, run its property's quick check (and
# listed cross-checks) against it, and record in meta.json which checks detect it.
cd /verif
ids=${@:-$(ls seeded)}
for d in $ids; do
  D=/verif/seeded/$d; prop=${d%%-*}
  case $prop in C01|C12|C13|C14|C15|C18) base=c65662b;; *) base=5386365;; esac
  case $d in *-m3|*-m4|*-m5|*-m6|*-m7|*-m8|*-m9|*-m10) base=d7aac73;; esac
  /verif/rebase_seed.sh $D $base > /tmp/seedrun.rebase 2>&1 || { echo "$d REBASE-FAILED: $(tail -1 /tmp/seedrun.rebase)"; continue; }
  checks="$prop"
  case $d in C16-m2|C16-m3) checks="C16 C08 C09";; C20-m2|C20-m4) checks="C20 C03";; C04-m1) checks="C04 C06";; C04-m3) checks="C04 C08";; C11-m4) checks="C11 C08";; C03-m4) checks="C03 C05";; C04-m5) checks="C04 C06";; C11-m5) checks="C11 C20";; C11-m8) checks="C11 C19";; C20-m7) checks="C20 C08";; C08-m7) checks="C08 C09";; C04-m9) checks="C04 C08";; C13-m9|C13-m10) checks="C13 C15";; C12-m9) checks="C12 C15";; C11-m10) checks="C11 C19";; esac
  det=""
  for c in $checks; do
    out=$(timeout 1800 /verif/seedtest.sh $D/patch.diff $c 2>&1)
    if echo "$out" | grep -q "^VIOLATION"; then
      key=$(echo "$out" | grep -m1 "^  key=" | sed 's/^  key=//')
      det="$det $c[$key]"
    fi
  done
  python3 - "$D" "$det" <<'PY'
import json,sys
d,det=sys.argv[1],sys.argv[2].strip()
m=json.load(open(d+'/meta.json'))
m['detected_by']=det.split(' ') if det else []
m['ran']="seedrun.sh: git -C /repo apply patch.diff; ./run.sh <check> quick; git -C /repo checkout -- ."
json.dump(m,open(d+'/meta.json','w'),indent=1)
PY
  echo "$d -> ${det:-NOT DETECTED}"
done
