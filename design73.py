#!/usr/bin/env python3
"""Refreshes the 'Runs / states' and 'Wall' columns of DESIGN.md section 7.3 from evidence/*.json."""
import json,re
p='/verif/DESIGN.md'
s=open(p).read()
def fmt(n): return f"{n:,}".replace(","," ")
out=[]
for line in s.split("\n"):
    m=re.match(r'^\| (C\d\d) \|',line)
    if m and line.count('|')>=6:
        cid=m.group(1)
        try:
            e=json.load(open(f'/verif/evidence/{cid}.json'))
        except Exception:
            out.append(line); continue
        cov=e.get('coverage',{})
        cells=line.split('|')
        # cells: ['', ' Cxx ', what, oracle, runs, wall, '']
        if len(cells)>=7:
            runs=fmt(cov.get('evaluations',0))
            st=cov.get('states',0)
            if st: runs+=f" ({fmt(st)} states)"
            cells[-3]=' '+runs+' '
            cells[-2]=f" {round(e.get('wall_s',0))} s "
            line='|'.join(cells)
    out.append(line)
open(p,'w').write("\n".join(out))
print("7.3 refreshed")
